//! mirfacts: a rustc_private driver that compiles a crate exactly as rustc would and, after
//! analysis, dumps structured facts (MIR bodies with resolved callees, ADTs, impls, evaluated
//! constants) as JSON lines.  Used as RUSTC_WORKSPACE_WRAPPER under `cargo +nightly check`.
//!
//! Environment:
//!   MIRFACTS_OUT     directory to write `<crate>.<kind>.<pid>.jsonl` into (required to dump)
//!   MIRFACTS_CRATES  comma separated crate names to dump (others are compiled untouched)
#![feature(rustc_private)]
#![allow(clippy::all)]

extern crate rustc_abi;
extern crate rustc_driver;
extern crate rustc_hir;
extern crate rustc_interface;
extern crate rustc_middle;
extern crate rustc_span;

use rustc_driver::{Callbacks, Compilation};
use rustc_hir::def::DefKind;
use rustc_hir::def_id::{DefId, LocalDefId, LOCAL_CRATE};
use rustc_interface::interface::Compiler;
use rustc_middle::mir::{self, ConstValue};
use rustc_middle::ty::print::{with_crate_prefix, with_no_trimmed_paths, with_no_visible_paths};
use rustc_middle::ty::{self, Ty, TyCtxt};
use rustc_span::Span;
use std::collections::{BTreeSet, HashSet};
use std::fmt::Write as _;

// ------------------------------------------------------------------------------------------
// tiny JSON helpers

fn jstr(s: &str) -> String {
    let mut o = String::with_capacity(s.len() + 2);
    o.push('"');
    for c in s.chars() {
        match c {
            '"' => o.push_str("\\\""),
            '\\' => o.push_str("\\\\"),
            '\n' => o.push_str("\\n"),
            '\r' => o.push_str("\\r"),
            '\t' => o.push_str("\\t"),
            c if (c as u32) < 0x20 => {
                let _ = write!(o, "\\u{:04x}", c as u32);
            }
            c => o.push(c),
        }
    }
    o.push('"');
    o
}

fn jlist(items: &[String]) -> String {
    let mut o = String::from("[");
    for (i, it) in items.iter().enumerate() {
        if i > 0 {
            o.push(',');
        }
        o.push_str(it);
    }
    o.push(']');
    o
}

fn jobj(items: &[(&str, String)]) -> String {
    let mut o = String::from("{");
    for (i, (k, v)) in items.iter().enumerate() {
        if i > 0 {
            o.push(',');
        }
        o.push_str(&jstr(k));
        o.push(':');
        o.push_str(v);
    }
    o.push('}');
    o
}

fn jbool(b: bool) -> String {
    if b { "true".into() } else { "false".into() }
}

// ------------------------------------------------------------------------------------------

struct Cx<'tcx> {
    tcx: TyCtxt<'tcx>,
    krate: String,
    adts: Vec<DefId>,
    adts_seen: HashSet<DefId>,
}

impl<'tcx> Cx<'tcx> {
    fn add_adt(&mut self, d: DefId) {
        if self.adts_seen.insert(d) {
            self.adts.push(d);
        }
    }

    /// Canonical, re-export independent name of a definition: true definition path with the
    /// crate name spelled out; generic parameters appear as declared (the consumer strips them).
    fn qname(&self, did: DefId) -> String {
        let s = with_crate_prefix!(with_no_visible_paths!(with_no_trimmed_paths!(self
            .tcx
            .def_path_str(did))));
        self.fix_crate(&s)
    }

    fn qname_args(&self, did: DefId, args: ty::GenericArgsRef<'tcx>) -> String {
        let s = with_crate_prefix!(with_no_visible_paths!(with_no_trimmed_paths!(self
            .tcx
            .def_path_str_with_args(did, args))));
        self.fix_crate(&s)
    }

    fn fix_crate(&self, s: &str) -> String {
        // replace the keyword `crate::` (only where it starts a path) by the crate's name
        let mut out = String::with_capacity(s.len() + 16);
        let b = s.as_bytes();
        let mut i = 0;
        while i < b.len() {
            if s[i..].starts_with("crate::")
                && (i == 0 || !(b[i - 1].is_ascii_alphanumeric() || b[i - 1] == b'_'))
            {
                out.push_str(&self.krate);
                out.push_str("::");
                i += 7;
            } else {
                let ch = s[i..].chars().next().unwrap();
                out.push(ch);
                i += ch.len_utf8();
            }
        }
        out
    }

    fn ty_str(&self, t: Ty<'tcx>) -> String {
        let s = with_crate_prefix!(with_no_visible_paths!(with_no_trimmed_paths!(t.to_string())));
        self.fix_crate(&s)
    }

    fn loc(&self, sp: Span) -> (String, usize, bool) {
        let exp = sp.from_expansion();
        let sp = sp.source_callsite();
        let sm = self.tcx.sess.source_map();
        let p = sm.lookup_char_pos(sp.lo());
        let f = match &p.file.name {
            rustc_span::FileName::Real(r) => match r.local_path() {
                Some(p) => p.to_string_lossy().into_owned(),
                None => format!("{:?}", r),
            },
            other => format!("{:?}", other),
        };
        (f, p.line, exp)
    }

    // ---------------------------------------------------------------- places / operands

    fn place(&mut self, body: &mir::Body<'tcx>, p: mir::Place<'tcx>) -> String {
        let mut pr: Vec<String> = Vec::new();
        let mut pty = mir::PlaceTy::from_ty(body.local_decls[p.local].ty);
        for elem in p.projection.iter() {
            match elem {
                mir::ProjectionElem::Deref => pr.push(jstr("*")),
                mir::ProjectionElem::Field(f, _) => {
                    let name = match pty.ty.kind() {
                        ty::Adt(adt, _) => {
                            let v = match pty.variant_index {
                                Some(v) => v,
                                None => rustc_abi::FIRST_VARIANT,
                            };
                            if adt.is_enum() && pty.variant_index.is_none() {
                                format!("{}", f.index())
                            } else {
                                adt.variant(v).fields[f].name.to_string()
                            }
                        }
                        _ => format!("{}", f.index()),
                    };
                    pr.push(jstr(&format!(".{}", name)));
                }
                mir::ProjectionElem::Downcast(_, v) => {
                    let name = match pty.ty.kind() {
                        ty::Adt(adt, _) => adt.variant(v).name.to_string(),
                        _ => format!("{}", v.index()),
                    };
                    pr.push(jstr(&format!("@{}", name)));
                }
                mir::ProjectionElem::Index(l) => pr.push(jstr(&format!("[_{}]", l.index()))),
                mir::ProjectionElem::ConstantIndex { offset, from_end, .. } => {
                    pr.push(jstr(&format!("[{}{}]", if from_end { "-" } else { "" }, offset)))
                }
                mir::ProjectionElem::Subslice { from, to, from_end } => {
                    pr.push(jstr(&format!("[{}..{}{}]", from, if from_end { "-" } else { "" }, to)))
                }
                mir::ProjectionElem::OpaqueCast(_) => pr.push(jstr("opaque")),
                mir::ProjectionElem::UnwrapUnsafeBinder(_) => pr.push(jstr("unbind")),
            }
            pty = pty.projection_ty(self.tcx, elem);
        }
        jobj(&[("b", format!("{}", p.local.index())), ("pr", jlist(&pr))])
    }

    fn konst(&mut self, owner: DefId, c: &mir::ConstOperand<'tcx>) -> String {
        let tcx = self.tcx;
        let ty = c.const_.ty();
        let mut items: Vec<(&str, String)> = Vec::new();
        items.push(("ty", jstr(&self.ty_str(ty))));
        match ty.kind() {
            ty::FnDef(did, args) => {
                items.push(("fn", jstr(&self.qname(*did))));
                items.push(("fnfull", jstr(&self.qname_args(*did, args))));
                items.push(("fargs", self.gargs(args)));
                if let Some(r) = self.resolve(owner, *did, args) {
                    items.push(("res", jstr(&r)));
                }
            }
            _ => {
                let env = ty::TypingEnv::post_analysis(tcx, owner);
                if let Some(si) = c.const_.try_eval_scalar_int(tcx, env) {
                    let size = si.size();
                    let v: String = if ty.is_signed() {
                        format!("{}", si.to_int(size))
                    } else {
                        format!("{}", si.to_uint(size))
                    };
                    // python ints are unbounded, JSON numbers of any size are fine for it
                    items.push(("i", v));
                }
                let s = with_no_trimmed_paths!(format!("{}", c.const_));
                items.push(("s", jstr(&s)));
                // a reference to a `static` item: name the item
                if let mir::Const::Val(ConstValue::Scalar(mir::interpret::Scalar::Ptr(ptr, _)), _) = c.const_ {
                    let aid = ptr.provenance.alloc_id();
                    if let Some(mir::interpret::GlobalAlloc::Static(sd)) = tcx.try_get_global_alloc(aid) {
                        items.push(("static", jstr(&self.qname(sd))));
                    }
                }
                if let mir::Const::Unevaluated(u, _) = c.const_ {
                    items.push(("uneval", jstr(&self.qname(u.def))));
                    if u.promoted.is_some() {
                        items.push(("promoted", format!("{}", u.promoted.unwrap().index())));
                    }
                }
            }
        }
        jobj(&items)
    }

    fn operand(&mut self, owner: DefId, body: &mir::Body<'tcx>, o: &mir::Operand<'tcx>) -> String {
        match o {
            mir::Operand::Copy(p) => jobj(&[("c", self.place(body, *p))]),
            mir::Operand::Move(p) => jobj(&[("m", self.place(body, *p))]),
            mir::Operand::Constant(c) => jobj(&[("k", self.konst(owner, c))]),
            #[allow(unreachable_patterns)]
            _ => jobj(&[("other", jstr(&format!("{:?}", o)))]),
        }
    }

    fn gargs(&self, args: ty::GenericArgsRef<'tcx>) -> String {
        let mut v = Vec::new();
        for a in args.iter() {
            match a.kind() {
                ty::GenericArgKind::Type(t) => v.push(jstr(&self.ty_str(t))),
                ty::GenericArgKind::Const(c) => {
                    let s = with_no_trimmed_paths!(format!("{}", c));
                    v.push(jstr(&format!("const {}", s)));
                }
                ty::GenericArgKind::Lifetime(_) => {}
            }
        }
        jlist(&v)
    }

    fn resolve(&self, owner: DefId, did: DefId, args: ty::GenericArgsRef<'tcx>) -> Option<String> {
        let tcx = self.tcx;
        // only trait methods need resolving
        if tcx.trait_of_assoc(did).is_none() {
            return None;
        }
        let env = ty::TypingEnv::post_analysis(tcx, owner);
        match ty::Instance::try_resolve(tcx, env, did, args) {
            Ok(Some(inst)) => {
                let rd = inst.def_id();
                if rd != did {
                    Some(self.qname(rd))
                } else {
                    None
                }
            }
            _ => None,
        }
    }

    fn rvalue(&mut self, owner: DefId, body: &mir::Body<'tcx>, rv: &mir::Rvalue<'tcx>) -> String {
        use mir::Rvalue::*;
        match rv {
            Use(o, _) => jobj(&[("rv", jstr("use")), ("a", self.operand(owner, body, o))]),
            Repeat(o, n) => jobj(&[
                ("rv", jstr("repeat")),
                ("a", self.operand(owner, body, o)),
                ("n", jstr(&format!("{}", n))),
            ]),
            Ref(_, bk, p) => jobj(&[
                ("rv", jstr("ref")),
                ("mut", jbool(matches!(bk, mir::BorrowKind::Mut { .. }))),
                ("p", self.place(body, *p)),
            ]),
            ThreadLocalRef(d) => jobj(&[("rv", jstr("tls")), ("d", jstr(&self.qname(*d)))]),
            RawPtr(k, p) => jobj(&[
                ("rv", jstr("rawptr")),
                ("mut", jbool(format!("{:?}", k).contains("Mut"))),
                ("p", self.place(body, *p)),
            ]),
            Cast(kind, o, t) => jobj(&[
                ("rv", jstr("cast")),
                ("kind", jstr(&format!("{:?}", kind))),
                ("a", self.operand(owner, body, o)),
                ("ty", jstr(&self.ty_str(*t))),
            ]),
            BinaryOp(op, ab) => jobj(&[
                ("rv", jstr("bin")),
                ("op", jstr(&format!("{:?}", op))),
                ("a", self.operand(owner, body, &ab.0)),
                ("b", self.operand(owner, body, &ab.1)),
            ]),
            UnaryOp(op, o) => jobj(&[
                ("rv", jstr("un")),
                ("op", jstr(&format!("{:?}", op))),
                ("a", self.operand(owner, body, o)),
            ]),
            Discriminant(p) => {
                let pty = p.ty(&body.local_decls, self.tcx).ty;
                let adt = match pty.kind() {
                    ty::Adt(a, _) => {
                        self.add_adt(a.did());
                        self.qname(a.did())
                    }
                    _ => String::from("?"),
                };
                jobj(&[("rv", jstr("discr")), ("p", self.place(body, *p)), ("adt", jstr(&adt))])
            }
            Aggregate(kind, ops) => {
                let mut items: Vec<(&str, String)> = vec![("rv", jstr("agg"))];
                let mut names: Vec<String> = Vec::new();
                match &**kind {
                    mir::AggregateKind::Array(t) => {
                        items.push(("agg", jstr("array")));
                        items.push(("ty", jstr(&self.ty_str(*t))));
                    }
                    mir::AggregateKind::Tuple => items.push(("agg", jstr("tuple"))),
                    mir::AggregateKind::Adt(did, vi, _args, _, active) => {
                        let adt = self.tcx.adt_def(*did);
                        self.add_adt(*did);
                        items.push(("agg", jstr("adt")));
                        items.push(("adt", jstr(&self.qname(*did))));
                        let v = adt.variant(*vi);
                        items.push(("variant", jstr(&v.name.to_string())));
                        if let Some(a) = active {
                            names.push(jstr(&v.fields[*a].name.to_string()));
                        } else {
                            for f in v.fields.iter() {
                                names.push(jstr(&f.name.to_string()));
                            }
                        }
                    }
                    mir::AggregateKind::Closure(did, _) => {
                        items.push(("agg", jstr("closure")));
                        items.push(("closure", jstr(&self.qname(*did))));
                        if let Some(l) = did.as_local() {
                            for cap in self.tcx.closure_captures(l) {
                                names.push(jstr(&cap.var_ident.name.to_string()));
                            }
                        }
                    }
                    other => items.push(("agg", jstr(&format!("{:?}", other)))),
                }
                items.push(("names", jlist(&names)));
                let ops: Vec<String> = ops.iter().map(|o| self.operand(owner, body, o)).collect();
                items.push(("ops", jlist(&ops)));
                jobj(&items)
            }
            CopyForDeref(p) => jobj(&[("rv", jstr("use")), ("a", jobj(&[("c", self.place(body, *p))]))]),
            #[allow(unreachable_patterns)]
            other => jobj(&[("rv", jstr("other")), ("s", jstr(&format!("{:?}", other)))]),
        }
    }

    fn body(&mut self, did: LocalDefId, body: &mir::Body<'tcx>) -> String {
        let owner = did.to_def_id();
        // locals
        let mut names: Vec<Option<String>> = vec![None; body.local_decls.len()];
        let mut upvars: Vec<String> = Vec::new();
        for vdi in body.var_debug_info.iter() {
            if let mir::VarDebugInfoContents::Place(p) = vdi.value {
                if p.projection.is_empty() {
                    names[p.local.index()] = Some(vdi.name.to_string());
                } else {
                    let pl = self.place(body, p);
                    upvars.push(jobj(&[("name", jstr(&vdi.name.to_string())), ("p", pl)]));
                }
            }
        }
        let mut locals = Vec::new();
        for (i, d) in body.local_decls.iter_enumerated() {
            let mut it: Vec<(&str, String)> = vec![("ty", jstr(&self.ty_str(d.ty)))];
            if let Some(n) = &names[i.index()] {
                it.push(("n", jstr(n)));
            }
            if d.mutability.is_mut() {
                it.push(("mut", jbool(true)));
            }
            locals.push(jobj(&it));
        }
        // blocks
        let mut blocks = Vec::new();
        for (_bb, data) in body.basic_blocks.iter_enumerated() {
            let mut stmts = Vec::new();
            for st in data.statements.iter() {
                let (_f, line, exp) = self.loc(st.source_info.span);
                match &st.kind {
                    mir::StatementKind::Assign(b) => {
                        let (p, rv) = &**b;
                        let mut it = vec![
                            ("s", jstr("assign")),
                            ("p", self.place(body, *p)),
                            ("r", self.rvalue(owner, body, rv)),
                            ("ln", format!("{}", line)),
                        ];
                        if exp {
                            it.push(("x", "1".into()));
                        }
                        stmts.push(jobj(&it));
                    }
                    mir::StatementKind::SetDiscriminant { place, variant_index } => {
                        let pty = place.ty(&body.local_decls, self.tcx).ty;
                        let vn = match pty.kind() {
                            ty::Adt(a, _) => a.variant(*variant_index).name.to_string(),
                            _ => format!("{}", variant_index.index()),
                        };
                        stmts.push(jobj(&[
                            ("s", jstr("setdiscr")),
                            ("p", self.place(body, **place)),
                            ("variant", jstr(&vn)),
                            ("ln", format!("{}", line)),
                        ]));
                    }
                    mir::StatementKind::Intrinsic(i) => {
                        stmts.push(jobj(&[
                            ("s", jstr("intrinsic")),
                            ("d", jstr(&format!("{:?}", i))),
                            ("ln", format!("{}", line)),
                        ]));
                    }
                    _ => {}
                }
            }
            let term = data.terminator();
            let (_f, line, exp) = self.loc(term.source_info.span);
            let mut t: Vec<(&str, String)> = Vec::new();
            use mir::TerminatorKind::*;
            match &term.kind {
                Goto { target } => {
                    t.push(("t", jstr("goto")));
                    t.push(("target", format!("{}", target.index())));
                }
                SwitchInt { discr, targets } => {
                    t.push(("t", jstr("switch")));
                    t.push(("d", self.operand(owner, body, discr)));
                    let dty = discr.ty(&body.local_decls, self.tcx);
                    t.push(("dty", jstr(&self.ty_str(dty))));
                    let mut arms = Vec::new();
                    for (v, bb) in targets.iter() {
                        arms.push(format!("[{},{}]", v, bb.index()));
                    }
                    t.push(("arms", jlist(&arms)));
                    t.push(("otherwise", format!("{}", targets.otherwise().index())));
                }
                Return => t.push(("t", jstr("return"))),
                Unreachable => t.push(("t", jstr("unreachable"))),
                UnwindResume => t.push(("t", jstr("resume"))),
                UnwindTerminate(_) => t.push(("t", jstr("terminate"))),
                Drop { place, target, unwind, .. } => {
                    t.push(("t", jstr("drop")));
                    t.push(("p", self.place(body, *place)));
                    t.push(("target", format!("{}", target.index())));
                    if let mir::UnwindAction::Cleanup(c) = unwind {
                        t.push(("unwind", format!("{}", c.index())));
                    }
                }
                Call { func, args, destination, target, unwind, .. } => {
                    t.push(("t", jstr("call")));
                    match func {
                        mir::Operand::Constant(c) => {
                            if let ty::FnDef(fd, ga) = c.const_.ty().kind() {
                                t.push(("callee", jstr(&self.qname(*fd))));
                                t.push(("cfull", jstr(&self.qname_args(*fd, ga))));
                                t.push(("cargs", self.gargs(ga)));
                                if let Some(r) = self.resolve(owner, *fd, ga) {
                                    t.push(("res", jstr(&r)));
                                }
                                if let Some(tr) = self.tcx.trait_of_assoc(*fd) {
                                    t.push(("trait", jstr(&self.qname(tr))));
                                }
                                if self.tcx.fn_sig(*fd).skip_binder().safety().is_unsafe() {
                                    t.push(("unsafe", jbool(true)));
                                }
                            } else {
                                t.push(("fnop", self.operand(owner, body, func)));
                            }
                        }
                        _ => t.push(("fnop", self.operand(owner, body, func))),
                    }
                    let a: Vec<String> =
                        args.iter().map(|a| self.operand(owner, body, &a.node)).collect();
                    t.push(("args", jlist(&a)));
                    t.push(("dest", self.place(body, *destination)));
                    if let Some(tg) = target {
                        t.push(("target", format!("{}", tg.index())));
                    }
                    if let mir::UnwindAction::Cleanup(c) = unwind {
                        t.push(("unwind", format!("{}", c.index())));
                    }
                }
                TailCall { func, args, .. } => {
                    t.push(("t", jstr("tailcall")));
                    t.push(("fnop", self.operand(owner, body, func)));
                    let a: Vec<String> =
                        args.iter().map(|a| self.operand(owner, body, &a.node)).collect();
                    t.push(("args", jlist(&a)));
                }
                Assert { cond, expected, msg, target, unwind } => {
                    t.push(("t", jstr("assert")));
                    t.push(("cond", self.operand(owner, body, cond)));
                    t.push(("expected", jbool(*expected)));
                    let kind = match &**msg {
                        mir::AssertKind::BoundsCheck { .. } => "BoundsCheck".to_string(),
                        mir::AssertKind::Overflow(op, ..) => format!("Overflow({:?})", op),
                        mir::AssertKind::OverflowNeg(_) => "OverflowNeg".to_string(),
                        mir::AssertKind::DivisionByZero(_) => "DivisionByZero".to_string(),
                        mir::AssertKind::RemainderByZero(_) => "RemainderByZero".to_string(),
                        mir::AssertKind::MisalignedPointerDereference { .. } => "Misaligned".to_string(),
                        mir::AssertKind::NullPointerDereference => "NullPtr".to_string(),
                        _ => "Other".to_string(),
                    };
                    t.push(("msg", jstr(&kind)));
                    if let mir::AssertKind::BoundsCheck { len, index } = &**msg {
                        t.push(("len", self.operand(owner, body, len)));
                        t.push(("index", self.operand(owner, body, index)));
                    }
                    t.push(("target", format!("{}", target.index())));
                    if let mir::UnwindAction::Cleanup(c) = unwind {
                        t.push(("unwind", format!("{}", c.index())));
                    }
                }
                other => {
                    t.push(("t", jstr("other")));
                    t.push(("s", jstr(&format!("{:?}", other))));
                    let succ: Vec<String> =
                        term.successors().map(|b| format!("{}", b.index())).collect();
                    t.push(("succ", jlist(&succ)));
                }
            }
            t.push(("ln", format!("{}", line)));
            if exp {
                t.push(("x", "1".into()));
            }
            let mut b: Vec<(&str, String)> = vec![("st", jlist(&stmts)), ("term", jobj(&t))];
            if data.is_cleanup {
                b.push(("cleanup", jbool(true)));
            }
            blocks.push(jobj(&b));
        }
        jobj(&[
            ("argc", format!("{}", body.arg_count)),
            ("locals", jlist(&locals)),
            ("upvars", jlist(&upvars)),
            ("blocks", jlist(&blocks)),
        ])
    }

    // ---------------------------------------------------------------- constants

    fn const_json(&mut self, val: ConstValue, ty: Ty<'tcx>, budget: &mut i64) -> String {
        let tcx = self.tcx;
        *budget -= 1;
        if *budget < 0 {
            return jobj(&[("opaque", jstr("budget"))]);
        }
        match val {
            ConstValue::Scalar(mir::interpret::Scalar::Int(si)) => {
                let size = si.size();
                if ty.is_bool() {
                    return jbool(si.to_uint(size) != 0);
                }
                if ty.is_signed() {
                    return format!("{}", si.to_int(size));
                }
                if ty.is_integral() || ty.is_char() {
                    return format!("{}", si.to_uint(size));
                }
                if let ty::Adt(adt, _) = ty.kind() {
                    if adt.is_enum() {
                        // fieldless enum held as a scalar: name the variant
                        if let Some(d) = tcx.try_destructure_mir_constant_for_user_output(val, ty) {
                            if let Some(v) = d.variant {
                                self.add_adt(adt.did());
                                if d.fields.is_empty() {
                                    return jobj(&[("variant", jstr(&adt.variant(v).name.to_string()))]);
                                }
                            }
                        }
                    }
                }
                // newtype around a scalar etc.: fall through to destructuring
            }
            ConstValue::Scalar(mir::interpret::Scalar::Ptr(..)) => {
                return jobj(&[("opaque", jstr("ptr"))]);
            }
            ConstValue::ZeroSized => {
                if let ty::FnDef(d, _) = ty.kind() {
                    return jobj(&[("fn", jstr(&self.qname(*d)))]);
                }
                return jobj(&[("zst", jstr(&self.ty_str(ty)))]);
            }
            ConstValue::Slice { .. } => {
                if let Some(bytes) = val.try_get_slice_bytes_for_diagnostics(tcx) {
                    if ty.builtin_deref(true).map(|t| t.is_str()).unwrap_or(false) {
                        return jobj(&[("str", jstr(&String::from_utf8_lossy(bytes)))]);
                    }
                    let v: Vec<String> = bytes.iter().map(|b| format!("{}", b)).collect();
                    return jobj(&[("bytes", jlist(&v))]);
                }
                return jobj(&[("opaque", jstr("slice"))]);
            }
            _ => {}
        }
        match ty.kind() {
            ty::Adt(..) | ty::Tuple(..) | ty::Array(..) => {}
            ty::Ref(..) | ty::RawPtr(..) | ty::FnPtr(..) => return jobj(&[("opaque", jstr("ptr"))]),
            _ => return jobj(&[("opaque", jstr(&self.ty_str(ty)))]),
        }
        let d = match tcx.try_destructure_mir_constant_for_user_output(val, ty) {
            Some(d) => d,
            None => return jobj(&[("opaque", jstr("destructure"))]),
        };
        let mut fields = Vec::new();
        let mut names: Vec<String> = Vec::new();
        let mut items: Vec<(&str, String)> = Vec::new();
        if let ty::Adt(adt, _) = ty.kind() {
            self.add_adt(adt.did());
            items.push(("adt", jstr(&self.qname(adt.did()))));
            let vi = d.variant.unwrap_or(rustc_abi::FIRST_VARIANT);
            let v = adt.variant(vi);
            if adt.is_enum() {
                items.push(("variant", jstr(&v.name.to_string())));
            }
            for f in v.fields.iter() {
                names.push(jstr(&f.name.to_string()));
            }
        }
        for (fv, fty) in d.fields.iter() {
            fields.push(self.const_json(*fv, *fty, budget));
        }
        if !names.is_empty() {
            items.push(("names", jlist(&names)));
        }
        items.push(("fields", jlist(&fields)));
        jobj(&items)
    }
}

fn dump(tcx: TyCtxt<'_>, out_dir: &str, kind_tag: &str) {
    let krate = tcx.crate_name(LOCAL_CRATE).to_string();
    let mut cx = Cx { tcx, krate: krate.clone(), adts: Vec::new(), adts_seen: HashSet::new() };
    let mut out = String::new();
    let mut nfn = 0usize;

    // ---- functions, closures, inline consts, const items
    for did in tcx.hir_body_owners() {
        let kind = tcx.def_kind(did);
        let (is_fn, body): (bool, Option<&mir::Body<'_>>) = match kind {
            DefKind::Fn | DefKind::AssocFn | DefKind::Closure => (true, Some(tcx.optimized_mir(did))),
            DefKind::InlineConst => (false, Some(tcx.mir_for_ctfe(did))),
            DefKind::Const { .. } | DefKind::AssocConst { .. } | DefKind::Static { .. } => (false, None),
            _ => continue,
        };
        let q = cx.qname(did.to_def_id());
        let sp = tcx.def_span(did);
        let (file, line, exp) = cx.loc(sp);
        if let Some(body) = body {
            let mut it: Vec<(&str, String)> = vec![
                ("k", jstr("fn")),
                ("q", jstr(&q)),
                ("kind", jstr(&format!("{:?}", kind))),
                ("file", jstr(&file)),
                ("line", format!("{}", line)),
                ("exp", jbool(exp)),
            ];
            if is_fn && matches!(kind, DefKind::Fn | DefKind::AssocFn) {
                let sig = tcx.fn_sig(did).skip_binder();
                it.push(("unsafe", jbool(sig.safety().is_unsafe())));
                it.push(("vis", jstr(&format!("{:?}", tcx.visibility(did)))));
                it.push(("name", jstr(&tcx.item_name(did.to_def_id()).to_string())));
                if let Some(imp) = tcx.impl_of_assoc(did.to_def_id()) {
                    it.push(("impl_self", jstr(&cx.ty_str(tcx.type_of(imp).skip_binder()))));
                    if let Some(tr) = tcx.impl_opt_trait_ref(imp) {
                        it.push(("impl_trait", jstr(&cx.qname(tr.skip_binder().def_id))));
                    }
                }
                if let Some(tr) = tcx.trait_of_assoc(did.to_def_id()) {
                    it.push(("trait_default_of", jstr(&cx.qname(tr))));
                }
            }
            if matches!(kind, DefKind::Closure | DefKind::InlineConst) {
                let parent = tcx.typeck_root_def_id(did.to_def_id());
                it.push(("parent", jstr(&cx.qname(parent))));
            }
            let gens = tcx.generics_of(did);
            let mut gnames = Vec::new();
            let mut g = Some(gens);
            let mut all: Vec<&ty::Generics> = Vec::new();
            while let Some(gg) = g {
                all.push(gg);
                g = gg.parent.map(|p| tcx.generics_of(p));
            }
            for gg in all.iter().rev() {
                for p in gg.own_params.iter() {
                    if !matches!(p.kind, ty::GenericParamDefKind::Lifetime) {
                        gnames.push(jstr(&p.name.to_string()));
                    }
                }
            }
            it.push(("generics", jlist(&gnames)));
            it.push(("mir", cx.body(did, body)));
            if is_fn {
                let proms = tcx.promoted_mir(did);
                if !proms.is_empty() {
                    let pv: Vec<String> = proms.iter().map(|pb| cx.body(did, pb)).collect();
                    it.push(("promoted", jlist(&pv)));
                }
            }
            out.push_str(&jobj(&it));
            out.push('\n');
            nfn += 1;
        } else {
            // const / static item
            if matches!(kind, DefKind::Const { .. } | DefKind::AssocConst { .. }) {
                // the initializer's MIR, so that rules can read table-building const blocks
                let cb = tcx.mir_for_ctfe(did);
                if cb.basic_blocks.len() > 1 {
                    let parent = tcx.parent(did.to_def_id());
                    let cit: Vec<(&str, String)> = vec![
                        ("k", jstr("fn")),
                        ("q", jstr(&q)),
                        ("kind", jstr("ConstBody")),
                        ("file", jstr(&file)),
                        ("line", format!("{}", line)),
                        ("exp", jbool(exp)),
                        ("parent", jstr(&cx.qname(parent))),
                        ("generics", jlist(&[])),
                        ("mir", cx.body(did, cb)),
                    ];
                    out.push_str(&jobj(&cit));
                    out.push('\n');
                }
            }
            let ty = tcx.type_of(did).skip_binder();
            let mut it: Vec<(&str, String)> = vec![
                ("k", jstr("const")),
                ("q", jstr(&q)),
                ("kind", jstr(&format!("{:?}", kind))),
                ("ty", jstr(&cx.ty_str(ty))),
                ("file", jstr(&file)),
                ("line", format!("{}", line)),
            ];
            let generic = tcx.generics_of(did).requires_monomorphization(tcx);
            if !generic {
                let val = if matches!(kind, DefKind::Static { .. }) {
                    // the evaluated initializer of a (non-mutable, pointer-free) static, read like
                    // a constant of the same type: lookup tables are often statics
                    tcx.eval_static_initializer(did.to_def_id()).ok().and_then(|a| {
                        if a.inner().provenance().ptrs().is_empty() {
                            let id = tcx.reserve_and_set_memory_alloc(a);
                            Some(ConstValue::Indirect { alloc_id: id, offset: rustc_abi::Size::ZERO })
                        } else {
                            None
                        }
                    })
                } else {
                    tcx.const_eval_poly(did.to_def_id()).ok()
                };
                if let Some(v) = val {
                    let mut budget: i64 = 60000;
                    it.push(("val", cx.const_json(v, ty, &mut budget)));
                }
            } else {
                it.push(("generic", jbool(true)));
            }
            out.push_str(&jobj(&it));
            out.push('\n');
        }
    }

    // ---- impls and traits
    for id in tcx.hir_free_items() {
        let item = tcx.hir_item(id);
        let did = item.owner_id.to_def_id();
        match item.kind {
            rustc_hir::ItemKind::Impl(..) => {
                let self_ty = tcx.type_of(did).skip_binder();
                let mut it: Vec<(&str, String)> = vec![
                    ("k", jstr("impl")),
                    ("q", jstr(&cx.qname(did))),
                    ("self", jstr(&cx.ty_str(self_ty))),
                ];
                let (file, line, exp) = cx.loc(tcx.def_span(did));
                it.push(("file", jstr(&file)));
                it.push(("line", format!("{}", line)));
                it.push(("exp", jbool(exp)));
                if let ty::Adt(a, _) = self_ty.kind() {
                    it.push(("self_adt", jstr(&cx.qname(a.did()))));
                }
                let mut provided = Vec::new();
                let mut provided_set = BTreeSet::new();
                for a in tcx.associated_items(did).in_definition_order() {
                    if let Some(n) = a.opt_name() {
                        provided.push(jstr(&n.to_string()));
                        provided_set.insert(n.to_string());
                    }
                }
                it.push(("provided", jlist(&provided)));
                if let Some(tr) = tcx.impl_opt_trait_ref(did) {
                    let tr = tr.skip_binder();
                    it.push(("trait", jstr(&cx.qname(tr.def_id))));
                    it.push(("trait_ref", jstr(&with_no_trimmed_paths!(format!("{}", tr)))));
                    let mut inherited = Vec::new();
                    for a in tcx.associated_items(tr.def_id).in_definition_order() {
                        if let Some(n) = a.opt_name() {
                            if !provided_set.contains(&n.to_string()) {
                                inherited.push(jstr(&n.to_string()));
                            }
                        }
                    }
                    it.push(("inherited", jlist(&inherited)));
                }
                // where clauses / bounds of the impl as strings
                let preds = tcx.predicates_of(did);
                let mut ps = Vec::new();
                for (p, _) in preds.predicates.iter() {
                    ps.push(jstr(&with_no_trimmed_paths!(format!("{}", p))));
                }
                it.push(("preds", jlist(&ps)));
                out.push_str(&jobj(&it));
                out.push('\n');
            }
            rustc_hir::ItemKind::Trait { .. } => {
                let mut items = Vec::new();
                for a in tcx.associated_items(did).in_definition_order() {
                    if let Some(n) = a.opt_name() {
                        items.push(jobj(&[
                            ("name", jstr(&n.to_string())),
                            ("default", jbool(a.defaultness(tcx).has_value())),
                            ("kind", jstr(&format!("{:?}", a.kind).split(['{', ' ', '(']).next().unwrap_or("").to_string())),
                        ]));
                    }
                }
                out.push_str(&jobj(&[
                    ("k", jstr("trait")),
                    ("q", jstr(&cx.qname(did))),
                    ("items", jlist(&items)),
                ]));
                out.push('\n');
            }
            rustc_hir::ItemKind::Struct(..) | rustc_hir::ItemKind::Enum(..) | rustc_hir::ItemKind::Union(..) => {
                cx.add_adt(did);
            }
            _ => {}
        }
    }

    // ---- ADTs (local ones, and foreign ones that were switched on / constructed)
    let adts: Vec<DefId> = cx.adts.clone();
    for did in adts {
        let adt = tcx.adt_def(did);
        let mut variants = Vec::new();
        let discrs: Vec<(rustc_abi::VariantIdx, u128)> = if adt.is_enum() {
            adt.discriminants(tcx).map(|(i, d)| (i, d.val)).collect()
        } else {
            Vec::new()
        };
        for (vi, v) in adt.variants().iter_enumerated() {
            let mut fields = Vec::new();
            for f in v.fields.iter() {
                let fty = tcx.type_of(f.did).skip_binder();
                fields.push(jobj(&[
                    ("name", jstr(&f.name.to_string())),
                    ("ty", jstr(&cx.ty_str(fty))),
                    ("vis", jstr(&format!("{:?}", f.vis))),
                ]));
            }
            let mut it: Vec<(&str, String)> =
                vec![("name", jstr(&v.name.to_string())), ("fields", jlist(&fields))];
            if let Some((_, d)) = discrs.iter().find(|(i, _)| *i == vi) {
                it.push(("discr", format!("{}", d)));
            }
            variants.push(jobj(&it));
        }
        let kind = if adt.is_enum() { "enum" } else if adt.is_union() { "union" } else { "struct" };
        out.push_str(&jobj(&[
            ("k", jstr("adt")),
            ("q", jstr(&cx.qname(did))),
            ("kind", jstr(kind)),
            ("local", jbool(did.is_local())),
            ("variants", jlist(&variants)),
        ]));
        out.push('\n');
    }

    let header = jobj(&[
        ("k", jstr("crate")),
        ("name", jstr(&krate)),
        ("tag", jstr(kind_tag)),
        ("fns", format!("{}", nfn)),
    ]);
    let mut all = String::with_capacity(out.len() + header.len() + 1);
    all.push_str(&header);
    all.push('\n');
    all.push_str(&out);
    let path = format!("{}/{}.{}.{}.jsonl", out_dir, krate, kind_tag, std::process::id());
    let tmp = format!("{}.tmp", path);
    std::fs::write(&tmp, all).expect("mirfacts: cannot write facts");
    std::fs::rename(&tmp, &path).expect("mirfacts: cannot rename facts");
}

struct Cb {
    out: Option<String>,
    crates: Vec<String>,
    tag: String,
}

impl Callbacks for Cb {
    fn after_analysis<'tcx>(&mut self, _c: &Compiler, tcx: TyCtxt<'tcx>) -> Compilation {
        if let Some(out) = &self.out {
            let name = tcx.crate_name(LOCAL_CRATE).to_string();
            if self.crates.is_empty() || self.crates.iter().any(|c| *c == name) {
                dump(tcx, out, &self.tag);
            }
        }
        Compilation::Continue
    }
}

fn main() {
    let mut args: Vec<String> = std::env::args().collect();
    // as RUSTC_WORKSPACE_WRAPPER we are invoked as `<driver> <rustc> <args..>`
    if args.len() > 1 && (args[1].ends_with("rustc") || args[1].ends_with("rustc.exe")) {
        args.remove(1);
    }
    let out = std::env::var("MIRFACTS_OUT").ok().filter(|s| !s.is_empty());
    let crates: Vec<String> = std::env::var("MIRFACTS_CRATES")
        .unwrap_or_default()
        .split(',')
        .filter(|s| !s.is_empty())
        .map(|s| s.to_string())
        .collect();
    let is_test = args.iter().any(|a| a == "--test");
    let mut ctype = "lib".to_string();
    let mut i = 0;
    while i < args.len() {
        if args[i] == "--crate-type" && i + 1 < args.len() {
            ctype = args[i + 1].clone();
        }
        i += 1;
    }
    let tag = if is_test { format!("{}-test", ctype) } else { ctype };
    let mut cb = Cb { out, crates, tag };
    rustc_driver::run_compiler(&args, &mut cb);
}
