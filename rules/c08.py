"""C08 — ether is conserved (balance-write discipline; the sum itself is not statically decidable).

R1 inventory: every site that writes an account balance of the journaled state is classified by
   arithmetic form (checked / saturating / wrapping operator / zeroing) and compared with the
   table confirmed by reading; a new writer or a weaker form is reported;
R2 pairs: in transfer, create_account_checkpoint and selfdestruct the debit, the credit and the
   journal entry use the same amount (value origin); a failed transfer leaves no write behind;
R3 guards of the unchecked debit: `caller.balance -= value` in create_account_checkpoint is covered
   by the `caller_balance < value -> OutOfFunds` test in both create constructors;
R4 fee flow: deduction = gas_limit * effective_gas_price (+ blob fee from CANCUN), so that with
   C09's reimbursement and reward formulas the difference is basefee * used + blob fee.
"""
from cfg import cfg_of, Origins, guards_of
import c06
from symx import Symx, Budget

META = {
    'level': 'other',
    'decides': 'the complete list of balance writers and their arithmetic form, that paired debit/credit/journal amounts have one origin, that a failed transfer writes nothing, and the shape of the fee deduction',
    'does_not_decide': 'the sum of balances over executions (a behavioural identity); amounts computed by effective_gas_price / calc_data_fee',
    'explanation': 'Writer inventory over MIR (assignments and compound-assignment calls on `.info.balance`), value-origin agreement between debit, credit and journal entry, guard extraction, expression shape of the deduction.',
}

JS = 'revm::journaled_state::JournaledState::'

# function -> expected multiset of balance write forms (confirmed by reading)
EXPECTED = {
    JS + 'transfer': {'checked': 2},
    JS + 'create_account_checkpoint': {'checked': 1, 'wrapping-sub': 1},
    JS + 'selfdestruct': {'wrapping-add': 1, 'zero': 2},
    JS + 'journal_revert': {'wrapping-add': 2, 'wrapping-sub': 2},
    'revm::handler::mainnet::pre_execution::deduct_caller_inner': {'saturating-sub': 1},
    'revm::handler::mainnet::post_execution::reimburse_caller': {'saturating-add': 1},
    'revm::handler::mainnet::post_execution::reward_beneficiary': {'saturating-add': 1},
    'revm_primitives::env::Env::validate_tx_against_state': {'assign': 1},
}
# forms that can create or destroy ether on overflow; each needs a bound argument or is a finding
RISKY = {
    (JS + 'create_account_checkpoint', 'wrapping-sub'): ('guarded', 'R3: both create constructors reject value > caller balance before the call'),
    (JS + 'journal_revert', 'wrapping-add'): ('exempt', 'undo of an amount that was applied with the opposite operation'),
    (JS + 'journal_revert', 'wrapping-sub'): ('exempt', 'undo of an amount that was applied with the opposite operation'),
    ('revm::handler::mainnet::pre_execution::deduct_caller_inner', 'saturating-sub'): ('guarded', 'validate_tx_against_state rejects balance < max cost (saturation only under cfg.disable_balance_check)'),
    (JS + 'selfdestruct', 'wrapping-add'): ('finding', 'beneficiary credit wraps: with beneficiary balance b and destroyed balance a, a + b >= 2^256 leaves (a+b) mod 2^256'),
    ('revm::handler::mainnet::post_execution::reimburse_caller', 'saturating-add'): ('finding', 'reimbursement saturates: the part above 2^256-1 is destroyed'),
    ('revm::handler::mainnet::post_execution::reward_beneficiary', 'saturating-add'): ('finding', 'beneficiary reward saturates: with coinbase balance near 2^256 the fee is destroyed'),
}


def classify_value(og, op):
    """arithmetic form of a value stored into a balance; ('param', i) if it is parameter i as is"""
    form = 'assign'
    oo = og.of_operand(op)
    for o in oo:
        r = o.root
        if r[0] == 'call':
            nm = r[1].split('::')[-1]
            if nm in ('checked_add', 'checked_sub'):
                form = 'checked'
            elif nm == 'saturating_add':
                form = 'saturating-add'
            elif nm == 'saturating_sub':
                form = 'saturating-sub'
        elif r[0] == 'const' and str(r[2]).endswith('::ZERO'):
            form = 'zero'
    # value chosen between an already checked result and a balance read (self transfer)
    forms = set()
    for o in oo:
        r = o.root
        if r[0] == 'call' and r[1].split('::')[-1] in ('checked_add', 'checked_sub'):
            forms.add('checked')
    if forms == {'checked'}:
        form = 'checked'
    if form == 'assign' and oo and all(o.root[0] == 'param' and not o.path for o in oo) and len({o.root[1] for o in oo}) == 1:
        return ('param', oo[0].root[1])
    return form


def balance_write_forms(fx, f):
    """list of (form, block) for every write to `.info.balance` in f"""
    og = Origins(f, fx)
    out = []
    for b in f.blocks:
        if b.cleanup:
            continue
        for s in b.stmts:
            if s.kind != 'assign' or s.place.b == 0:
                continue
            oo = og.of_place(s.place)
            if not any(o.path[-2:] == ('.info', '.balance') for o in oo):
                continue
            if not ('*' in s.place.pr or (s.place.pr and s.place.pr[-1] == '.balance')):
                continue
            # a store into a balance: classify the stored value
            form = 'assign'
            if s.rv.rv == 'use':
                form = classify_value(og, s.rv.ops[0])
            out.append((form, b.i))
        t = b.term
        if t.kind == 'call' and (t.callee or '').endswith(('AddAssign::add_assign', 'SubAssign::sub_assign')) and t.args:
            oo = og.of_operand(t.args[0])
            if any(o.path[-2:] == ('.info', '.balance') for o in oo):
                out.append(('wrapping-add' if 'add_assign' in t.callee else 'wrapping-sub', b.i))
    return out


def run(ctx, rep):
    fx = ctx.facts('default')
    seen = {}
    for f in fx.fns_all:
        if not f.crate or f.crate.endswith('-test') or f.kind not in ('Fn', 'AssocFn', 'Closure'):
            continue
        nq = f.nq
        if nq.startswith(('revm::db::', '<revm::db::', 'revm_primitives::state::')) or '/db/' in f.file or '::test' in nq or 'optimism' in nq:
            continue
        if not f.crate.startswith(('revm:', 'revm_primitives:')):
            continue
        raw_hit = False
        for b in f._blocks_raw:
            for s in b['st']:
                if s.get('s') == 'assign':
                    pr = s['p']['pr']
                    if pr and (pr[-1] == '.balance' or pr == ['*']):
                        raw_hit = True
            t = b['term']
            if t.get('t') == 'call' and (t.get('callee') or '').endswith(('add_assign', 'sub_assign')):
                raw_hit = True
        if not raw_hit:
            continue
        forms = balance_write_forms(fx, f)
        if forms:
            seen[f.parent or nq] = (f, forms)
    # a write moved into a new private helper is a write of the helper's callers: the value's form is
    # taken from the argument at each call site
    from symx import KNOWN_PRIVATE
    for nq in sorted(seen):
        g, forms = seen[nq]
        if nq in EXPECTED or nq in KNOWN_PRIVATE or not str(g.d.get('vis', '')).startswith('Restricted'):
            continue
        callers = [(cf, bi, t) for cf in fx.fns_all if cf.nq != nq for bi, t in cf.calls() if (t.target_fn or '') == nq]
        if not callers:
            continue
        moved = True
        extra = {}
        for form, _bi in forms:
            for cf, bi, t in callers:
                cform = form
                if isinstance(form, tuple):
                    i = form[1] - 1
                    cform = classify_value(Origins(cf, fx), t.args[i]) if i < len(t.args) else 'assign'
                    if isinstance(cform, tuple):
                        cform = 'assign'
                extra.setdefault(cf.parent or cf.nq, []).append((cform, bi, cf))
        if moved:
            del seen[nq]
            for cnq, items in extra.items():
                cf = items[0][2]
                base = seen.get(cnq, (cf, []))
                seen[cnq] = (base[0], list(base[1]) + [(fm, bi) for fm, bi, _c in items])
    for nq in list(seen):
        f_, forms_ = seen[nq]
        seen[nq] = (f_, [(('assign' if isinstance(fm, tuple) else fm), bi) for fm, bi in forms_])
    n_sites = 0
    for nq, (f, forms) in sorted(seen.items()):
        rep.fn(f)
        got = {}
        for form, bi in forms:
            got[form] = got.get(form, 0) + 1
            n_sites += 1
        short = nq.split('::')[-1]
        if nq not in EXPECTED:
            rep.violation('R1-balance-writers', short + ':new-writer', '%s writes account balances (%s) and is not in the confirmed writer table' % (nq, got), f.where(forms[0][1]))
            continue
        exp = EXPECTED[nq]
        if got == exp:
            rep.ok('R1-balance-writers', short, got)
        else:
            rep.violation('R1-balance-writers', short + ':forms', '%s writes balances as %s, the confirmed table says %s (a checked operation replaced by a weaker one, or a new write)' % (short, got, exp), f.where(forms[0][1]))
        for form in got:
            if (nq, form) in RISKY:
                kind, why = RISKY[(nq, form)]
                key = '%s:%s' % (short, form)
                if kind == 'finding':
                    rep.violation('R1-overflowing-balance', key, '%s: %s' % (short, why), f.where())
                else:
                    rep.ok('R1-overflowing-balance', key, '%s: %s' % (kind, why), nontrivial=False)
    for nq in EXPECTED:
        if nq not in seen:
            rep.violation('R1-balance-writers', nq.split('::')[-1] + ':missing', 'expected balance writer %s was not found (renamed or restructured: the table must be re-confirmed)' % nq)
    rep.floor('balance-write-sites', n_sites, 15)
    check_pairs(fx, rep)
    check_failed_transfer(fx, rep)
    check_alias_safety(fx, rep)
    check_create_guard(fx, rep)
    check_deduction(fx, rep)
    # what is handed back and paid out at the end of a transaction must add up to what was deducted:
    # C09's order rule (reimbursement after the calldata floor) and payment amounts
    import engine
    import c09
    sub = engine.SubReport(rep, 'C09')
    c09.check_floor(fx, sub)
    c09.check_payments(fx, sub)
    rep.assume('database-layer balance changes (State::increment_balances / drain_balances, CacheDB) are outside a transaction and outside this property')


def check_pairs(fx, rep):
    # transfer: both checked operations and the entry use parameter `balance` (4)
    f = fx.fns.get(JS + 'transfer')
    if f is not None:
        rep.fn(f)
        og = Origins(f, fx)
        amounts = []
        for bi, t in f.calls():
            if (t.callee or '').split('::')[-1] in ('checked_sub', 'checked_add') and len(t.args) == 2:
                amounts.append(('op', og.of_operand(t.args[1])))
        for b in f.blocks:
            for s in b.stmts:
                if s.kind == 'assign' and s.rv.rv == 'agg' and s.rv.d.get('variant') == 'BalanceTransfer':
                    names = s.rv.d['names']
                    amounts.append(('entry', og.of_operand(s.rv.ops[names.index('balance')])))
        good = len(amounts) >= 3 and all(all(o.root == ('param', 4) and not o.path for o in oo) for _, oo in amounts)
        if good:
            rep.ok('R2-same-amount', 'transfer', 'debit, credit and journal entry use the parameter `balance`')
        else:
            rep.violation('R2-same-amount', 'transfer', 'debit, credit and journal entry of transfer do not all use the same amount: %s' % [(k, [o.render() for o in oo]) for k, oo in amounts], f.where())
    # create_account_checkpoint: parameter 5 (balance)
    f = fx.fns.get(JS + 'create_account_checkpoint')
    if f is not None:
        rep.fn(f)
        og = Origins(f, fx)
        amounts = []
        for bi, t in f.calls():
            nm = (t.callee or '').split('::')[-1]
            if nm in ('checked_add', 'sub_assign') and len(t.args) == 2:
                amounts.append(og.of_operand(t.args[1]))
        for b in f.blocks:
            for s in b.stmts:
                if s.kind == 'assign' and s.rv.rv == 'agg' and s.rv.d.get('variant') == 'BalanceTransfer':
                    names = s.rv.d['names']
                    amounts.append(og.of_operand(s.rv.ops[names.index('balance')]))
        good = len(amounts) >= 3 and all(all(o.root == ('param', 5) and not o.path for o in oo) for oo in amounts)
        if good:
            rep.ok('R2-same-amount', 'create_account_checkpoint', 'credit, debit and journal entry use the parameter `balance`')
        else:
            rep.violation('R2-same-amount', 'create_account_checkpoint', 'credit, debit and entry do not use one amount: %s' % [[o.render() for o in oo] for oo in amounts], f.where())
    # selfdestruct: the credited amount and the entry's amount are the destroyed account's balance
    f = fx.fns.get(JS + 'selfdestruct')
    if f is not None:
        rep.fn(f)
        og = Origins(f, fx)
        good = True
        amounts = []
        for bi, t in f.calls():
            if (t.callee or '').endswith('AddAssign::add_assign'):
                amounts.append(og.of_operand(t.args[1]))
        for b in f.blocks:
            for s in b.stmts:
                if s.kind == 'assign' and s.rv.rv == 'agg' and s.rv.d.get('variant') in ('BalanceTransfer', 'AccountDestroyed'):
                    names = s.rv.d['names']
                    fld = 'balance' if s.rv.d['variant'] == 'BalanceTransfer' else 'had_balance'
                    amounts.append(og.of_operand(s.rv.ops[names.index(fld)]))
        for oo in amounts:
            for o in oo:
                if o.path[-2:] != ('.info', '.balance'):
                    good = False
        if good and len(amounts) >= 3:
            rep.ok('R2-same-amount', 'selfdestruct', 'credit and both journal entries carry the destroyed account\'s balance')
        else:
            rep.violation('R2-same-amount', 'selfdestruct', 'amounts differ: %s' % [[o.render() for o in oo] for oo in amounts], f.where())


def check_alias_safety(fx, rep):
    """R5: transfer(from, to) must stay correct when both addresses name one account.  Both balances
    are looked up by parameter and written after both results are known, so the credit has to be
    computed from the debited balance on the `from == to` edge (or the credit must read the balance
    after the debit was stored)."""
    f = fx.fns.get(JS + 'transfer')
    if f is None:
        return
    og = Origins(f, fx)
    cfg = cfg_of(f)
    subs = [(bi, t) for bi, t in f.calls() if (t.callee or '').split('::')[-1] == 'checked_sub']
    adds = [(bi, t) for bi, t in f.calls() if (t.callee or '').split('::')[-1] == 'checked_add']
    if len(subs) != 1 or len(adds) != 1:
        rep.undecided('R5-self-transfer', 'transfer', 'expected one checked_sub and one checked_add', f.where())
        return
    sb, st = subs[0]
    ab, at = adds[0]
    base = og.of_operand(at.args[0])
    # (b) the credited base has two origins: the debit's result (used under from == to) and the recipient's balance
    from_debit = [o for o in base if o.root[0] == 'call' and o.root[2] == sb]
    from_balance = [o for o in base if o.path[-2:] == ('.info', '.balance')]
    eq_guard = False
    for b in f.blocks:
        if b.cleanup or b.term.kind != 'switch':
            continue
        for o in og.of_operand(b.term.switch_discr()):
            if o.root[0] == 'call' and o.root[1].endswith(('PartialEq::eq', 'PartialEq::ne')):
                t = f.blocks[o.root[2]].term
                a = og.of_operand(t.args[0])
                c = og.of_operand(t.args[1])
                ps = {x.root for x in a} | {x.root for x in c}
                if ps == {('param', 2), ('param', 3)}:
                    eq_guard = True
    # (a) sequential read-modify-write: the debit is stored before the recipient's balance is read
    stores = []
    for b in f.blocks:
        if b.cleanup:
            continue
        for s in b.stmts:
            if s.kind == 'assign' and s.rv.rv == 'use' and s.place.b != 0:
                oo = og.of_place(s.place)
                if any(o.path[-2:] == ('.info', '.balance') for o in oo) and ('*' in s.place.pr or s.place.pr[-1:] == ('.balance',)):
                    vo = og.of_operand(s.rv.ops[0])
                    if any(x.root[0] == 'call' and x.root[2] == sb for x in vo):
                        stores.append(b.i)
    sequential = any(cfg.dominates(sbk, ab) for sbk in stores)
    if (from_debit and from_balance and eq_guard) or sequential:
        rep.ok('R5-self-transfer', 'transfer', 'credit is computed from the debited balance when from == to' if not sequential else 'debit stored before the recipient balance is read')
    else:
        rep.violation('R5-self-transfer', 'transfer',
                      'transfer computes the credit from the recipient\'s undebited balance and writes it after the debit: when from == to the credit overwrites the debit and the value is minted', f.where(ab))


def check_failed_transfer(fx, rep):
    f = fx.fns.get(JS + 'transfer')
    if f is None:
        rep.undecided('R2-failed-transfer-leaves-no-write', 'transfer', 'not found')
        return
    try:
        rs = Symx(fx, pure=c06.PURE, max_paths=3000).run(f)
    except Budget:
        rep.undecided('R2-failed-transfer-leaves-no-write', 'transfer', 'budget', f.where())
        return
    bad = False
    n = 0
    for p in rs:
        if c06.is_fatal(p.ret):
            continue
        W, P = c06.path_effects(p)
        tag = c06.exit_tag(p.ret)
        if tag in ('OverflowPayment', 'OutOfFunds'):
            n += 1
            if 'balance' in W:
                bad = True
                rep.violation('R2-failed-transfer-leaves-no-write', 'transfer:exit=%s' % tag, 'transfer returns %s after writing a balance: the amount is destroyed' % tag, f.where())
    if not bad and n >= 2:
        rep.ok('R2-failed-transfer-leaves-no-write', 'transfer', '%d failing exits, no balance write on them' % n)
    elif not bad:
        rep.undecided('R2-failed-transfer-leaves-no-write', 'transfer', 'failing exits not found (%d)' % n, f.where())


def check_create_guard(fx, rep):
    EC = 'revm::context::evm_context::EvmContext::'
    for name in ('make_create_frame', 'make_eofcreate_frame'):
        f = fx.fns.get(EC + name)
        if f is None:
            rep.undecided('R3-create-balance-guard', name, 'not found')
            continue
        rep.fn(f)
        og = Origins(f, fx)
        sites = [bi for bi, t in f.calls() if t.target_fn == JS + 'create_account_checkpoint']
        ok = False
        for bi in sites:
            t = f.blocks[bi].term
            val_o = set(og.of_operand(t.args[4]))
            for g in guards_of(f, og, bi):
                for d in g.discr:
                    r = d.root
                    # `caller_balance.data < inputs.value` is a PartialOrd::lt call on U256
                    if r[0] == 'call' and r[1].endswith(('PartialOrd::lt', 'PartialOrd::gt', 'PartialOrd::ge', 'PartialOrd::le')):
                        tb = f.blocks[r[2]].term
                        a = set(og.of_operand(tb.args[0]))
                        b = set(og.of_operand(tb.args[1]))
                        nm = r[1].split('::')[-1]
                        bal_left = any(x.root[0] == 'call' and x.root[1].endswith('balance') for x in a)
                        bal_right = any(x.root[0] == 'call' and x.root[1].endswith('balance') for x in b)
                        if nm == 'lt' and bal_left and (b & val_o) and g.truth() is False:
                            ok = True
                        if nm == 'gt' and bal_right and (a & val_o) and g.truth() is False:
                            ok = True
                        if nm == 'ge' and bal_left and (b & val_o) and g.truth() is True:
                            ok = True
        if ok:
            rep.ok('R3-create-balance-guard', name, 'caller balance >= value established before create_account_checkpoint')
        else:
            rep.violation('R3-create-balance-guard', name, '%s reaches create_account_checkpoint (unchecked `caller.balance -= value`) without establishing caller balance >= value' % name, f.where())


def check_deduction(fx, rep):
    f = fx.fns.get('revm::handler::mainnet::pre_execution::deduct_caller_inner')
    if f is None:
        rep.undecided('R4-deduction', 'deduct_caller_inner', 'not found')
        return
    rep.fn(f)
    og = Origins(f, fx)
    EGP = 'revm_primitives::env::Env::effective_gas_price'
    mul_ok = False
    fee_ok = False
    for bi, t in f.calls():
        nm = (t.callee or '').split('::')[-1]
        if nm == 'saturating_mul' and len(t.args) == 2:
            a = og.of_operand(t.args[0])
            b = og.of_operand(t.args[1])
            if all(x.path[-2:] == ('.tx', '.gas_limit') for x in a) and all(x.root[0] == 'call' and x.root[1] == EGP for x in b):
                mul_ok = True
        if nm == 'saturating_add' and len(t.args) == 2:
            b = og.of_operand(t.args[1])
            if all(x.root[0] == 'call' and x.root[1].endswith('calc_data_fee') for x in b):
                # under CANCUN
                for g in guards_of(f, og, bi):
                    for d in g.discr:
                        if d.root[0] == 'call' and d.root[1].endswith('Spec::enabled') and g.truth() is True:
                            ta = f.blocks[d.root[2]].term
                            ao = og.of_operand(ta.args[0])
                            if all('CANCUN' in str(z.root[2]) or (z.root[0] == 'agg' and z.root[2] == 'CANCUN') for z in ao):
                                fee_ok = True
    if mul_ok and fee_ok:
        rep.ok('R4-deduction', 'deduct_caller_inner', 'gas_limit * effective_gas_price (+ calc_data_fee from CANCUN)')
    else:
        rep.violation('R4-deduction', 'deduct_caller_inner', 'deduction is not gas_limit * effective_gas_price (+ blob fee under CANCUN): product ok=%s, blob fee ok=%s' % (mul_ok, fee_ok), f.where())
