"""Evaluation of extracted decision tables over a finite abstract domain, and polynomial
normalisation of extracted arithmetic expressions (A3 second half, A9).

A `Valuation` assigns values to the *named inputs* of a table: predicate calls (by callee name),
parameters and parameter fields.  `select(paths, val)` returns the paths whose literals are all
satisfied; a well-formed table has exactly one.  `value(sv, val)` folds a leaf expression.
"""
from symx import render


class Unknown(Exception):
    def __init__(self, sv):
        Exception.__init__(self, 'no value for %s' % render(sv))
        self.sv = sv


class Valuation:
    def __init__(self, preds=None, syms=None, calls=None):
        self.preds = preds or {}     # last path segment of a pure callee -> value (int/bool) or callable(args)->value
        self.syms = syms or {}       # rendered symbol / projection -> value
        self.calls = calls or {}     # full callee name -> callable(evaluated args) -> value

    def of(self, sv):
        k = sv[0]
        if k == 'k':
            return sv[1]
        if k in ('sym', 'proj'):
            r = render(sv)
            if r in self.syms:
                return int(self.syms[r])
            raise Unknown(sv)
        if k == 'un':
            a = self.of(sv[2])
            if sv[1] == 'Not':
                return 0 if a else 1
            if sv[1] == 'Neg':
                return -a
            raise Unknown(sv)
        if k == 'cast':
            return self.of(sv[2])
        if k == 'bin':
            op = sv[1]
            a = self.of(sv[2])
            b = self.of(sv[3])
            return _binop(op, a, b, sv)
        if k == 'call':
            name = sv[1]
            short = name.split('::')[-1]
            if name in self.calls:
                return self.calls[name](*[self.of(a) for a in sv[2]])
            if short in self.preds:
                p = self.preds[short]
                if callable(p):
                    return int(p(sv[2]))
                return int(p)
            if short in ARITH:
                return ARITH[short](*[self.of(a) for a in sv[2]])
            raise Unknown(sv)
        if k == 'discr':
            r = 'discr(%s)' % render(sv[1])
            if r in self.syms:
                return int(self.syms[r])
            raise Unknown(sv)
        raise Unknown(sv)


def _binop(op, a, b, sv=None):
    if op in ('Add', 'AddUnchecked'):
        return a + b
    if op in ('Sub', 'SubUnchecked'):
        return a - b
    if op in ('Mul', 'MulUnchecked'):
        return a * b
    if op == 'Div':
        return a // b
    if op == 'Rem':
        return a % b
    if op == 'Eq':
        return int(a == b)
    if op == 'Ne':
        return int(a != b)
    if op == 'Lt':
        return int(a < b)
    if op == 'Le':
        return int(a <= b)
    if op == 'Gt':
        return int(a > b)
    if op == 'Ge':
        return int(a >= b)
    if op == 'BitAnd':
        return a & b
    if op == 'BitOr':
        return a | b
    raise Unknown(sv)


ARITH = {
    'saturating_add': lambda a, b: a + b, 'saturating_mul': lambda a, b: a * b, 'saturating_sub': lambda a, b: max(a - b, 0),
    'wrapping_add': lambda a, b: a + b, 'min': min, 'max': max,
}


def select(paths, val):
    """paths consistent with the valuation"""
    out = []
    for p in paths:
        good = True
        for (sv, lit, _f, _b) in p.lits:
            v = val.of(sv)
            if lit[0] == 'eq':
                if v != lit[1]:
                    good = False
                    break
            else:
                if v in lit[1]:
                    good = False
                    break
        if good:
            out.append(p)
    return out


def option_value(sv, val):
    """leaf of type Option<int>: returns ('some', n) / ('none',) / raises Unknown"""
    if sv[0] == 'agg' and sv[2] == 'None':
        return ('none',)
    if sv[0] == 'agg' and sv[2] == 'Some':
        return ('some', val.of(sv[4][0]))
    raise Unknown(sv)


# ------------------------------------------------------------------------------- polynomials

class Poly:
    """sparse polynomial over named atoms with integer coefficients; atoms may be ('div', Poly, c)"""

    def __init__(self, terms=None):
        self.t = {k: v for k, v in (terms or {}).items() if v != 0}

    @staticmethod
    def const(c):
        return Poly({(): c})

    @staticmethod
    def atom(name):
        return Poly({(name,): 1})

    def __add__(self, o):
        r = dict(self.t)
        for k, v in o.t.items():
            r[k] = r.get(k, 0) + v
        return Poly(r)

    def __mul__(self, o):
        r = {}
        for k1, v1 in self.t.items():
            for k2, v2 in o.t.items():
                k = tuple(sorted(k1 + k2, key=str))
                r[k] = r.get(k, 0) + v1 * v2
        return Poly(r)

    def scale(self, c):
        return Poly({k: v * c for k, v in self.t.items()})

    def key(self):
        return tuple(sorted(((tuple(str(a) for a in k), v) for k, v in self.t.items())))

    def __eq__(self, o):
        return isinstance(o, Poly) and self.key() == o.key()

    def __hash__(self):
        return hash(self.key())

    def __repr__(self):
        if not self.t:
            return '0'
        parts = []
        for k, v in sorted(self.t.items(), key=lambda kv: (len(kv[0]), str(kv[0]))):
            m = '*'.join(str(a) for a in k)
            parts.append(('%d*%s' % (v, m)) if m and v != 1 else (m or str(v)))
        return ' + '.join(parts)


CHECKED = ('checked_add', 'checked_mul', 'saturating_add', 'saturating_mul', 'wrapping_add', 'wrapping_mul')


def to_poly(sv, atoms):
    """symbolic value -> Poly.  `atoms(sv)` names opaque leaves (returns str or None).
    checked_*/saturating_* are read as exact +/* (their failure/saturation is the overflow clause,
    handled separately); `(checked_x(..) as Some).0` unwraps."""
    a = atoms(sv)
    if a is not None:
        return Poly.atom(a)
    k = sv[0]
    if k == 'k':
        return Poly.const(sv[1])
    if k == 'cast':
        return to_poly(sv[2], atoms)
    if k == 'bin':
        op = sv[1]
        if op in ('Add', 'AddUnchecked'):
            return to_poly(sv[2], atoms) + to_poly(sv[3], atoms)
        if op in ('Mul', 'MulUnchecked'):
            return to_poly(sv[2], atoms) * to_poly(sv[3], atoms)
        if op in ('Sub', 'SubUnchecked'):
            return to_poly(sv[2], atoms) + to_poly(sv[3], atoms).scale(-1)
        if op == 'Div' and sv[3][0] == 'k':
            inner = to_poly(sv[2], atoms)
            return Poly.atom('(%r)/%d' % (inner, sv[3][1]))
        raise Unknown(sv)
    if k == 'proj' and sv[1][0] == 'call' and sv[2] in (('@Some', '.0'), ('.0',)):
        return to_poly(sv[1], atoms)
    if k == 'call':
        short = sv[1].split('::')[-1]
        if short in CHECKED and len(sv[2]) == 2:
            x, y = to_poly(sv[2][0], atoms), to_poly(sv[2][1], atoms)
            return x + y if 'add' in short else x * y
        raise Unknown(sv)
    if k == 'agg' and sv[2] == 'Some' and len(sv[4]) == 1:
        return to_poly(sv[4][0], atoms)
    raise Unknown(sv)
