"""C16 — bundle changesets turn the pre-state into the post-state (decidable skeleton).

Equality of states over histories is not decided.  Decided on the code:
R1 BundleState::to_plain_state as decision tables: an account entry is emitted iff values are not
   known or the info changed; a slot is emitted iff not known, or (storage wiped and present != 0),
   or (not wiped and present != original) - exactly the slots whose post value differs from what the
   plain database holds after the wipe; a storage entry is emitted iff it has slots or the storage
   was wiped, its wipe flag is was_destroyed, and the value written is the slot's present value;
R2 TransitionAccount::update for each incoming status: info and status are the later ones; a
   later Destroyed / DestroyedAgain replaces the accumulated storage and sets
   storage_was_destroyed; otherwise slots are merged keeping the first original value, and a slot
   returning to its original value is dropped;
R3 apply_transitions_and_create_reverts: exactly one revert group is pushed per call on every path
   (group index = merge index), occupied entries go through update_and_create_revert, a vacant
   entry is inserted iff the transition produces a revert, reverts are kept iff retention says so.
"""
import itertools

from c15 import AS, ST, D, DA
from symx import Symx, Budget, K, render, lit_truth

META = {
    'level': 'other',
    'decides': 'which accounts, slots and wipe flags to_plain_state emits (as complete decision tables), how TransitionAccount::update composes two transitions per incoming status, and the per-call structure of apply_transitions_and_create_reverts',
    'does_not_decide': 'that applying the changeset to an arbitrary pre-state yields the post-state over whole histories (needs the values stored across merges)',
    'explanation': 'Path enumeration of the loop bodies (one iteration per cut path) with the predicate calls kept symbolic; truth-table comparison with the changeset rule.',
}

BS = 'revm::db::states::bundle_state::BundleState::'
TA = 'revm::db::states::transition_account::TransitionAccount::'
PURE = {'revm::db::states::bundle_state::OriginalValuesKnown::is_not_known',
        'revm::db::states::bundle_account::BundleAccount::was_destroyed',
        'revm::db::states::bundle_account::BundleAccount::is_info_changed',
        'revm::db::states::plain_account::StorageSlot::is_changed',
        'ruint::cmp::<impl ruint::Uint>::is_zero', 'alloc::vec::Vec::is_empty'}
ATOMS = {'is_not_known': 'NK', 'is_info_changed': 'IC', 'was_destroyed': 'WD', 'is_changed': 'CH', 'is_zero': 'Z', 'is_empty': 'EMP'}


def run(ctx, rep):
    fx = ctx.facts('default')
    check_plain_state(fx, rep)
    check_update(fx, rep)
    check_apply(fx, rep)
    # the state half of the merge is BundleAccount::update_and_create_revert: its pair table and
    # storage disposition (C17's rule set) decide what to_plain_state later finds in the account
    import engine
    engine.run_included(ctx, rep, ('c17',))


def atoms_of(r):
    out = {}
    for (sv, lit, _f, _b) in r.lits:
        txt = render(sv)
        tv = lit_truth(lit)
        if tv is None:
            continue
        neg = txt.startswith('Not(')
        for nm, a in ATOMS.items():
            if (nm + '(') in txt[:16 + len(nm)]:
                out[a] = (not tv) if neg else tv
    return out


def pushes_of(f, r):
    out = []
    for e in r.events:
        if e[0] == 'alloc::vec::Vec::push' and e[1] and e[1][0][0] == 'ref' and e[1][0][1][0] == 'local':
            out.append((f.local_name(e[1][0][1][2]) or '?', e[1][1] if len(e[1]) > 1 else None))
    return out


def check_plain_state(fx, rep):
    f = fx.fns.get(BS + 'to_plain_state')
    if f is None:
        rep.undecided('R1-changeset', 'to_plain_state', 'not found')
        return
    rep.fn(f)
    try:
        rs = Symx(fx, max_paths=6000, snapshot_refs=True, pure=PURE).run(f)
    except Budget:
        rep.undecided('R1-changeset', 'to_plain_state', 'path budget', f.where())
        return
    rows = [(atoms_of(r), pushes_of(f, r), r) for r in rs if r.cut]
    if len(rows) < 10:
        rep.undecided('R1-changeset', 'to_plain_state', 'only %d loop-body paths recognised' % len(rows), f.where())
        return
    # the outer iterator is the one the complete (empty-state) path asks; the other `next` belongs
    # to the slot loop: Some = one slot iteration, None = the per-account tail
    outer = set()
    for r in rs:
        if not r.cut:
            outer |= {render(l[0]) for l in r.lits if render(l[0]).startswith('discr(next(')}

    def possible(formula, a, atoms):
        """values the formula can take over the atoms the path left undecided"""
        free = [x for x in atoms if x not in a]
        out = set()
        for vals in itertools.product((False, True), repeat=len(free)):
            env = dict(a)
            env.update(zip(free, vals))
            out.add(bool(formula(env)))
        return out

    bad = {}
    n = {'account': 0, 'slot': 0, 'entry': 0}
    for a, pushes, r in rows:
        targets = [t for t, _ in pushes]
        inner = [lit_truth(l[1]) for l in r.lits if render(l[0]).startswith('discr(next(') and render(l[0]) not in outer]
        in_slot = bool(inner) and inner[-1] is True
        # account entry: emitted iff not known or info changed (decided with the atoms the path tested)
        n['account'] += 1
        w = possible(lambda e: e['NK'] or e['IC'], a, ('NK', 'IC'))
        if w != {'accounts' in targets}:
            bad.setdefault('account-entry', 'account info %s when not_known=%s, info_changed=%s' % ('emitted' if 'accounts' in targets else 'omitted', a.get('NK', 'untested'), a.get('IC', 'untested')))
        if not inner:
            continue
        if not in_slot:
            # tail of the per-account iteration: storage entry emitted iff it has slots or was wiped
            n['entry'] += 1
            got = 'storage' in targets
            w = possible(lambda e: (not e['EMP']) or e['WD'], a, ('EMP', 'WD'))
            if w != {got}:
                bad.setdefault('storage-entry', 'storage entry %s with is_empty=%s, was_destroyed=%s (a wiped account without remaining slots must still be emitted, an untouched one must not)' % (
                    'emitted' if got else 'omitted', a.get('EMP', 'untested'), a.get('WD', 'untested')))
            for t, v in pushes:
                if t == 'storage' and v is not None:
                    txt = render(v)
                    ws = None
                    if v[0] == 'agg' and 'wipe_storage' in v[3]:
                        ws = v[4][v[3].index('wipe_storage')]
                    if ws is None or 'was_destroyed' not in render(ws):
                        bad.setdefault('wipe-flag', 'the emitted wipe_storage flag is %s, not was_destroyed()' % (render(ws) if ws else txt[:60]))
        else:
            n['slot'] += 1
            got = 'account_storage_changed' in targets
            w = possible(lambda e: e['NK'] or (e['WD'] and not e['Z']) or ((not e['WD']) and e['CH']), a, ('NK', 'WD', 'Z', 'CH'))
            if len(w) != 1:
                bad.setdefault('slot-guard', 'a slot is %s after testing only %s: the decision needs not_known, was_destroyed and present != 0 / is_changed()' % (
                    'emitted' if got else 'omitted', {k_: v for k_, v in a.items() if k_ in ('NK', 'WD', 'Z', 'CH')}))
            elif w != {got}:
                bad.setdefault('slot-entry', 'slot %s when not_known=%s, was_destroyed=%s, present_zero=%s, changed=%s' % ('emitted' if got else 'omitted', a.get('NK'), a.get('WD'), a.get('Z'), a.get('CH')))
            for t, v in pushes:
                if t == 'account_storage_changed' and v is not None and 'present_value' not in render(v):
                    bad.setdefault('slot-value', 'the value written for a slot is %s, not its present value' % render(v)[:80])
    for kx in ('account-entry', 'slot-guard', 'slot-entry', 'slot-value', 'storage-entry', 'wipe-flag'):
        if kx in bad:
            rep.violation('R1-changeset', kx, 'to_plain_state: ' + bad[kx], f.where())
        else:
            rep.ok('R1-changeset', kx, 'agrees with the changeset rule')
    rep.floor('R1-account-paths', n['account'], 6)
    rep.floor('R1-slot-paths', n['slot'], 6)
    rep.floor('R1-entry-paths', n['entry'], 4)


def check_update(fx, rep):
    f = fx.fns.get(TA + 'update')
    if f is None:
        rep.undecided('R2-transition-update', 'update', 'not found')
        return
    rep.fn(f)
    n = 0
    for new in ST:
        try:
            rs = Symx(fx, max_paths=3000, snapshot_refs=True).run(
                f, [('ref', ('arg', 1), ()), ('with', ('sym', 'arg2'), ((('.status',), K(fx.discr_of(AS, new))),))])
        except Budget:
            rep.undecided('R2-transition-update', new, 'path budget', f.where())
            continue
        problems = []
        seen_remove = seen_insert = seen_update = False
        for r in rs:
            st = {path: v for (root, path), v in r.stores.items() if root == ('arg', 1)}
            if st.get(('.info',)) != ('proj', ('sym', 'arg2'), ('.info',)):
                problems.append('info is not taken from the later transition')
            sv = st.get(('.status',))
            if sv is None or not (sv == K(fx.discr_of(AS, new)) or (sv[0] == 'agg' and sv[2] == new)):
                problems.append('status is not the later transition\'s status')
            if new in (D, DA):
                if st.get(('.storage',)) != ('proj', ('sym', 'arg2'), ('.storage',)):
                    problems.append('a later destroy does not replace the accumulated storage')
                if st.get(('.storage_was_destroyed',)) != K(1):
                    problems.append('a later destroy does not set storage_was_destroyed')
            else:
                if ('.storage_was_destroyed',) in st:
                    problems.append('storage_was_destroyed is written for a non-destroying transition')
                ev = [e[0].split('::')[-1] for e in r.events]
                eqs = [lit_truth(l[1]) for l in r.lits if 'original_value' in render(l[0]) and render(l[0]).startswith('eq(')]
                if 'remove' in ev:
                    seen_remove = True
                    if eqs != [True]:
                        problems.append('a slot is dropped although it did not return to its original value')
                if 'insert' in ev:
                    seen_insert = True
                if eqs == [False]:
                    pv = [v for (root, path), v in r.stores.items() if path and path[-1] == '.present_value']
                    if pv and all('present_value' in render(v) for v in pv):
                        seen_update = True
                    else:
                        problems.append('an already recorded slot does not take the later present value')
        if new not in (D, DA) and not problems and not (seen_remove and seen_insert and seen_update):
            problems.append('slot merge incomplete (insert=%s, update=%s, drop-on-return=%s)' % (seen_insert, seen_update, seen_remove))
        n += 1
        if problems:
            rep.violation('R2-transition-update', new, 'TransitionAccount::update with a later %s transition: %s' % (new, sorted(set(problems))[0]), f.where())
        else:
            rep.ok('R2-transition-update', new, 'replace+flag' if new in (D, DA) else 'merge keeping first original')
    rep.floor('R2-statuses', n, 8)


def check_apply(fx, rep):
    f = fx.fns.get(BS + 'apply_transitions_and_create_reverts')
    if f is None:
        rep.undecided('R3-merge', 'apply_transitions_and_create_reverts', 'not found')
        return
    rep.fn(f)
    try:
        rs = Symx(fx, max_paths=6000, snapshot_refs=True).run(f)
    except Budget:
        rep.undecided('R3-merge', 'apply_transitions_and_create_reverts', 'path budget', f.where())
        return
    full = [r for r in rs if not r.cut]
    body = [r for r in rs if r.cut]
    # one group per call
    groups = []
    for r in full:
        pushes = [e for e in r.events if e[0] == 'alloc::vec::Vec::push' and 'reverts' in render(e[1][0])]
        groups.append(len(pushes))
    if full and set(groups) == {1}:
        rep.ok('R3-merge', 'one-group-per-call', '%d exit path(s)' % len(full))
    else:
        rep.violation('R3-merge', 'one-group-per-call', 'apply_transitions_and_create_reverts pushes %s revert groups on its exit paths; group k must be merge k' % sorted(set(groups)), f.where())
    occ = vac_ins = vac_noins = 0
    problems = []
    for r in body:
        ev = [e[0].split('::')[-1] for e in r.events]
        some = None
        for (sv, lit, _f, _b) in r.lits:
            if render(sv).startswith('is_some(&create_revert'):
                some = lit_truth(lit)
        state_insert = any(e[0].endswith('VacantEntry::insert') for e in r.events)
        if 'update_and_create_revert' in ev:
            occ += 1
            if 'create_revert' in ev or state_insert:
                problems.append('an occupied entry is also treated as vacant')
        elif 'create_revert' in ev:
            if some is True:
                vac_ins += 1
                if not state_insert:
                    problems.append('a new account with a revert is not inserted into the bundle state')
                if 'present_bundle_account' not in ev:
                    problems.append('the inserted account is not the transition\'s present account')
            elif some is False:
                vac_noins += 1
                if state_insert:
                    problems.append('a transition without any change is inserted into the bundle state')
    if not (occ and vac_ins and vac_noins):
        problems.append('iteration paths not recognised (occupied=%d, vacant+revert=%d, vacant-no-revert=%d)' % (occ, vac_ins, vac_noins))
    if problems:
        rep.violation('R3-merge', 'per-transition', 'apply_transitions_and_create_reverts: ' + sorted(set(problems))[0], f.where())
    else:
        rep.ok('R3-merge', 'per-transition', 'occupied: update_and_create_revert; vacant: inserted iff a revert exists')
    # retention filter
    filt = [g for g in fx.closures_of(f.nq)]
    if any('includes_reverts' in render(l[0]) for r in rs for l in r.lits) or any((t.callee or '').endswith('includes_reverts') for _, t in f.calls()):
        rep.ok('R3-merge', 'retention', 'reverts kept iff retention.includes_reverts()')
    else:
        rep.violation('R3-merge', 'retention', 'the retention setting is not consulted', f.where())
