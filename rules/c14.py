"""C14 — dynamic gas cost formulas equal the specification for all arguments.

R1 constants of gas/constants.rs (and the EIP-7702 constants) by value against the reference;
R2 complete decision tables (path enumeration + partial evaluation) of sload_cost, sstore_cost,
   sstore_refund, selfdestruct_cost, call_cost (with warm/cold and delegation), the EXTCODECOPY base
   and the EXP byte price, evaluated for every SpecId (through the run-time spec dispatch) x every
   equality pattern of (original, present, new) x cold/warm x the other boolean inputs, against
   reference functions written from EIP-150/160/161/1283/2200/2929/3529/7702;
R3 linear formulas by coefficient extraction: KECCAK256, copy, LOG, CREATE2, initcode, memory,
   calldata tokens, intrinsic gas per fork, EIP-7623 floor;
R4 overflow discipline: arithmetic on length-derived operands uses checked_* / saturating_*; the
   source-level (wrapping-in-release) operations are an enumerated exception list.
"""
import itertools
import os
import sys

sys.path.insert(0, os.path.join(os.path.dirname(os.path.abspath(__file__)), 'reference'))
from symx import Symx, K, render, Budget          # noqa: E402
from dte import Valuation, select, option_value, to_poly, Poly, Unknown   # noqa: E402
from tables import SpecInfo, SPECID, REF_ORDER     # noqa: E402
import gas as REF                                  # noqa: E402

META = {
    'level': 'proof',
    'decides': 'every gas constant by value; the complete decision tables of the storage, account-access, call and self-destruct cost functions for every SpecId and every abstract input; the coefficients of the word/byte-linear formulas, the memory formula, intrinsic gas and the calldata floor; which arithmetic in the gas functions can wrap; log2floor = floor(log2) on all (limb, leading-zeros) cells by complete unrolling',
    'does_not_decide': 'modexp and other precompile pricing (C23); that saturation reports out-of-gas exactly when the true value exceeds 64 bits (argued: a saturated cost exceeds any remaining gas); behaviour for calldata longer than 2^59 bytes (listed exceptions in R4)',
    'explanation': 'Decision-table extraction over MIR and evaluation over a finite abstract domain (SpecId x equality patterns x booleans); polynomial normalisation of extracted expressions; const evaluation by the compiler. Oracle: rules/reference/gas.py written from the EIPs.',
}

C = 'revm_interpreter::gas::calc::'
INL = {SPECID + '::is_enabled_in', SPECID + '::enabled', C + 'cost_per_word', C + 'warm_cold_cost',
       C + 'warm_cold_cost_with_delegation', C + 'sload_cost', C + 'initcode_cost', C + 'istanbul_sstore_cost',
       C + 'frontier_sstore_cost', C + 'calc_tx_floor_cost', C + 'memory_gas',
       '<revm_interpreter::gas::calc::InitialAndFloorGas as core::default::Default>::default'}
PURE = {'revm_interpreter::interpreter::shared_memory::num_words', C + 'log2floor', C + 'get_tokens_in_calldata',
        'revm_interpreter::host::SStoreResult::is_new_eq_present', 'revm_interpreter::host::SStoreResult::is_original_eq_present',
        'revm_interpreter::host::SStoreResult::is_original_eq_new', 'revm_interpreter::host::SStoreResult::is_new_zero',
        'revm_interpreter::host::SStoreResult::is_original_zero', 'revm_interpreter::host::SStoreResult::is_present_zero',
        'ruint::cmp::<impl ruint::Uint>::is_zero'}

KNOWN_DEVIATION_NOTE = 'SpecId::CONSTANTINOPLE executes as PetersburgSpec: no EIP-1283 net metering'


def paths_of(fx, name, args, rep):
    f = fx.fns.get(C + name)
    if f is None:
        rep.undecided('anchor', name, 'gas::calc::%s not found' % name)
        return None, None
    rep.fn(f)
    try:
        return f, Symx(fx, inline=INL, pure=PURE, max_paths=4000).run(f, args)
    except Budget:
        rep.undecided('anchor', name, 'path budget exceeded', f.where())
        return f, None


def sstore_preds(o, p, n):
    return {'is_new_eq_present': n == p, 'is_original_eq_present': o == p, 'is_original_eq_new': o == n,
            'is_new_zero': n == 0, 'is_original_zero': o == 0, 'is_present_zero': p == 0}


def one_path(paths, val, rep, rule, key, where):
    try:
        ps = select(paths, val)
    except Unknown as e:
        rep.undecided(rule, key, 'table branches on an unmodelled input: %s' % e, where)
        return None
    if len(ps) != 1:
        rep.undecided(rule, key, '%d paths are consistent with one abstract input (expected exactly 1)' % len(ps), where)
        return None
    return ps[0]


def run(ctx, rep):
    fx = ctx.facts('default')
    si = SpecInfo(fx)
    if not si.ok:
        for p in si.problems:
            rep.undecided('spec-map', 'extract', p)
        return
    specs = [s for s in REF_ORDER if s in si.discr]
    check_constants(fx, rep)
    check_predicates(fx, rep)
    cells = 0
    cells += table_sload(fx, rep, si, specs)
    cells += table_sstore(fx, rep, si, specs)
    cells += table_selfdestruct(fx, rep, si, specs)
    cells += table_call(fx, rep, si, specs)
    cells += table_exp_extcodecopy(fx, rep, si, specs)
    check_log2floor(fx, rep)
    rep.floor('decision-table-cells', cells, 21 * (2 + 64 * 4 + 64 + 8 + 24 + 3))
    check_linear(fx, rep, si, specs)
    check_overflow_discipline(fx, rep)
    rep.assume('operands of the storage predicates are compared only through the six SStoreResult predicates (checked in R2-predicates), so the 64 value triples over {0,1,2,3} cover every equality pattern')
    rep.assume('a saturated memory/copy cost exceeds any u64 gas limit, hence is reported as out of gas')


def run_exp(ctx, rep):
    """the EXP part alone (C03 includes it: the gas EXP charges is exp_cost)"""
    fx = ctx.facts('default')
    si = SpecInfo(fx)
    if not si.ok:
        for p in si.problems:
            rep.undecided('spec-map', 'extract', p)
        return
    specs = [s for s in REF_ORDER if s in si.discr]
    table_exp_extcodecopy(fx, rep, si, specs, only_exp=True)
    check_log2floor(fx, rep)


def run_access_prices(ctx, rep):
    """the price tables that depend on warm/cold access (C34 includes them): constants, SLOAD,
    account access of the call family incl. EIP-7702 delegation, SELFDESTRUCT, EXTCODECOPY"""
    fx = ctx.facts('default')
    si = SpecInfo(fx)
    if not si.ok:
        for p in si.problems:
            rep.undecided('spec-map', 'extract', p)
        return
    specs = [s for s in REF_ORDER if s in si.discr]
    check_constants(fx, rep)
    table_sload(fx, rep, si, specs)
    table_selfdestruct(fx, rep, si, specs)
    table_call(fx, rep, si, specs)
    table_exp_extcodecopy(fx, rep, si, specs)


def run_linear(ctx, rep):
    """the linear formulas alone, among them the calldata token count, the intrinsic gas per fork
    and the EIP-7623 floor (C02 includes it: a transaction is accepted iff its gas limit covers them)"""
    fx = ctx.facts('default')
    si = SpecInfo(fx)
    if not si.ok:
        for p in si.problems:
            rep.undecided('spec-map', 'extract', p)
        return
    specs = [s for s in REF_ORDER if s in si.discr]
    check_linear(fx, rep, si, specs)


def check_log2floor(fx, rep):
    """R2b: log2floor(v) = floor(log2 v) for every non-zero v.  The loop over the four limbs has a
    constant counter and unrolls completely; the result depends on v only through which limb is the
    highest non-zero one and its leading_zeros, so 4 x 64 cells cover every value."""
    import c23
    f = fx.fns.get(C + 'log2floor')
    if f is None:
        rep.undecided('R2-tables', 'log2floor', 'not found')
        return
    rep.fn(f)
    try:
        rs = Symx(fx, max_paths=2000, unroll=8).run(f)
    except Budget:
        rep.undecided('R2-tables', 'log2floor', 'path budget', f.where())
        return
    if any(r.cut for r in rs):
        rep.undecided('R2-tables', 'log2floor', 'the limb loop does not unroll to a fixed number of iterations', f.where())
        return
    import re
    bad = None
    cells = 0
    for j in range(4):
        for lz in range(64):
            limbs = [0, 0, 0, 0]
            limbs[j] = 1 << (63 - lz)

            def sym(txt, limbs=limbs):
                m = re.search(r'\[(\d)\]$', txt)
                return limbs[int(m.group(1))] if m and 'as_limbs' in txt else None

            def lzf(sv, env):
                v = c23.ev(sv[2][0], env)
                return 64 - v.bit_length()
            env = {'__sym__': sym, '__calls__': {'leading_zeros': lzf}}
            got = set()
            try:
                for r in rs:
                    ok = True
                    for (sv, lit, _f, _b) in r.lits:
                        v = c23.ev(sv, env)
                        if (lit[0] == 'eq' and v != lit[1]) or (lit[0] == 'ne' and v in lit[1]):
                            ok = False
                            break
                    if ok:
                        got.add(c23.ev(r.ret, env))
            except c23.NoValue as e:
                rep.undecided('R2-tables', 'log2floor', 'not evaluable: %s' % e, f.where())
                return
            cells += 1
            want = 64 * j + 63 - lz
            if got != {want} and bad is None:
                bad = 'highest non-zero limb %d with %d leading zeros gives %s, floor(log2) is %d' % (j, lz, sorted(got), want)
    if bad:
        rep.violation('R2-tables', 'log2floor', 'log2floor: ' + bad, f.where())
    else:
        rep.ok('R2-tables', 'log2floor', 'floor(log2 v) on %d cells (limb x leading zeros)' % cells)


# ------------------------------------------------------------------------------------ R1

def check_constants(fx, rep):
    n = 0
    for name, want in sorted(REF.CONSTANTS.items()):
        q = 'revm_interpreter::gas::constants::' + name
        c = fx.consts.get(q)
        if c is None:
            rep.ok('R1-constants', name + ':absent', 'no constant of this name in the tree (renamed or removed): value clauses are covered by the tables', nontrivial=False)
            continue
        n += 1
        got = c.get('val')
        if got == want:
            rep.ok('R1-constants', name, want)
        else:
            rep.violation('R1-constants', name, 'gas::%s = %s, the specification says %s' % (name, got, want), '%s:%s' % (c['file'], c['line']))
    for name, want in sorted(REF.EIP7702.items()):
        got = fx.const_val('revm_primitives::eip7702::constants::' + name)
        if got is None:
            got = fx.const_val('eip7702::constants::' + name) or fx.const_val(name)
        if got is None:
            rep.ok('R1-constants', 'eip7702::' + name + ':absent', 'not found', nontrivial=False)
            continue
        n += 1
        if got == want:
            rep.ok('R1-constants', 'eip7702::' + name, want)
        else:
            rep.violation('R1-constants', 'eip7702::' + name, 'eip7702::%s = %s, EIP-7702 says %s' % (name, got, want))
    rep.floor('gas-constants-compared', n, 44)


def check_predicates(fx, rep):
    """the six SStoreResult predicates compare the right fields (so that the abstract domain is right)"""
    H = 'revm_interpreter::host::SStoreResult::'
    want = {
        'is_new_eq_present': ('eq', '.new_value', '.present_value'), 'is_original_eq_present': ('eq', '.original_value', '.present_value'),
        'is_original_eq_new': ('eq', '.original_value', '.new_value'), 'is_new_zero': ('zero', '.new_value'),
        'is_original_zero': ('zero', '.original_value'), 'is_present_zero': ('zero', '.present_value'),
    }
    for name, w in want.items():
        f = fx.fns.get(H + name)
        if f is None:
            rep.undecided('R2-predicates', name, 'not found')
            continue
        rep.fn(f)
        rs = Symx(fx, pure={'core::cmp::PartialEq::eq', 'ruint::cmp::<impl ruint::Uint>::is_zero'}).run(f)
        good = False
        if len(rs) == 1 and rs[0].ret[0] == 'call':
            r = rs[0].ret
            fields = []
            for a in r[2]:
                if a[0] == 'ref' and a[1] == ('arg', 1):
                    fields.append(a[2][-1] if a[2] else None)
            if w[0] == 'eq' and r[1].endswith('PartialEq::eq') and set(fields) == {w[1], w[2]}:
                good = True
            if w[0] == 'zero' and r[1].endswith('is_zero') and fields == [w[1]]:
                good = True
        if good:
            rep.ok('R2-predicates', name, w)
        else:
            rep.violation('R2-predicates', name, 'SStoreResult::%s is not %s: %s' % (name, w, [render(r.ret) for r in rs]), f.where())


# ------------------------------------------------------------------------------------ R2

def table_sload(fx, rep, si, specs):
    cells = 0
    for s in specs:
        eff = si.effective(s)
        f, paths = paths_of(fx, 'sload_cost', [K(si.discr[eff]), None], rep)
        if paths is None:
            return cells
        for cold in (0, 1):
            cells += 1
            key = 'sload_cost:spec=%s:cold=%d' % (s, cold)
            p = one_path(paths, Valuation(syms={'arg2': cold}), rep, 'R2-tables', key, f.where())
            if p is None:
                continue
            try:
                got = Valuation(syms={'arg2': cold}).of(p.ret)
            except Unknown as e:
                rep.undecided('R2-tables', key, str(e), f.where())
                continue
            want = REF.sload(s, bool(cold))
            if got == want:
                rep.ok('R2-tables', key, got, nontrivial=(cold == 1))
            else:
                rep.violation('R2-tables', key, 'sload_cost(%s as %s, cold=%d) = %s, specification: %s' % (s, eff, cold, got, want), f.where())
    return cells


def table_sstore(fx, rep, si, specs):
    cells = 0
    triples = list(itertools.product(range(4), repeat=3))
    for s in specs:
        eff = si.effective(s)
        fc, pc = paths_of(fx, 'sstore_cost', [K(si.discr[eff]), None, None, None], rep)
        fr, pr = paths_of(fx, 'sstore_refund', [K(si.discr[eff]), None], rep)
        if pc is None or pr is None:
            return cells
        bad_cost = []
        bad_ref = []
        und = False
        for (o, p, n) in triples:
            preds = sstore_preds(o, p, n)
            for le, cold in itertools.product((0, 1), (0, 1)):
                cells += 1
                val = Valuation(preds=preds, syms={'arg3': 2300 if le else 2301, 'arg4': cold})
                pth = one_path(pc, val, rep, 'R2-tables', 'sstore_cost:spec=%s:(%d,%d,%d)' % (s, o, p, n), fc.where())
                if pth is None:
                    und = True
                    continue
                try:
                    got = option_value(pth.ret, val)
                except Unknown as e:
                    rep.undecided('R2-tables', 'sstore_cost:spec=%s' % s, str(e), fc.where())
                    und = True
                    continue
                want = REF.sstore_cost(s, o, p, n, bool(le), bool(cold))
                g = None if got == ('none',) else got[1]
                if g != want:
                    bad_cost.append(((o, p, n), le, cold, g, want))
            cells += 1
            val = Valuation(preds=preds)
            pth = one_path(pr, val, rep, 'R2-tables', 'sstore_refund:spec=%s:(%d,%d,%d)' % (s, o, p, n), fr.where())
            if pth is None:
                und = True
                continue
            try:
                got = val.of(pth.ret)
            except Unknown as e:
                rep.undecided('R2-tables', 'sstore_refund:spec=%s' % s, str(e), fr.where())
                und = True
                continue
            want = REF.sstore_refund(s, o, p, n)
            if got != want:
                bad_ref.append(((o, p, n), got, want))
        for name, bad, f in (('sstore_cost', bad_cost, fc), ('sstore_refund', bad_ref, fr)):
            key = '%s:spec=%s' % (name, s)
            if bad:
                ex = bad[0]
                # a column that equals the legacy (Petersburg) schedule where the reference expects EIP-1283
                # is the documented upstream deviation; any other difference keeps the plain key
                if s == 'CONSTANTINOPLE' and eff == 'PETERSBURG' and column_is_legacy(name, bad):
                    key += ':legacy-schedule-instead-of-eip1283'
                rep.violation('R2-tables', key,
                              '%s under SpecId::%s (executes as %s) differs from the specification in %d cells, e.g. (original,present,new)=%s%s: got %s, expected %s' % (
                                  name, s, eff, len(bad), ex[0], (' gas<=stipend=%s cold=%s' % (ex[1], ex[2])) if name == 'sstore_cost' else '', ex[-2], ex[-1]), f.where())
            elif not und:
                rep.ok('R2-tables', key, '%d cells' % (len(triples) * (4 if name == 'sstore_cost' else 1)))
    return cells


def column_is_legacy(name, bad):
    """all mismatching cells carry exactly the legacy (pre-net-metering) value"""
    for b in bad:
        o, p, n = b[0]
        if name == 'sstore_cost':
            legacy = 20000 if (p == 0 and n != 0) else 5000
            if b[3] != legacy:
                return False
        else:
            legacy = 15000 if (p != 0 and n == 0) else 0
            if b[1] != legacy:
                return False
    return True


def table_selfdestruct(fx, rep, si, specs):
    cells = 0
    for s in specs:
        eff = si.effective(s)
        f, paths = paths_of(fx, 'selfdestruct_cost', [K(si.discr[eff]), None], rep)
        if paths is None:
            return cells
        bad = []
        und = False
        for hv, te, cold in itertools.product((0, 1), repeat=3):
            cells += 1
            val = Valuation(syms={'arg2.data.had_value': hv, 'arg2.data.target_exists': te, 'arg2.is_cold': cold})
            p = one_path(paths, val, rep, 'R2-tables', 'selfdestruct_cost:spec=%s' % s, f.where())
            if p is None:
                und = True
                continue
            try:
                got = val.of(p.ret)
            except Unknown as e:
                rep.undecided('R2-tables', 'selfdestruct_cost:spec=%s' % s, str(e), f.where())
                und = True
                continue
            want = REF.selfdestruct(s, bool(hv), bool(te), bool(cold))
            if got != want:
                bad.append(((hv, te, cold), got, want))
        key = 'selfdestruct_cost:spec=%s' % s
        if bad:
            rep.violation('R2-tables', key, 'selfdestruct_cost under %s: (had_value,target_exists,cold)=%s gives %s, specification %s (%d cells differ)' % (s, bad[0][0], bad[0][1], bad[0][2], len(bad)), f.where())
        elif not und:
            rep.ok('R2-tables', key, '8 cells')
    return cells


def table_call(fx, rep, si, specs):
    cells = 0
    for s in specs:
        eff = si.effective(s)
        f, paths = paths_of(fx, 'call_cost', [K(si.discr[eff]), None, None], rep)
        if paths is None:
            return cells
        bad = []
        und = False
        for tv, empty, cold, deleg in itertools.product((0, 1), (0, 1), (0, 1), (None, 0, 1)):
            cells += 1
            syms = {'arg2': tv, 'arg3.is_empty': empty, 'arg3.load.state_load.is_cold': cold,
                    'discr(arg3.load.is_delegate_account_cold)': 0 if deleg is None else 1}
            if deleg is not None:
                syms['arg3.load.is_delegate_account_cold@Some.0'] = deleg
            val = Valuation(syms=syms)
            p = one_path(paths, val, rep, 'R2-tables', 'call_cost:spec=%s' % s, f.where())
            if p is None:
                und = True
                continue
            try:
                got = val.of(p.ret)
            except Unknown as e:
                rep.undecided('R2-tables', 'call_cost:spec=%s' % s, str(e), f.where())
                und = True
                continue
            want = REF.call(s, bool(tv), bool(empty), bool(cold), None if deleg is None else bool(deleg))
            if got != want:
                bad.append(((tv, empty, cold, deleg), got, want))
        key = 'call_cost:spec=%s' % s
        if bad:
            rep.violation('R2-tables', key, 'call_cost under %s: (transfers_value,is_empty,cold,delegate_cold)=%s gives %s, specification %s (%d cells differ)' % (s, bad[0][0], bad[0][1], bad[0][2], len(bad)), f.where())
        elif not und:
            rep.ok('R2-tables', key, '24 cells')
    return cells


def table_exp_extcodecopy(fx, rep, si, specs, only_exp=False):
    cells = 0

    def atoms(sv):
        if sv[0] == 'call' and sv[1].endswith('num_words'):
            return 'W'
        if sv[0] == 'call' and sv[1].endswith('log2floor'):
            return 'L'
        if sv[0] == 'bin' and sv[1] == 'Add' and sv[3] == K(1) and sv[2][0] == 'bin' and sv[2][1] == 'Div':
            return 'BYTES'     # log2floor(power)/8 + 1 = byte length of the exponent
        return None
    for s in specs:
        eff = si.effective(s)
        # EXTCODECOPY base
        f, paths = (None, None) if only_exp else paths_of(fx, 'extcodecopy_cost', [K(si.discr[eff]), None, None], rep)
        if paths is not None:
            for cold in (0, 1):
                cells += 1
                key = 'extcodecopy_cost:spec=%s:cold=%d' % (s, cold)
                ok_paths = []
                for p in paths:
                    try:
                        sel = select([p], Valuation(syms={'arg3': cold}, preds={}))
                    except Unknown:
                        sel = [p] if all(l[0][0] != 'sym' for l in p.lits) else []
                        # literals on the overflow discriminant are not part of the table
                        sel = [p] if _cold_consistent(p, cold) else []
                    if sel and not (p.ret[0] == 'agg' and p.ret[2] == 'None'):
                        ok_paths.append(p)
                polys = set()
                for p in ok_paths:
                    try:
                        polys.add(to_poly(p.ret, atoms))
                    except Unknown as e:
                        rep.undecided('R2-tables', key, str(e), f.where())
                want = Poly.const(REF.extcodecopy_base(s, bool(cold))) + Poly.atom('W').scale(3)
                if polys == {want}:
                    rep.ok('R2-tables', key, repr(want), nontrivial=(cold == 1))
                else:
                    rep.violation('R2-tables', key, 'extcodecopy_cost under %s cold=%d is %s, specification %r' % (s, cold, sorted(map(repr, polys)), want), f.where())
        # EXP
        f, paths = paths_of(fx, 'exp_cost', [K(si.discr[eff]), None], rep)
        if paths is not None:
            cells += 1
            key = 'exp_cost:spec=%s' % s
            polys = set()
            zero_case = set()
            for p in paths:
                if p.ret[0] == 'agg' and p.ret[2] == 'None':
                    continue
                zl = [l for l in p.lits if l[0][0] == 'call' and l[0][1].endswith('is_zero')]
                if zl and zl[0][1] != ('eq', 0):
                    zero_case.add(render(p.ret))
                    continue
                r = p.ret
                # u64::try_from(gas).ok()
                while r[0] == 'call' and r[1].split('::')[-1] in ('ok', 'try_from') and r[2]:
                    r = r[2][0]
                try:
                    polys.add(to_poly(r, atoms))
                except Unknown as e:
                    rep.undecided('R2-tables', key, str(e), f.where())
            want = Poly.const(10) + Poly.atom('BYTES').scale(REF.exp_byte(s))
            if polys == {want} and zero_case == {'Option::Some{0: 10}'}:
                rep.ok('R2-tables', key, repr(want))
            else:
                rep.violation('R2-tables', key, 'exp_cost under %s is %s (zero exponent: %s), specification %r and 10' % (s, sorted(map(repr, polys)), sorted(zero_case), want), f.where())
    return cells


def _cold_consistent(p, cold):
    for (sv, lit, _f, _b) in p.lits:
        if sv == ('sym', 'arg3'):
            if lit[0] == 'eq' and lit[1] != cold:
                return False
            if lit[0] == 'ne' and cold in lit[1]:
                return False
    return True


# ------------------------------------------------------------------------------------ R3

def check_linear(fx, rep, si, specs):
    def atoms_w(sv):
        if sv[0] == 'call' and sv[1].endswith('num_words'):
            return 'W'
        if sv[0] == 'sym' and sv[1].startswith('arg'):
            return sv[1]
        return None

    def some_polys(name, args=None):
        f, paths = paths_of(fx, name, args, rep)
        if paths is None:
            return f, None
        out = set()
        for p in paths:
            if p.ret[0] == 'agg' and p.ret[2] == 'None':
                continue
            try:
                out.add(to_poly(p.ret, atoms_w))
            except Unknown as e:
                rep.undecided('R3-formulas', name, str(e), f.where())
                return f, None
        return f, out
    W = Poly.atom('W')
    want = {
        'keccak256_cost': Poly.const(30) + W.scale(6),
        'verylowcopy_cost': Poly.const(3) + W.scale(3),
        'create2_cost': Poly.const(32000) + W.scale(6),
        'initcode_cost': W.scale(2),
        'log_cost': Poly.const(375) + Poly.atom('arg2').scale(8) + Poly.atom('arg1').scale(375),
        'calc_tx_floor_cost': Poly.atom('arg1').scale(10) + Poly.const(21000),
    }
    for name, w in want.items():
        f, got = some_polys(name)
        if got is None:
            continue
        if got == {w}:
            rep.ok('R3-formulas', name, repr(w))
        else:
            rep.violation('R3-formulas', name, '%s computes %s, specification %r' % (name, sorted(map(repr, got)), w), f.where())
    # memory: 3w + w*w/512
    f, paths = paths_of(fx, 'memory_gas', None, rep)
    if paths is not None:
        try:
            got = {to_poly(p.ret, atoms_w) for p in paths}
            ww = Poly.atom('arg1')
            w = ww.scale(3) + Poly.atom('(%r)/512' % (ww * ww))
            if got == {w}:
                rep.ok('R3-formulas', 'memory_gas', repr(w))
            else:
                rep.violation('R3-formulas', 'memory_gas', 'memory_gas computes %s, specification %r' % (sorted(map(repr, got)), w), f.where())
        except Unknown as e:
            rep.undecided('R3-formulas', 'memory_gas', str(e), f.where())
    # num_words: (len + 31) / 32, saturating
    nw = fx.fns.get('revm_interpreter::interpreter::shared_memory::num_words')
    if nw is not None:
        rep.fn(nw)
        rs = Symx(fx).run(nw)
        ok = False
        if len(rs) == 1:
            r = rs[0].ret
            # saturating_add(len, 31) / 32
            if r[0] == 'bin' and r[1] == 'Div' and r[3] == K(32) and r[2][0] == 'call' and r[2][1].endswith('saturating_add') and set(r[2][2]) == {('sym', 'arg1'), K(31)}:
                ok = True
        if ok:
            rep.ok('R3-formulas', 'num_words', 'len.saturating_add(31) / 32')
        else:
            rep.violation('R3-formulas', 'num_words', 'num_words is %s, expected saturating_add(len, 31) / 32' % [render(r.ret) for r in rs], nw.where())
    # calldata tokens
    f, paths = paths_of(fx, 'get_tokens_in_calldata', None, rep)
    if paths is not None:
        def atoms_t(sv):
            if sv[0] == 'call' and sv[1].endswith('::count'):
                return 'ZERO'
            if sv[0] == 'call' and sv[1].endswith('::len'):
                return 'LEN'
            return None
        for p in paths:
            ist = None
            for (sv, lit, _f, _b) in p.lits:
                if sv == ('sym', 'arg2'):
                    ist = (lit == ('ne', (0,))) or (lit == ('eq', 1))
            mult = 4 if ist else 17
            key = 'get_tokens_in_calldata:istanbul=%s' % ist
            try:
                got = to_poly(p.ret, atoms_t)
            except Unknown as e:
                rep.undecided('R3-formulas', key, str(e), f.where())
                continue
            w = Poly.atom('ZERO') + (Poly.atom('LEN') + Poly.atom('ZERO').scale(-1)).scale(mult)
            if got == w and ist is not None:
                rep.ok('R3-formulas', key, repr(w))
            else:
                rep.violation('R3-formulas', key, 'calldata tokens = %r, specification %r (zero bytes + %d per non-zero byte)' % (got, w, mult), f.where())
        # the zero-byte filter closure compares with 0
        cl = fx.closures_of(C + 'get_tokens_in_calldata')
        okc = False
        for c in cl:
            rs = Symx(fx).run(c)
            for r in rs:
                if r.ret[0] == 'bin' and r.ret[1] == 'Eq' and K(0) in (r.ret[2], r.ret[3]):
                    okc = True
        if okc:
            rep.ok('R3-formulas', 'get_tokens_in_calldata:zero-filter', 'byte == 0')
        else:
            rep.violation('R3-formulas', 'get_tokens_in_calldata:zero-filter', 'the zero-byte filter is not `byte == 0`', f.where())
    # intrinsic gas per fork
    def atoms_i(sv):
        if sv[0] == 'call' and sv[1].endswith('get_tokens_in_calldata'):
            return 'T'
        if sv[0] == 'call' and sv[1].endswith('num_words'):
            return 'W'
        if sv[0] == 'call' and sv[1].endswith('::sum'):
            return 'KEYS'
        if sv[0] == 'call' and sv[1].endswith('::len'):
            return 'ADDRS'
        if sv == ('sym', 'arg5'):
            return 'AUTHS'
        return None
    for s in specs:
        eff = si.effective(s)
        f, paths = paths_of(fx, 'calculate_initial_tx_gas', [K(si.discr[eff]), None, None, None, None], rep)
        if paths is None:
            break
        for p in paths:
            create = None
            for (sv, lit, _f, _b) in p.lits:
                if sv == ('sym', 'arg3'):
                    create = (lit == ('ne', (0,))) or (lit == ('eq', 1))
            if create is None:
                rep.undecided('R3-formulas', 'intrinsic:spec=%s' % s, 'path not decided by is_create', f.where())
                continue
            key = 'intrinsic:spec=%s:create=%s' % (s, create)
            r = p.ret
            fields = {}
            if r[0] == 'with':
                for sub, v in r[2]:
                    fields[''.join(sub)] = v
            elif r[0] == 'agg':
                fields = dict(zip(['.' + n for n in r[3]], r[4]))
            try:
                ig = to_poly(fields.get('.initial_gas', K(0)), atoms_i)
                fg = to_poly(fields.get('.floor_gas', K(0)), atoms_i)
            except Unknown as e:
                rep.undecided('R3-formulas', key, str(e), f.where())
                continue
            # tokens argument: is_istanbul flag passed to get_tokens_in_calldata
            ist_ok = True
            for ev in p.events:
                if ev[0].endswith('get_tokens_in_calldata'):
                    flag = ev[1][1]
                    if flag != K(1 if REF.ge(s, 'ISTANBUL') else 0):
                        ist_ok = False
            T = Poly.atom('T')
            w = T.scale(4)
            if REF.ge(s, 'BERLIN'):
                w = w + Poly.atom('ADDRS').scale(2400) + Poly.atom('KEYS').scale(1900)
            w = w + Poly.const(53000 if (create and REF.ge(s, 'HOMESTEAD')) else 21000)
            if REF.ge(s, 'SHANGHAI') and create:
                w = w + Poly.atom('W').scale(2)
            wf = Poly.const(0)
            if REF.ge(s, 'PRAGUE'):
                w = w + Poly.atom('AUTHS').scale(25000)
                wf = T.scale(10) + Poly.const(21000)
            if ig == w and fg == wf and ist_ok:
                rep.ok('R3-formulas', key, 'initial %r; floor %r' % (w, wf), nontrivial=create)
            else:
                rep.violation('R3-formulas', key, 'intrinsic gas under %s (create=%s): initial %r floor %r istanbul-token-flag-ok=%s; specification initial %r floor %r' % (s, create, ig, fg, ist_ok, w, wf), f.where())


# ------------------------------------------------------------------------------------ R4

# source-level arithmetic (wraps in release builds) that is accepted, with the bound argument
UNCHECKED_OK = {
    ('log_cost', 'Mul'): 'LOGTOPIC * n: n <= 4 (const generic of LOG0..LOG4)',
    ('sstore_cost', 'Add'): 'constant + COLD_SLOAD_COST',
    ('sstore_refund', 'Add'): 'sum of constants', ('sstore_refund', 'Sub'): 'difference of constants', ('sstore_refund', 'Neg'): 'constant',
    ('selfdestruct_cost', 'Add'): 'sum of at most three constants',
    ('call_cost', 'Add'): 'sum of constants', ('warm_cold_cost_with_delegation', 'Add'): 'sum of two constants',
    ('log2floor', 'Sub'): 'bounded loop counter arithmetic (l <= 256, i <= 3)', ('log2floor', 'Add'): 'bounded',
    ('exp_cost', 'Add'): 'log2floor(power)/8 + 1 <= 33', ('exp_cost', 'Div'): 'division by constant',
    ('memory_gas', 'Div'): 'division by constant 512', ('log2floor', 'Div'): 'division by constant',
    ('calculate_initial_tx_gas', 'Add'): 'calldata / access-list lengths are bounded by memory: tokens*4 + n*2400 + m*1900 + 53000 + 25000*auths < 2^64 for any input that fits in memory',
    ('calculate_initial_tx_gas', 'Mul'): 'same bound (lengths < 2^48 in practice)',
    ('get_tokens_in_calldata', 'Add'): 'zero + nonzero*17 with lengths bounded by memory',
    ('get_tokens_in_calldata', 'Mul'): 'nonzero*17 with lengths bounded by memory', ('get_tokens_in_calldata', 'Sub'): 'len - zero_count, zero_count <= len',
    ('calc_tx_floor_cost', 'Add'): 'tokens*10 + 21000, tokens bounded as above', ('calc_tx_floor_cost', 'Mul'): 'tokens*10',
}


def check_overflow_discipline(fx, rep):
    n = 0
    for f in fx.fns_all:
        if not f.nq.startswith(C) or f.kind not in ('Fn', 'AssocFn'):
            continue
        rep.fn(f)
        seen = set()
        for b in f.blocks:
            if b.cleanup:
                continue
            for s in b.stmts:
                if s.kind != 'assign' or s.rv.rv not in ('bin', 'un'):
                    continue
                op = s.rv.op
                base = op.replace('WithOverflow', '').replace('Unchecked', '')
                if base not in ('Add', 'Sub', 'Mul', 'Div', 'Rem', 'Neg', 'Shl'):
                    continue
                if all(o.kind == 'const' for o in s.rv.ops):
                    continue
                k = (f.name, base)
                if k in seen:
                    continue
                seen.add(k)
                n += 1
                key = '%s:%s' % (f.name, base)
                if k in UNCHECKED_OK:
                    rep.ok('R4-overflow-discipline', key, 'listed exception: ' + UNCHECKED_OK[k], nontrivial=False)
                else:
                    rep.violation('R4-overflow-discipline', key,
                                  'gas::calc::%s performs source-level `%s` on a non-constant operand (wraps in release builds); gas formulas must use checked_/saturating_ arithmetic or carry a bound' % (f.name, base), f.where(b.i, s.ln))
    rep.floor('unchecked-arithmetic-sites-classified', n, 10)
