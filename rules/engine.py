"""Harness: builds facts from /repo's current working tree with the mirfacts driver, runs a
property's rule module, writes evidence, prints VIOLATION / KNOWN-FINDING lines."""
import fcntl
import hashlib
import importlib
import json
import os
import shutil
import subprocess
import sys
import time

VERIF = os.path.dirname(os.path.dirname(os.path.abspath(__file__)))
REPO = os.environ.get('VERIF_REPO', '/repo')
WORK = os.environ.get('VERIF_WORK') or os.path.join(VERIF, '.work')      # overridable: parallel selftest shards
DRIVER_DIR = os.path.join(VERIF, 'driver')
DRIVER = os.path.join(DRIVER_DIR, 'target', 'release', 'mirfacts')

LIB_CRATES = ['revm', 'revm_interpreter', 'revm_primitives', 'revm_precompile']

CONFIGS = {
    # name: (cargo args, crates to dump, crates that must be present)
    'default': (['-p', 'revm', '-p', 'revm-interpreter', '-p', 'revm-primitives', '-p', 'revm-precompile'],
                LIB_CRATES, LIB_CRATES),
    'optimism': (['-p', 'revm', '--features', 'optimism'], LIB_CRATES, LIB_CRATES),
    'dev': (['-p', 'revm', '--features', 'dev serde'], LIB_CRATES, LIB_CRATES),
    'serde-json': (['-p', 'revm', '--features', 'serde-json'], LIB_CRATES, LIB_CRATES),
    'workspace': (['--workspace'], LIB_CRATES + ['revme'], LIB_CRATES + ['revme']),
    'k256': (['-p', 'revm-precompile', '--no-default-features', '--features', 'std'],
             ['revm_precompile', 'revm_primitives'], ['revm_precompile']),
    'fixtures': None,  # handled separately
}

# lower bounds on the number of function bodies the driver must have produced per crate
FN_FLOORS = {'revm': 650, 'revm_interpreter': 550, 'revm_primitives': 600, 'revm_precompile': 90}


def sh(cmd, **kw):
    return subprocess.run(cmd, **kw)


def tree_hash():
    h = hashlib.sha256()
    roots = [os.path.join(REPO, 'crates'), os.path.join(REPO, 'bins')]
    files = []
    for r in roots:
        for dp, dn, fn in os.walk(r):
            dn[:] = sorted(d for d in dn if d not in ('target', '.git'))
            for f in sorted(fn):
                if f.endswith(('.rs', '.toml', '.lock')):
                    files.append(os.path.join(dp, f))
    for f in ('Cargo.toml', 'Cargo.lock'):
        p = os.path.join(REPO, f)
        if os.path.exists(p):
            files.append(p)
    for p in files:
        h.update(os.path.relpath(p, REPO).encode())
        h.update(b'\0')
        with open(p, 'rb') as fh:
            h.update(fh.read())
        h.update(b'\0')
    # the driver is part of the key: new driver => new facts
    try:
        st = os.stat(DRIVER)
        h.update(('%d:%d' % (st.st_size, int(st.st_mtime))).encode())
    except OSError:
        h.update(b'nodriver')
    return h.hexdigest()[:20]


def sysroot_lib():
    out = subprocess.run(['rustc', '+nightly', '--print', 'sysroot'], capture_output=True, text=True, check=True)
    return os.path.join(out.stdout.strip(), 'lib')


def ensure_driver():
    if os.path.exists(DRIVER):
        src = os.path.join(DRIVER_DIR, 'src', 'main.rs')
        if os.stat(src).st_mtime <= os.stat(DRIVER).st_mtime:
            return
    env = dict(os.environ, CARGO_NET_OFFLINE='true')
    r = sh(['cargo', 'build', '--release', '--offline'], cwd=DRIVER_DIR, env=env,
           stdout=subprocess.PIPE, stderr=subprocess.STDOUT, text=True)
    if r.returncode != 0:
        sys.stdout.write(r.stdout)
        raise SystemExit('mirfacts driver failed to build')


class Lock:
    def __enter__(self):
        os.makedirs(WORK, exist_ok=True)
        self.f = open(os.path.join(WORK, 'lock'), 'w')
        fcntl.flock(self.f, fcntl.LOCK_EX)
        return self

    def __exit__(self, *a):
        fcntl.flock(self.f, fcntl.LOCK_UN)
        self.f.close()


def build_facts(cfg, th=None, repo=None, quiet=True):
    """Return the directory holding the fact files of `cfg` for the current tree."""
    repo = repo or REPO
    with Lock():
        ensure_driver()
        th = th or tree_hash()
        base = os.path.join(WORK, 'facts', cfg)
        final = os.path.join(base, th)
        if os.path.isdir(final) and os.path.exists(os.path.join(final, 'OK')):
            return final, th, False
        # drop stale fact sets of this cfg (disk is limited)
        if os.path.isdir(base):
            for d in os.listdir(base):
                shutil.rmtree(os.path.join(base, d), ignore_errors=True)
        tmp = final + '.tmp'
        os.makedirs(tmp, exist_ok=True)
        args, dump, must = CONFIGS[cfg]
        target = os.path.join(WORK, 'target')
        # cargo's freshness cache would skip the wrapper: drop the members' fingerprints
        fp = os.path.join(target, 'debug', '.fingerprint')
        if os.path.isdir(fp):
            for d in os.listdir(fp):
                if d.startswith(('revm-', 'revme-')) and not d.startswith('revm-test'):
                    shutil.rmtree(os.path.join(fp, d), ignore_errors=True)
        env = dict(os.environ)
        env.update({
            'LD_LIBRARY_PATH': sysroot_lib() + ':' + env.get('LD_LIBRARY_PATH', ''),
            'RUSTFLAGS': '-Zmir-opt-level=0 -Awarnings',
            'RUSTC_WORKSPACE_WRAPPER': DRIVER,
            'MIRFACTS_OUT': tmp,
            'MIRFACTS_CRATES': ','.join(dump),
            'CARGO_TARGET_DIR': target,
            'CARGO_NET_OFFLINE': 'true',
        })
        env.pop('RUSTC_WRAPPER', None)
        cmd = ['cargo', '+nightly', 'check', '--offline'] + args
        t0 = time.time()
        r = sh(cmd, cwd=repo, env=env, stdout=subprocess.PIPE, stderr=subprocess.STDOUT, text=True)
        if r.returncode != 0:
            sys.stdout.write(r.stdout[-6000:])
            raise SystemExit('cargo check failed for cfg %s (the tree does not compile?)' % cfg)
        # assert the expected fact files exist and are plausible
        present = {}
        for f in os.listdir(tmp):
            if f.endswith('.jsonl'):
                with open(os.path.join(tmp, f)) as fh:
                    head = json.loads(fh.readline())
                present[head['name']] = max(present.get(head['name'], 0), head['fns'])
        for c in must:
            if c not in present:
                raise SystemExit('mirfacts: no facts for crate %s in cfg %s (wrapper skipped?)' % (c, cfg))
            if cfg != 'k256' and present[c] < FN_FLOORS.get(c, 0):
                raise SystemExit('mirfacts: only %d function bodies for %s' % (present[c], c))
        with open(os.path.join(tmp, 'OK'), 'w') as fh:
            json.dump({'cfg': cfg, 'tree': th, 'secs': round(time.time() - t0, 1), 'crates': present}, fh)
        os.rename(tmp, final)
        return final, th, True


# ============================================================================ reporting

class Report:
    def __init__(self, prop, tier):
        self.prop = prop
        self.tier = tier
        self.violations = []      # dicts: key, msg, where, detail
        self.instances = []       # (rule, instance, verdict, detail)
        self.counts = {}
        self.floors = []          # (name, got, minimum)
        self.assumptions = []
        self.samples = []
        self.functions = set()
        self.cfgs = []
        self.paths = 0
        self.notes = []

    # an obligation that was checked and holds
    def ok(self, rule, instance, detail=None, nontrivial=True):
        self.instances.append((rule, instance, 'ok', detail, nontrivial))

    def violation(self, rule, key, msg, where=None, detail=None):
        """key: stable identifier without line numbers, e.g. 'make_call_frame:exit=Result(InvalidExtDelegateCallTarget):open'"""
        full = '%s:%s' % (rule, key)
        if any(v['key'] == full for v in self.violations):
            return      # one report per instance key
        self.instances.append((rule, key, 'violation', msg, True))
        self.violations.append({'rule': rule, 'key': full, 'msg': msg, 'where': where, 'detail': detail})

    def undecided(self, rule, key, msg, where=None):
        self.violation(rule, key + ':undecided', 'UNDECIDED (fail closed): ' + msg, where)

    def floor(self, name, got, minimum):
        self.floors.append((name, got, minimum))
        if got < minimum:
            self.violation('floor', name, 'rule %s matched %d instances, fewer than the %d confirmed by hand (fail closed)' % (name, got, minimum))

    def fn(self, f):
        if f is not None:
            self.functions.add(f.nq)

    def assume(self, text):
        if text not in self.assumptions:
            self.assumptions.append(text)

    def sample(self, obj):
        if len(self.samples) < 12:
            self.samples.append(obj)


class SubReport:
    """the rules of another property run as part of this one: rule names are prefixed `<tag>/`"""

    def __init__(self, rep, tag):
        self.rep = rep
        self.tag = tag
        self.tier = rep.tier
        self.prop = rep.prop

    def ok(self, rule, *a, **k):
        self.rep.ok(self.tag + '/' + rule, *a, **k)

    def violation(self, rule, *a, **k):
        self.rep.violation(self.tag + '/' + rule, *a, **k)

    def undecided(self, rule, *a, **k):
        self.rep.undecided(self.tag + '/' + rule, *a, **k)

    def floor(self, name, got, minimum):
        self.rep.floor(self.tag + '/' + name, got, minimum)

    def fn(self, f):
        self.rep.fn(f)

    def assume(self, text):
        self.rep.assume(text)

    def sample(self, obj):
        self.rep.sample(obj)

    def __getattr__(self, name):
        return getattr(self.rep, name)


def run_included(ctx, rep, modules):
    """run the rule sets of the listed property modules under `rep` (umbrella properties)"""
    import importlib
    for name in modules:
        mod = importlib.import_module(name)
        mod.run(ctx, SubReport(rep, name.upper()))


class Ctx:
    def __init__(self, prop, tier):
        self.prop = prop
        self.tier = tier
        self._facts = {}
        with Lock():
            ensure_driver()
        self.tree = tree_hash()
        self.rebuilt = []

    def facts(self, cfg='default'):
        if cfg not in self._facts:
            from facts import Facts
            d, th, rebuilt = build_facts(cfg, self.tree)
            if rebuilt:
                self.rebuilt.append(cfg)
            self._facts[cfg] = Facts(d)
        return self._facts[cfg]


def load_known():
    p = os.path.join(VERIF, 'known_findings.json')
    if not os.path.exists(p):
        return []
    with open(p) as fh:
        return json.load(fh).get('findings', [])


def run_property(prop, tier, replay=None, seed=0):
    t0 = time.time()
    sys.path.insert(0, os.path.join(VERIF, 'rules'))
    mod = importlib.import_module(prop.lower())
    ctx = Ctx(prop, tier)
    rep = Report(prop, tier)
    mod.run(ctx, rep)
    rep.cfgs = sorted(ctx._facts.keys())
    known = [k for k in load_known() if k.get('property') == prop and k.get('status') == 'known']
    known_keys = {k['key']: k for k in known}
    new = []
    printed_known = set()
    for v in rep.violations:
        if v['key'] in known_keys:
            if v['key'] not in printed_known:
                printed_known.add(v['key'])
                print('KNOWN-FINDING: property=%s %s — %s' % (prop, v['key'], known_keys[v['key']].get('what', v['msg'])))
        else:
            new.append(v)
    # a listed known finding that no longer fires is simply silent (nothing to report)
    os.makedirs(os.path.join(WORK, 'replay'), exist_ok=True)
    for i, v in enumerate(new):
        path = os.path.join(WORK, 'replay', '%s-%d.json' % (prop, i))
        with open(path, 'w') as fh:
            json.dump({'property': prop, 'tier': tier, 'tree': ctx.tree, **v}, fh, indent=1, default=str)
        if replay is None:
            print('VIOLATION property=%s replay=%s' % (prop, path))
            print('  rule=%s key=%s' % (v['rule'], v['key']))
            print('  %s' % v['msg'])
            if v.get('where'):
                print('  at %s' % v['where'])
    if replay is not None:
        with open(replay) as fh:
            want = json.load(fh)
        hit = [v for v in rep.violations if v['key'] == want.get('key')]
        if hit:
            for v in hit:
                print('VIOLATION property=%s replay=%s' % (prop, replay))
                print('  rule=%s key=%s\n  %s\n  at %s' % (v['rule'], v['key'], v['msg'], v.get('where')))
                if v.get('detail'):
                    print('  detail: %s' % json.dumps(v['detail'], default=str)[:4000])
            return 1
        print('replay: instance %s no longer violates on the current tree' % want.get('key'))
        return 0

    meta = getattr(mod, 'META', {})
    level = meta.get('level', 'other')
    n_ok = sum(1 for i in rep.instances if i[2] == 'ok')
    n_all = len(rep.instances)
    distinct = len({(i[0], str(i[1])) for i in rep.instances if i[4]})
    cov = {
        'evaluations': n_all,
        'distinct_nontrivial': distinct,
        'rule': meta.get('rule', 'one evaluation per rule instance (call site, function exit class, table cell) found in the MIR of /repo; non-trivial = the instance had at least one path or cell to decide'),
        'samples': rep.samples or [{'rule': i[0], 'instance': str(i[1]), 'verdict': i[2]} for i in rep.instances[:8]],
        'explanation': meta.get('explanation', ''),
        'obligations': n_all,
        'discharged': n_ok + sum(1 for v in rep.violations if v['key'] in known_keys),
        'checker_cmd': './check %s --tier %s' % (prop, tier),
        'trusted_base': ['rustc nightly MIR construction (mir-opt-level=0)', 'mirfacts fact extraction', 'reference tables under rules/reference', 'python rule engine'],
        'functions_analysed': len(rep.functions),
        'cfgs': rep.cfgs,
        'floors': [{'rule': n, 'matched': g, 'minimum': m} for n, g, m in rep.floors],
        'tree_hash': ctx.tree,
        'facts_rebuilt_this_run': ctx.rebuilt,
        'known_findings_matched': sorted(printed_known),
        'decides': meta.get('decides', ''),
        'does_not_decide': meta.get('does_not_decide', ''),
    }
    ev = {
        'property_id': prop,
        'tier': tier,
        'seed': seed,
        'level': level,
        'coverage': cov,
        'assumptions': rep.assumptions + meta.get('assumptions', []),
        'wall_s': round(time.time() - t0, 2),
        'violations': len(new),
    }
    # the self-test tools run the checks on deliberately broken trees: their records must not
    # replace the evidence of the real tree
    evdir = os.environ.get('VERIF_EVIDENCE_DIR') or os.path.join(VERIF, 'evidence')
    os.makedirs(evdir, exist_ok=True)
    with open(os.path.join(evdir, prop + '.json'), 'w') as fh:
        json.dump(ev, fh, indent=1, default=str)
    print('%s tier=%s: %d rule instances, %d ok, %d new violation(s), %d known; %d functions; cfgs=%s; %.1fs' % (
        prop, tier, n_all, n_ok, len(new), len(printed_known), len(rep.functions), ','.join(rep.cfgs), time.time() - t0))
    return 1 if new else 0
