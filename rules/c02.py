"""C02 — a transaction is rejected iff the specification rejects it, and rejection has no effect.

R1 rule table: for validate_block_env, validate_tx, validate_tx_against_state and
   validate_initial_tx_gas the set of (error variant, fork gate, cfg switch, comparison with
   direction) that reaches each error is extracted (dominating guards specific to the error site)
   and compared with a reference list of validity rules written from the EIPs; a missing rule, an
   additional condition on a rule, a changed comparison direction or gate, and an unknown rejection
   are all reported;
R2 no effect: every exit of Evm::transact / transact_preverified / preverify_transaction passes
   through Evm::clear (directly or through `inspect_err(|_| self.clear())` on the `?` path); the
   mainnet clear handler resets the error slot and the journal; JournaledState::clear rebuilds the
   whole struct; no validation handler can reach DatabaseCommit::commit.
"""
import re

from cfg import cfg_of, Origins
from ruletable import rule_table

META = {
    'level': 'other',
    'decides': 'the table of validity rules (which error, under which fork gate and cfg switch, with which comparison and direction) against a reference list from the EIPs; that every exit of the transaction entry points clears the journal and error slot; that validation cannot commit to the database',
    'does_not_decide': 'arithmetic inside effective_gas_price / calc_data_fee / get_blob_gasprice; equality of later transactions\' behaviour (C31)',
    'explanation': 'Dominating-guard extraction per error site with canonicalised comparisons (A7), compared with a reference rule list; must-pass-through on the CFG of the entry points with the inspect_err idiom summarised; call-graph reachability.',
}


def P(prefix, suffix=''):
    """pattern: literal starts with prefix and ends with suffix"""
    return ('pat', prefix, suffix)


# reference validity rules: (function, variant, required literals, EIP / note)
RULES = [
    ('validate_block_env', 'PrevrandaoNotSet', ['enabled(MERGE)', 'is_none(block.prevrandao)'], 'EIP-4399'),
    ('validate_block_env', 'ExcessBlobGasNotSet', ['enabled(CANCUN)', 'is_none(block.blob_excess_gas_and_price)'], 'EIP-4844'),
    ('validate_tx', 'InvalidChainId', ['discr(tx.chain_id)=Some', 'ne(cfg.chain_id,tx.chain_id@Some.0)'], 'EIP-155'),
    ('validate_tx', 'CallerGasLimitMoreThanBlock', ['!is_block_gas_limit_disabled(cfg)', 'gt(tx.gas_limit,block.gas_limit)'], 'gas limit <= block gas limit'),
    ('validate_tx', 'AccessListNotSupported', ['!enabled(BERLIN)', '!is_empty(tx.access_list)'], 'EIP-2930'),
    ('validate_tx', 'PriorityFeeGreaterThanMaxFee', ['enabled(LONDON)', 'discr(tx.gas_priority_fee)=Some', 'gt(tx.gas_priority_fee@Some.0,tx.gas_price)'], 'EIP-1559'),
    ('validate_tx', 'GasPriceLessThanBasefee', ['enabled(LONDON)', '!is_base_fee_check_disabled(cfg)', 'gt(block.basefee,effective_gas_price(self))'], 'EIP-1559'),
    ('validate_tx', 'CreateInitCodeSizeLimit', ['enabled(SHANGHAI)', 'is_create(tx.transact_to)', P('gt(len(tx.data),', 'MAX_INITCODE_SIZE))')], 'EIP-3860'),
    ('validate_tx', 'BlobVersionedHashesNotSupported', ['!enabled(CANCUN)'], 'EIP-4844 fields before Cancun'),
    ('validate_tx', 'BlobVersionedHashesNotSupported', ['discr(tx.max_fee_per_blob_gas)=None', '!is_empty(tx.blob_hashes)'], 'blob hashes without max_fee_per_blob_gas'),
    ('validate_tx', 'BlobGasPriceGreaterThanMax', ['discr(tx.max_fee_per_blob_gas)=Some', 'gt(get_blob_gasprice(block)@Some,tx.max_fee_per_blob_gas@Some.0)'], 'EIP-4844'),
    ('validate_tx', 'EmptyBlobs', ['discr(tx.max_fee_per_blob_gas)=Some', 'is_empty(tx.blob_hashes)'], 'EIP-4844'),
    ('validate_tx', 'BlobCreateTransaction', ['discr(tx.max_fee_per_blob_gas)=Some', 'is_create(tx.transact_to)'], 'EIP-4844'),
    ('validate_tx', 'BlobVersionNotSupported', ['discr(tx.max_fee_per_blob_gas)=Some', P('ne(VERSIONED_HASH_VERSION_KZG,index(')], 'EIP-4844'),
    ('validate_tx', 'TooManyBlobs', ['discr(tx.max_fee_per_blob_gas)=Some', 'enabled(CANCUN)', 'gt(len(tx.blob_hashes),blob_max_count(cfg,SPEC_ID))'], 'EIP-4844 / 7691'),
    ('validate_tx', 'AuthorizationListNotSupported', ['!enabled(PRAGUE)', 'is_some(tx.authorization_list)'], 'EIP-7702'),
    ('validate_tx', 'EmptyAuthorizationList', ['discr(tx.authorization_list)=Some', 'is_empty(tx.authorization_list@Some.0)'], 'EIP-7702'),
    ('validate_tx', 'AuthorizationListInvalidFields', ['discr(tx.authorization_list)=Some'], 'EIP-7702: no blob fields'),
    ('validate_tx', '*', ['discr(tx.authorization_list)=Some', 'is_create(tx.transact_to)'], 'EIP-7702: destination must not be null (no create transaction)'),
    ('validate_tx_against_state', 'RejectCallerWithCode', ['!is_eip3607_disabled(cfg)', '!is_empty(account.info.code@Some)', '!is_eip7702(account.info.code@Some)'], 'EIP-3607 / 7702'),
    ('validate_tx_against_state', 'NonceTooHigh', ['discr(tx.nonce)=Some', 'discr(cmp(tx.nonce@Some.0,account.info.nonce))=Greater'], 'nonce'),
    ('validate_tx_against_state', 'NonceTooLow', ['discr(tx.nonce)=Some', 'discr(cmp(tx.nonce@Some.0,account.info.nonce))=Less'], 'nonce'),
    ('validate_tx_against_state', 'NonceOverflowInTransaction', ['discr(tx.nonce)=Some', P('eq(', '')], 'EIP-2681: nonce < 2^64-1'),
    ('validate_tx_against_state', 'OverflowPaymentInTransaction', [], 'max cost overflow'),
    ('validate_tx_against_state', 'OverflowPaymentInTransaction', ['enabled(CANCUN)'], 'max cost + max blob fee overflow (EIP-4844)'),
    ('validate_tx_against_state', 'LackOfFundForMaxFee', ['!is_balance_check_disabled(cfg)', P('gt(', ',account.info.balance)')], 'balance >= max cost'),
    ('validate_initial_tx_gas', 'CallGasCostMoreThanGasLimit', [P('gt(calculate_initial_tx_gas(', '.initial_gas,tx.gas_limit)')], 'intrinsic gas'),
    ('validate_initial_tx_gas', 'GasFloorMoreThanGasLimit', ['enabled(PRAGUE)', P('gt(calculate_initial_tx_gas(', '.floor_gas,tx.gas_limit)')], 'EIP-7623'),
]
FUNCS = {
    'validate_block_env': ('revm_primitives::env::Env::validate_block_env', 'InvalidHeader'),
    'validate_tx': ('revm_primitives::env::Env::validate_tx', 'InvalidTransaction'),
    'validate_tx_against_state': ('revm_primitives::env::Env::validate_tx_against_state', 'InvalidTransaction'),
    'validate_initial_tx_gas': ('revm::handler::mainnet::validation::validate_initial_tx_gas', 'InvalidTransaction'),
}


def negate(l):
    if l.startswith('!'):
        return l[1:]
    m = re.match(r'^(gt|ge|eq|ne)\((.*)\)$', l)
    if m:
        op, body = m.group(1), m.group(2)
        # split at top-level comma
        depth = 0
        idx = None
        for i, ch in enumerate(body):
            if ch in '([':
                depth += 1
            elif ch in ')]':
                depth -= 1
            elif ch == ',' and depth == 0:
                idx = i
                break
        if idx is not None:
            a, b = body[:idx], body[idx + 1:]
            if op == 'gt':
                return 'ge(%s,%s)' % (b, a)
            if op == 'ge':
                return 'gt(%s,%s)' % (b, a)
            if op == 'eq':
                return 'ne(%s,%s)' % (a, b)
            if op == 'ne':
                return 'eq(%s,%s)' % (a, b)
    if l.endswith('=Some'):
        return l[:-5] + '=None'
    if l.endswith('=None'):
        return l[:-5] + '=Some'
    if l.startswith('discr('):
        return None
    return '!' + l


def match(req, lit):
    if isinstance(req, tuple):
        return lit.startswith(req[1]) and lit.endswith(req[2])
    return req == lit


def run(ctx, rep):
    fx = ctx.facts('default')
    n_sites = 0
    for fname, (nq, enum) in FUNCS.items():
        f = fx.fns.get(nq)
        if f is None:
            rep.undecided('R1-rule-table', fname, '%s not found' % nq)
            continue
        rep.fn(f)
        table, common = rule_table(fx, f, enum)
        rules = [r for r in RULES if r[0] == fname]
        # literals that may accompany a rule: the pass-conditions of the other rules of this function
        allowed_extra = set()
        pats = []
        for _f, _v, req, _n in rules:
            for r in req:
                if isinstance(r, tuple):
                    pats.append(r)
                else:
                    n = negate(r)
                    if n:
                        allowed_extra.add(n)
                    allowed_extra.add(r)
        # pass-conditions of rules whose own condition is a disjunction (not visible as one guard)
        allowed_extra |= {'!is_some(tx.max_fee_per_blob_gas)', 'is_empty(tx.blob_hashes)'}
        used_sites = set()
        for _f, variant, req, note in rules:
            cands = []
            for v, sites in table.items():
                if variant != '*' and v != variant:
                    continue
                for lits, bi in sites:
                    if all(any(match(r, l) for l in lits) for r in req):
                        cands.append((v, lits, bi))
            key = '%s:%s%s' % (fname, variant if variant != '*' else 'eip7702-create-destination', '' if req else '')
            if variant == 'OverflowPaymentInTransaction' and req:
                key += ':blob-fee'
            if variant == 'BlobVersionedHashesNotSupported':
                key += ':' + ('pre-cancun' if '!enabled(CANCUN)' in req else 'no-max-fee')
            if not cands:
                have = [sorted(l) for l, _ in table.get(variant, [])]
                rep.violation('R1-rule-table', key + ':missing',
                              'no rejection implements the rule "%s" (%s): expected an error%s under %s; sites of that variant: %s' % (
                                  note, variant, '' if variant == '*' else ' ' + variant, [r if isinstance(r, str) else r[1] + '...' + r[2] for r in req], have), f.where())
                continue
            n_sites += 1
            # prefer a site no other rule has claimed, and the most specific match last
            cands.sort(key=lambda c: (c[2] in used_sites, len(c[1])))
            v, lits, bi = cands[0]
            used_sites.add(bi)
            extras = []
            for l in lits:
                if any(match(r, l) for r in req):
                    continue
                if l in allowed_extra or any(match(p, l) or (negate(l) and match(p, negate(l))) for p in pats):
                    continue
                if l.startswith('discr(next(') or l.startswith('discr(ok_or(') or l.startswith('discr(checked_'):
                    continue   # iterator / `?` plumbing
                extras.append(l)
            if extras:
                rep.violation('R1-rule-table', key + ':extra-condition',
                              'the rule "%s" (%s) is additionally conditioned on %s: transactions that break the rule while that condition is false are accepted' % (note, v, extras), f.where(bi))
            else:
                rep.ok('R1-rule-table', key, sorted(lits))
        for v, sites in table.items():
            for lits, bi in sites:
                if bi not in used_sites:
                    rep.violation('R1-rule-table', '%s:%s:unexpected-rule' % (fname, v),
                                  '%s rejects with %s under %s, which corresponds to no validity rule of the reference list' % (fname, v, sorted(lits)), f.where(bi))
    rep.floor('matched-rules', n_sites, 24)
    check_constants(fx, rep)
    check_max_cost(fx, rep)
    check_clear_paths(fx, rep)
    check_clear_handlers(fx, rep)
    check_no_commit(fx, rep)
    # the amount validate_initial_tx_gas compares the gas limit with: intrinsic gas per fork, the
    # calldata token count and the EIP-7623 floor (C14's formula rules)
    import engine
    import c14
    c14.run_linear(ctx, engine.SubReport(rep, 'C14'))
    rep.assume('cfg switches (disable_block_gas_limit, disable_base_fee, disable_eip3607, disable_balance_check) are test/dev features outside the specification; they appear as explicit literals of the rule they disable')


def check_constants(fx, rep):
    for name, want in (('MAX_INITCODE_SIZE', 2 * 0x6000), ('VERSIONED_HASH_VERSION_KZG', 1), ('MAX_CODE_SIZE', 0x6000)):
        got = fx.const_val(name)
        if got is None:
            rep.ok('R1-constants', name + ':absent', nontrivial=False)
        elif got == want:
            rep.ok('R1-constants', name, want)
        else:
            rep.violation('R1-constants', name, '%s = %s, specification %s' % (name, got, want))


def check_max_cost(fx, rep):
    """the maximum cost compared with the balance is gas_limit * gas_price + value (+ max blob fee from CANCUN)"""
    f = fx.fns.get('revm_primitives::env::Env::validate_tx_against_state')
    if f is None:
        return
    og = Origins(f, fx)
    from cfg import guards_of
    mul = False
    val = False
    blob = False
    bodies = [f] + fx.closures_of(f.nq)
    for body in bodies:
        ogb = og if body is f else Origins(body, fx)
        for bi, t in body.calls():
            nm = (t.callee or '').split('::')[-1]
            if nm == 'checked_mul' and len(t.args) == 2:
                a = ogb.of_operand(t.args[0])
                b = ogb.of_operand(t.args[1])
                if all(x.path[-2:] == ('.tx', '.gas_limit') for x in a) and all(x.path[-2:] == ('.tx', '.gas_price') for x in b):
                    mul = True
            if nm == 'checked_add' and len(t.args) == 2:
                b = ogb.of_operand(t.args[1])
                if all(x.path[-1:] == ('.value',) or x.path[-2:] == ('.tx', '.value') for x in b):
                    val = True
                def is_max_fee(x):
                    # Env::calc_max_data_fee(self) [= max_fee_per_blob_gas * blob gas], possibly through unwrap_or_default
                    if x.root[0] != 'call':
                        return False
                    if x.root[1].endswith('Env::calc_max_data_fee'):
                        return True
                    if x.root[1].endswith(('unwrap_or_default', 'unwrap_or')):
                        tt = body.blocks[x.root[2]].term
                        return all(is_max_fee(y) for y in ogb.of_operand(tt.args[0]))
                    return False
                if body is f and b and all(is_max_fee(x) for x in b):
                    for g in guards_of(f, og, bi):
                        for d in g.discr:
                            if d.root[0] == 'call' and d.root[1].endswith('Spec::enabled') and g.truth() is True:
                                blob = True
    if mul and val and blob:
        rep.ok('R1-max-cost', 'validate_tx_against_state', 'gas_limit*gas_price + value (+ max data fee under CANCUN), all checked_*')
    else:
        rep.violation('R1-max-cost', 'validate_tx_against_state', 'maximum cost is not checked gas_limit*gas_price (%s) + value (%s) + max blob fee under CANCUN (%s)' % (mul, val, blob), f.where())


def check_clear_paths(fx, rep):
    EVM = 'revm::evm::Evm::'
    CLEAR = EVM + 'clear'
    for name in ('transact', 'transact_preverified', 'preverify_transaction'):
        f = fx.fns.get(EVM + name)
        if f is None:
            rep.undecided('R2-clear-on-all-exits', name, 'not found')
            continue
        rep.fn(f)
        cfg = cfg_of(f)
        og = Origins(f, fx)
        clear_blocks = {bi for bi, t in f.calls() if t.target_fn == CLEAR}
        # `?` on inspect_err(|_| self.clear()): the Break edge is covered by the closure
        covered_edges = set()
        for b in f.blocks:
            if b.cleanup or b.term.kind != 'switch':
                continue
            for o in og.of_operand(b.term.switch_discr()):
                if o.root[0] != 'discr':
                    continue
                for x in o.root[1]:
                    if x.root[0] == 'call' and x.root[1] == 'core::result::Result::inspect_err' and x.path == ('?',):
                        t = f.blocks[x.root[2]].term
                        clos = og.of_operand(t.args[1])
                        ok = False
                        for c in clos:
                            if c.root[0] == 'agg' and c.root[1].startswith(f.nq + '::{closure'):
                                cf = fx.fns.get(c.root[1])
                                if cf is not None and any(tt.target_fn == CLEAR for _, tt in cf.calls()):
                                    ok = True
                        if ok:
                            arms = dict(b.term.d['arms'])
                            if 1 in arms:
                                covered_edges.add((b.i, arms[1]))
        bad = cfg.reach_set(0, banned_blocks=clear_blocks, banned_edges=covered_edges)
        leaks = [r for r in cfg.returns if r in bad]
        if leaks:
            rep.violation('R2-clear-on-all-exits', name, 'Evm::%s can return without passing Evm::clear (journal, logs, transient storage and the error slot would leak into the next transaction)' % name, f.where(leaks[0]))
        else:
            rep.ok('R2-clear-on-all-exits', name, '%d direct clear call(s), %d `inspect_err(clear)?` exit(s)' % (len(clear_blocks), len(covered_edges)))
    f = fx.fns.get(CLEAR)
    if f is None or not any((t.target_fn or '').endswith('PostExecutionHandler::clear') for _, t in f.calls()):
        rep.violation('R2-clear-on-all-exits', 'Evm::clear', 'Evm::clear does not invoke the post-execution clear handle')
    else:
        rep.ok('R2-clear-on-all-exits', 'Evm::clear', 'calls post_execution().clear')


def check_clear_handlers(fx, rep):
    f = fx.fns.get('revm::handler::mainnet::post_execution::clear')
    if f is None:
        rep.undecided('R2-clear-handler', 'mainnet::clear', 'not found')
    else:
        rep.fn(f)
        names = {(t.target_fn or '').split('::')[-1] for _, t in f.calls()}
        tf = {t.target_fn for _, t in f.calls()}
        if 'revm::journaled_state::JournaledState::clear' in tf and 'take_error' in names:
            rep.ok('R2-clear-handler', 'mainnet::clear', 'take_error + JournaledState::clear')
        else:
            rep.violation('R2-clear-handler', 'mainnet::clear', 'the clear handler does not reset both the error slot and the journal (calls: %s)' % sorted(names), f.where())
    g = fx.fns.get('revm::journaled_state::JournaledState::clear')
    adt = fx.adts.get('revm::journaled_state::JournaledState')
    if g is None or adt is None:
        rep.undecided('R2-clear-handler', 'JournaledState::clear', 'not found')
        return
    rep.fn(g)
    og = Origins(g, fx)
    # `*self = Self::new(spec, empty)` : a whole-struct store whose value comes from JournaledState::new
    whole = False
    for b in g.blocks:
        for s in b.stmts:
            if s.kind == 'assign' and s.place.b == 1 and s.place.pr == ('*',):
                oo = og._of_rvalue(s.rv, b.i, 0, 8)
                if all(o.root[0] == 'call' and o.root[1].endswith('JournaledState::new') for o in oo):
                    whole = True
    new = fx.fns.get('revm::journaled_state::JournaledState::new')
    fresh = False
    if new is not None:
        ogn = Origins(new, fx)
        for b in new.blocks:
            for s in b.stmts:
                if s.kind == 'assign' and s.rv.rv == 'agg' and s.rv.d.get('adt', '').endswith('JournaledState'):
                    names = s.rv.d['names']
                    fields = {f['name'] for f in adt['variants'][0]['fields']}
                    # every field except spec / warm_preloaded_addresses is built from nothing (no parameter)
                    okf = True
                    for nm, op in zip(names, s.rv.ops):
                        oo = ogn.of_operand(op)
                        from_param = any(o.root[0] == 'param' for o in oo)
                        if nm in ('spec', 'warm_preloaded_addresses'):
                            continue
                        if from_param:
                            okf = False
                    fresh = okf and set(names) == fields
    # the warm set handed to new() by clear() is an empty default
    empty_warm = False
    for bi, t in g.calls():
        if (t.target_fn or '').endswith('JournaledState::new'):
            oo = og.of_operand(t.args[1])
            empty_warm = all(o.root[0] == 'call' and o.root[1].endswith('default') for o in oo)
    if whole and fresh and empty_warm:
        rep.ok('R2-clear-handler', 'JournaledState::clear', '*self = new(spec, empty): all %d fields rebuilt' % len(adt['variants'][0]['fields']))
    else:
        rep.violation('R2-clear-handler', 'JournaledState::clear', 'JournaledState::clear does not rebuild the whole state (whole-struct store: %s, fresh fields: %s, empty warm set: %s)' % (whole, fresh, empty_warm), g.where())


def check_no_commit(fx, rep):
    roots = ['revm::handler::mainnet::validation::validate_env', 'revm::handler::mainnet::validation::validate_tx_against_state',
             'revm::handler::mainnet::validation::validate_initial_tx_gas']
    seen = set()
    work = [r for r in roots if r in fx.fns]
    hit = None
    depth = {r: 0 for r in work}
    while work:
        n = work.pop()
        if n in seen:
            continue
        seen.add(n)
        f = fx.fns.get(n)
        if f is None or depth.get(n, 0) > 6:
            continue
        for bi, t in f.calls():
            for nm in t.names():
                if nm.endswith('DatabaseCommit::commit') or nm.endswith('::commit'):
                    hit = (n, nm)
                if nm in fx.fns and nm not in seen:
                    depth[nm] = depth.get(n, 0) + 1
                    work.append(nm)
    if hit:
        rep.violation('R2-no-commit', 'validation', 'a validation handler reaches %s through %s' % (hit[1], hit[0]))
    else:
        rep.ok('R2-no-commit', 'validation', '%d functions reachable from the validation handlers, none commits' % len(seen))
