"""C05 — each opcode and precompile exists exactly from its activating hardfork (exhaustive table).

For all 256 bytes x all SpecId variants, active(byte, spec) composed from extracted pieces:
  (i)   run-time SpecId -> Spec type dispatch of spec_to_generic! (Handler::mainnet_with_spec),
  (ii)  each Spec type's SPEC_ID constant,
  (iii) SpecId::enabled = `our as u8 >= other as u8` and the discriminant order,
  (iv)  the handler the instruction table dispatches the byte to, with its fork gate folded under
        the bound SPEC_ID (inline-const `check!` gates, SPEC::enabled branches, const generics),
is compared cell by cell with the reference table (rules/reference/opcodes.py, written from the
Yellow Paper / EIPs).  Unassigned bytes dispatch to the unknown-opcode handler; EOF-only opcodes are
guarded by the is_eof test; gated-off results are in the error class (all gas consumed).
Precompiles: PrecompileSpecId::from_spec_id, Precompiles::new and the per-fork builder sets
(constants' addresses by const evaluation) give address-in-set(spec) for every SpecId.
"""
import os
import sys

sys.path.insert(0, os.path.join(os.path.dirname(os.path.abspath(__file__)), 'reference'))
from cfg import cfg_of, Origins, guards_of   # noqa: E402
from facts import strip_generics              # noqa: E402
from tables import SpecInfo, GateFolder, blocks_setting_result, match_table, ref_ge, REF_ORDER, REF_ORDER_OP, SPECID  # noqa: E402
import opcodes as REF                          # noqa: E402
from c21 import enum_predicate, const_bytes    # noqa: E402

META = {
    'level': 'proof',
    'decides': 'the complete opcode activation table (256 bytes x every SpecId) and the precompile address table (every address x every SpecId) as composed from the spec dispatch, SPEC_ID constants, the enabled() comparison, the instruction table and each handler\'s fork gate; EOF-only guards; error class of gated-off results; that every run-time fork gate of the workspace asks `current spec >= named fork` (operand orientation)',
    'does_not_decide': 'what an active opcode or precompile computes (C01, C03, C23)',
    'explanation': 'Table extraction from MIR (switch on the opcode byte, switch on SpecId, inline-const gates evaluated by partial evaluation) compared cell by cell with an independently written reference; obligations = table cells.',
}

IT = 'revm_interpreter::opcode::instruction'
IR = 'revm_interpreter::instruction_result::InstructionResult'


def read_instruction_table(fx, rep):
    f = fx.fns.get(IT)
    if f is None:
        rep.undecided('table', 'instruction', 'opcode::instruction not found')
        return None
    rep.fn(f)
    sw = f.blocks[0].term
    if sw.kind != 'switch' or sw.switch_discr().place is None or sw.switch_discr().place.b != 1:
        rep.undecided('table', 'instruction', 'instruction() is not a switch on the opcode byte', f.where())
        return None

    def leaf(bi):
        for s in f.blocks[bi].stmts:
            if s.kind == 'assign' and s.place.b == 0 and s.rv.rv == 'cast' and s.rv.ops[0].kind == 'const' and 'fn' in s.rv.ops[0].k:
                k = s.rv.ops[0].k
                return strip_generics(k['fn']), k.get('fargs', [])
        return None
    table = {}
    arms = dict(sw.d['arms'])
    default = leaf(sw.d['otherwise'])
    for b in range(256):
        if b in arms:
            table[b] = leaf(arms[b])
        else:
            table[b] = default
    return table, default


def const_params_of(fx, handler, fargs):
    """bind const generic parameters of the handler from the table entry's generic args"""
    f = fx.fns.get(handler)
    cp = {}
    if f is None:
        return cp
    names = f.generics
    for n, a in zip(names, fargs):
        if a.startswith('const '):
            v = a[6:].strip()
            if v in ('true', 'false'):
                cp[n] = (v == 'true')
            else:
                try:
                    cp[n] = int(v.split('_')[0])
                except ValueError:
                    pass
    return cp


def eof_guard_ok(fx, f):
    """every effect of f is behind the is_eof == true edge; the other edge sets EOFOpcodeDisabledInLegacy"""
    cfg = cfg_of(f)
    og = Origins(f, fx)
    # two accepted guards: `is_eof` -> EOFOpcodeDisabledInLegacy (require_eof!) and, for RETURNCONTRACT,
    # `is_eof_init` -> ReturnContractInNotInitEOF (require_init_eof!; the flag is only ever set on an
    # EOF create frame)
    dis = blocks_setting_result(f, 'EOFOpcodeDisabledInLegacy')
    field = '.is_eof'
    if not dis:
        dis = blocks_setting_result(f, 'ReturnContractInNotInitEOF')
        field = '.is_eof_init'
    if not dis:
        return False, 'no EOFOpcodeDisabledInLegacy / ReturnContractInNotInitEOF result'
    for b in f.blocks:
        if b.cleanup or b.term.kind != 'switch':
            continue
        d = og.of_operand(b.term.switch_discr())
        if not any(o.root == ('param', 1) and o.path == (field,) for o in d):
            continue
        arms = dict(b.term.d['arms'])
        if 0 not in arms:
            continue
        false_t = arms[0]
        true_t = b.term.d['otherwise']
        if false_t not in [x for x in dis] and not any(x in cfg.reach_set(false_t, banned_blocks={true_t}) for x in dis):
            continue
        r = cfg.reach_set(0, banned_edges={(b.i, true_t)})
        calls = [x for x in r if f.blocks[x].term.kind == 'call']
        if calls:
            return False, 'a call is reachable without passing the is_eof test'
        return True, 'guarded'
    return False, 'no is_eof test'


def run(ctx, rep):
    cfg_names = ['default'] if ctx.tier == 'quick' else ['default', 'optimism']
    for cfgn in cfg_names:
        fx = ctx.facts(cfgn)
        order = REF_ORDER if cfgn == 'default' else REF_ORDER_OP
        suffix = '' if cfgn == 'default' else '@optimism'
        run_cfg(fx, rep, order, suffix, cfgn)


def check_gate_orientation(fx, rep, sfx=''):
    """every run-time fork gate asks `current spec >= named fork`: in SpecId::enabled(our, other) and
    our.is_enabled_in(other) the named fork constant is the second operand.  A named fork in the
    first position with a run-time second operand is the gate turned round (`FORK >= current`)."""
    from cfg import Origins
    n = 0
    for g in fx.fns_all:
        if '::test' in g.nq or not g.nq.startswith('revm') or g.kind == 'Promoted':
            continue
        og = None
        for bi, t in g.calls():
            c = t.target_fn or ''
            if not (c.endswith('SpecId::enabled') or c.endswith('SpecId::is_enabled_in')) or len(t.args) != 2:
                continue
            og = og or Origins(g, fx)

            def named(op):
                oo = og.of_operand(op)
                return bool(oo) and all((o.root[0] == 'agg' and str(o.root[1]).endswith('SpecId') and not o.path) or
                                        (o.root[0] == 'const' and o.root[1] is not None and not o.path) for o in oo)
            n += 1
            if named(t.args[0]) and not named(t.args[1]):
                fork = [o.root[2] for o in og.of_operand(t.args[0]) if o.root[0] == 'agg']
                rep.violation('gate-orientation', g.nq.split('::')[-1] + sfx, '%s tests `%s is enabled in <current spec>` - the gate is reversed (it must ask whether the current spec has reached the fork)' % (g.nq, fork[0] if fork else 'a named fork'), g.where(bi))
    rep.floor('gate-calls' + sfx, n, 40)
    if n:
        rep.ok('gate-orientation', 'all' + sfx, '%d gate calls ask current >= fork' % n)


def run_cfg(fx, rep, order, sfx, cfgn):
    si = SpecInfo(fx)
    if not si.ok:
        for p in si.problems:
            rep.undecided('spec-map', 'extract' + sfx, p)
        return
    si.check_order(rep, order)
    si.check_enabled_semantics(rep)
    for s in si.discr:
        eff = si.effective(s)
        if eff is None:
            rep.undecided('spec-map', s + sfx, 'no effective SPEC_ID for SpecId::%s' % s)
    rep.sample({'spec_map' + sfx: {s: si.effective(s) for s in si.discr}})

    r = read_instruction_table(fx, rep)
    if r is None:
        return
    table, default = r
    if default is None or not default[0].endswith('control::unknown'):
        rep.violation('table', 'default-arm' + sfx, 'unassigned opcode bytes do not dispatch to control::unknown but to %s' % (default,))
    assigned = sum(1 for b in range(256) if table[b] != default)
    rep.floor('assigned-opcodes' + sfx, assigned, 168)

    # the table builder fills every slot from instruction(i)
    check_table_builder(fx, rep, sfx)
    check_gate_orientation(fx, rep, sfx)

    # handlers of fixed-result opcodes
    for hname, variant in (('revm_interpreter::instructions::control::unknown', 'OpcodeNotFound'),
                           ('revm_interpreter::instructions::control::invalid', 'InvalidFEOpcode')):
        h = fx.fns.get(hname)
        if h is None or not blocks_setting_result(h, variant):
            rep.violation('table', hname.split('::')[-1] + '-result' + sfx, '%s does not set %s' % (hname, variant))
        else:
            rep.fn(h)
            rep.ok('table', hname.split('::')[-1] + '-result' + sfx, variant)

    cells = 0
    bad_cells = 0
    gated = set()
    eof_checked = 0
    specs = [s for s in order if s in si.discr]
    for b in range(256):
        ent = table[b]
        ref = REF.OPCODES.get(b)
        if ent is None:
            rep.undecided('activation', 'byte-%02X%s' % (b, sfx), 'table entry unreadable')
            continue
        hname, fargs = ent
        h = fx.fns.get(hname)
        if ref is None:
            # must be undefined for every spec
            for s in specs:
                cells += 1
            if ent != default:
                bad_cells += 1
                rep.violation('activation', 'byte-%02X:unassigned%s' % (b, sfx),
                              'byte 0x%02X is not an opcode in any fork but the table dispatches it to %s' % (b, hname))
            continue
        name, fork, delta, alpha, gas, flags = ref
        if ent == default:
            bad_cells += 1
            rep.violation('activation', '%s:missing%s' % (name, sfx), 'opcode 0x%02X %s is dispatched to the unknown-opcode handler' % (b, name))
            cells += len(specs)
            continue
        if h is None:
            rep.undecided('activation', '%s:handler%s' % (name, sfx), 'handler %s has no MIR' % hname)
            continue
        rep.fn(h)
        if 'eof' in flags:
            ok, why = eof_guard_ok(fx, h)
            eof_checked += 1
            cells += len(specs)
            if ok:
                rep.ok('eof-only-guard', name + sfx, 'is_eof test dominates every effect')
            else:
                bad_cells += 1
                rep.violation('eof-only-guard', name + sfx, 'EOF-only opcode %s is executable in legacy code: %s' % (name, why), h.where())
            continue
        cp = const_params_of(fx, hname, fargs)
        na = blocks_setting_result(h, 'NotActivated')
        row_ok = True
        for s in specs:
            cells += 1
            eff = si.effective(s)
            if eff is None:
                continue
            gf = GateFolder(fx, si, eff, cp)
            reach, folded = gf.folded_reach(h)
            na_reach = [x for x in na if x in reach]
            # the gate itself may be a run-time call (`SPEC::enabled(X)`): it is not an effect
            normal = [x for x in reach if h.blocks[x].term.kind == 'call'
                      and not (h.blocks[x].term.callee or '').endswith(('Spec::enabled', 'SpecId::is_enabled_in', 'SpecId::enabled'))]
            if na_reach and normal:
                rep.undecided('activation', '%s:%s%s' % (name, s, sfx), 'fork gate of %s does not fold under %s' % (hname, eff), h.where(na_reach[0]))
                row_ok = False
                continue
            active = not na_reach
            want = ref_ge(s, fork, order)
            if na_reach:
                gated.add(hname)
            if active != want:
                row_ok = False
                bad_cells += 1
                rep.violation('activation', '%s:spec=%s%s' % (name, s, sfx),
                              'opcode 0x%02X %s is %s under SpecId::%s (executes as %s) but the specification introduces it in %s' % (
                                  b, name, 'active' if active else 'NOT active', s, eff, fork), h.where())
        if row_ok:
            rep.ok('activation', name + sfx, 'from %s; %d specs' % (fork, len(specs)), nontrivial=(fork != 'FRONTIER'))
    rep.counts['cells' + sfx] = cells
    rep.floor('activation-cells' + sfx, cells, 256 * len(specs))
    rep.floor('gated-handlers' + sfx, len(gated), 17)
    rep.floor('eof-only-opcodes' + sfx, eof_checked, 19)

    # error class of the gated-off results
    for name, want in (('is_ok', False), ('is_revert', False), ('is_error', True)):
        f = fx.fns.get(IR + '::' + name)
        if f is None:
            rep.undecided('undefined-result-class', name + sfx, 'not found')
            continue
        tb = enum_predicate(fx, f, IR)
        if tb is None:
            rep.undecided('undefined-result-class', name + sfx, 'not a table', f.where())
            continue
        for v in ('NotActivated', 'OpcodeNotFound', 'EOFOpcodeDisabledInLegacy', 'InvalidFEOpcode'):
            if tb.get(v) == want:
                rep.ok('undefined-result-class', '%s.%s%s' % (v, name, sfx))
            else:
                rep.violation('undefined-result-class', '%s.%s%s' % (v, name, sfx), 'InstructionResult::%s.%s() = %s, expected %s (an undefined opcode must consume all gas)' % (v, name, tb.get(v), want), f.where())

    if cfgn == 'default':
        check_precompiles(fx, rep, si, order, sfx, cfgn)
    else:
        rep.assume('cfg optimism: the OP handler register replaces load_precompiles with its own sets (fjord/granite/isthmus); only the opcode activation table is decided for the optimism SpecIds, the mainnet precompile table is decided in cfg default')


def check_table_builder(fx, rep, sfx):
    """make_instruction_table's const initializer: tables[i] = instruction::<H, SPEC>(i as u8) for i in 0..256"""
    cands = [f for f in fx.fns_all if f.kind in ('ConstBody', 'InlineConst') and 'opcode::tables::make_instruction_table' in f.nq
             and any(t.target_fn == IT for _, t in f.calls())]
    if not cands:
        rep.undecided('table', 'builder' + sfx, 'const initializer of make_instruction_table not found')
        return
    f = cands[0]
    rep.fn(f)
    og = Origins(f, fx)
    calls = [(bi, t) for bi, t in f.calls() if t.target_fn == IT]
    if len(calls) != 1:
        rep.violation('table', 'builder:calls' + sfx, 'table builder calls instruction() %d times' % len(calls), f.where())
        return
    bi, t = calls[0]
    # the store tables[idx] = result uses the same loop index that was passed (as u8)
    store = None
    for b in f.blocks:
        for s in b.stmts:
            if s.kind == 'assign' and any(p.startswith('[_') for p in s.place.pr) and s.rv.rv == 'use':
                oo = og.of_operand(s.rv.ops[0])
                if any(o.root[0] == 'call' and o.root[2] == bi for o in oo):
                    store = (b.i, s)
    if store is None:
        rep.violation('table', 'builder:store' + sfx, 'result of instruction() is not stored into the table', f.where(bi))
        return
    idx_local = int([p for p in store[1].place.pr if p.startswith('[_')][0][2:-1])
    idx_o = og.of_local(idx_local, 8)
    arg_o = og.of_operand(t.args[0])
    # arg is `i as u8` where i is the index local's source
    same = False
    for a in arg_o:
        if a.root[0] == 'cast':
            if set(a.root[2]) & set(idx_o):
                same = True
    # loop bound 256
    bound = False
    for b in f.blocks:
        for s in b.stmts:
            if s.kind == 'assign' and s.rv.rv == 'bin' and s.rv.op == 'Lt' and s.rv.ops[1].const_int() == 256:
                bound = True
    if same and bound:
        rep.ok('table', 'builder' + sfx, 'tables[i] = instruction(i as u8) for i < 256')
    else:
        rep.violation('table', 'builder:index' + sfx, 'table builder does not fill slot i from instruction(i) for all i < 256 (same index: %s, bound 256: %s)' % (same, bound), f.where(bi))


# ------------------------------------------------------------------------------ precompiles

PC = 'revm_precompile::Precompiles::'
BUILDERS = ['homestead', 'byzantium', 'istanbul', 'berlin', 'cancun', 'prague', 'latest']


def address_of_const(fx, q):
    c = fx.consts.get(q)
    if not c or 'val' not in c:
        return None
    v = c['val']
    if isinstance(v, dict) and v.get('fields'):
        bs = const_bytes(v['fields'][0])
        if bs and len(bs) == 20:
            return int.from_bytes(bs, 'big')
    return None


def collect_precompile_consts(fx, fn, seen, depth=0):
    """PrecompileWithAddress constants referenced by fn and (transitively) its local non-builder callees/closures"""
    out = set()
    if fn is None or fn.nq in seen or depth > 4:
        return out
    seen.add(fn.nq)

    def scan_operand(op):
        if op.kind == 'const' and op.k.get('ty', '').endswith('PrecompileWithAddress') and 'promoted' not in op.k:
            un = op.k.get('uneval')
            if un:
                out.add(strip_generics(un))
        if op.kind == 'const' and 'promoted' in op.k:
            pf = fn.promoted(op.k['promoted'])
            if pf is not None:
                out.update(collect_precompile_consts(fx, pf, seen, depth + 1))
    for b in fn.blocks:
        if b.cleanup:
            continue
        for s in b.stmts:
            if s.kind == 'assign':
                for op in s.rv.ops:
                    scan_operand(op)
        if b.term.kind == 'call':
            for a in b.term.args:
                scan_operand(a)
            tf = b.term.target_fn or ''
            if tf.startswith('revm_precompile::') and not tf.startswith(PC):
                out.update(collect_precompile_consts(fx, fx.fns.get(tf), seen, depth + 1))
    for c in fx.closures_of(fn.nq):
        out.update(collect_precompile_consts(fx, c, seen, depth + 1))
    return out


def builder_sets(fx, rep, sfx):
    sets = {}
    raw = {}
    for name in BUILDERS:
        f = fx.fns.get(PC + name)
        if f is None:
            rep.undecided('precompile-sets', name + sfx, 'builder not found')
            return None
        rep.fn(f)
        bodies = [f] + fx.closures_of(f.nq)
        preds = set()
        for body in bodies:
            for bi, t in body.calls():
                tf = t.target_fn or ''
                if tf.startswith(PC) and tf[len(PC):] in BUILDERS:
                    preds.add(tf[len(PC):])
        consts = collect_precompile_consts(fx, f, set())
        addrs = {}
        for q in consts:
            a = address_of_const(fx, q)
            if a is None:
                rep.undecided('precompile-sets', '%s:%s%s' % (name, q.split('::')[-2], sfx), 'address of %s not evaluable' % q)
                continue
            addrs[a] = q
        raw[name] = (preds, addrs)
    # resolve inheritance

    def resolve(n, stack=()):
        if n in sets:
            return sets[n]
        if n in stack:
            return {}
        preds, addrs = raw[n]
        acc = {}
        for p in preds:
            acc.update(resolve(p, stack + (n,)))
        acc.update(addrs)
        sets[n] = acc
        return acc
    for n in BUILDERS:
        resolve(n)
    return sets


def check_precompiles(fx, rep, si, order, sfx, cfgn):
    sets = builder_sets(fx, rep, sfx)
    if sets is None:
        return
    # PrecompileSpecId::from_spec_id : SpecId -> PrecompileSpecId
    f = fx.fns.get('revm_precompile::PrecompileSpecId::from_spec_id')
    g = fx.fns.get(PC + 'new')
    if f is None or g is None:
        rep.undecided('precompile-table', 'dispatch' + sfx, 'from_spec_id / Precompiles::new not found')
        return
    rep.fn(f)
    rep.fn(g)
    PSI = 'revm_precompile::PrecompileSpecId'
    t1 = match_table(fx, f, SPECID)
    padt = fx.adts.get(PSI)
    pby = {v.get('discr', i): v['name'] for i, v in enumerate(padt['variants'])}
    # Precompiles::new : PrecompileSpecId -> builder called
    t2 = {}
    sw = None
    for b in g.blocks:
        if b.term.kind == 'switch':
            sw = b
            break
    if sw is None:
        rep.undecided('precompile-table', 'new' + sfx, 'Precompiles::new is not a match', g.where())
        return
    for v, tg in sw.term.d['arms']:
        t = g.blocks[tg].term
        if t.kind == 'call' and (t.target_fn or '').startswith(PC):
            t2[pby.get(v)] = t.target_fn[len(PC):]
    # how the EVM selects the set: mainnet load_precompiles uses SPEC::SPEC_ID
    lp = fx.fns.get('revm::handler::mainnet::pre_execution::load_precompiles')
    if lp is not None:
        rep.fn(lp)
        og = Origins(lp, fx)
        ok = False
        for bi, t in lp.calls():
            if (t.target_fn or '').endswith('PrecompileSpecId::from_spec_id'):
                oo = og.of_operand(t.args[0])
                if all(o.root[0] == 'const' and 'SPEC_ID' in str(o.root[2]) for o in oo):
                    ok = True
        if ok:
            rep.ok('precompile-table', 'load_precompiles' + sfx, 'from_spec_id(SPEC::SPEC_ID)')
        else:
            rep.violation('precompile-table', 'load_precompiles' + sfx, 'mainnet load_precompiles does not select the set from SPEC::SPEC_ID', lp.where())
    else:
        rep.undecided('precompile-table', 'load_precompiles' + sfx, 'handler not found')
    cells = 0
    specs = [s for s in order if s in si.discr]
    ref = dict(REF.PRECOMPILES)
    maxaddr = 0x20
    for s in specs:
        eff = si.effective(s)
        sv = t1.get(eff)
        pname = None
        if sv is not None and sv[0] == 'k':
            pname = pby.get(sv[1])
        elif sv is not None and sv[0] == 'agg':
            pname = sv[2]
        if pname is None:
            rep.undecided('precompile-table', 'from_spec_id:%s%s' % (s, sfx), 'cannot read PrecompileSpecId for %s' % eff)
            continue
        builder = t2.get(pname)
        if builder is None or builder not in sets:
            rep.undecided('precompile-table', 'new:%s%s' % (pname, sfx), 'no builder for PrecompileSpecId::%s' % pname)
            continue
        have = sets[builder]
        row_ok = True
        for a in range(1, maxaddr):
            cells += 1
            want = a in ref and ref_ge(s, ref[a][1], order)
            got = a in have
            if want != got:
                row_ok = False
                nm = ref[a][0] if a in ref else have.get(a, '?')
                rep.violation('precompile-table', 'addr-%02x:spec=%s%s' % (a, s, sfx),
                              'address 0x%02x (%s) is %s a precompile under SpecId::%s (set %s); the specification says %s' % (
                                  a, nm, 'treated as' if got else 'NOT', s, builder, ('from ' + ref[a][1]) if a in ref else 'never'))
        extra = [a for a in have if a >= maxaddr and not (sfx and a == 0x100)]
        for a in extra:
            row_ok = False
            rep.violation('precompile-table', 'addr-%x:spec=%s%s' % (a, s, sfx), 'unexpected precompile address 0x%x in set %s' % (a, builder))
        if row_ok:
            rep.ok('precompile-table', 'spec=%s%s' % (s, sfx), '%s -> %s -> %s: %d addresses' % (eff, pname, builder, len(have)))
    rep.floor('precompile-cells' + sfx, cells, 31 * len(specs))
    rep.sample({'precompile_sets' + sfx: {k: sorted(v.keys()) for k, v in sets.items()}})
