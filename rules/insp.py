"""Shared extraction for the inspector handler register (C28, C29, C30): the closures installed by
inspector_handle_register, their roles, the identity of the shared input stacks, and per-path
event summaries obtained by path enumeration (symx)."""
from cfg import Origins
from symx import Symx, Budget, render

REG = 'revm::inspector::handler_register::inspector_handle_register'
INSPECTOR = 'revm::inspector::Inspector::'
INSTR = 'revm::inspector::handler_register::inspector_instruction'


class Closure:
    def __init__(self, fx, fn):
        self.fn = fn
        self.insp_calls = sorted({(t.callee or '')[len(INSPECTOR):] for _, t in fn.calls() if (t.callee or '').startswith(INSPECTOR)})
        self.upvars = [u['name'] for u in fn.upvars]
        self.paths = None
        self.role = None

    def run(self, fx):
        if self.paths is None:
            try:
                self.paths = Symx(fx, max_paths=4000).run(self.fn)
            except Budget:
                self.paths = None
        return self.paths


def upvar_index(sv):
    """index of the captured variable a reference value points into (closure env = arg 1)"""
    if sv[0] == 'ref' and sv[1] == ('arg', 1) and sv[2]:
        p = sv[2][0]
        if p.startswith('.') and p[1:].isdigit():
            return int(p[1:])
    return None


def tokens(path):
    """normalised event sequence of a path: ('borrow', k) ('push', k) ('pop', k) ('insp', method, args)
    ('prev', args) ('other', name)"""
    out = []
    last_borrow = None
    for (name, args, _f, _b) in path.events:
        short = name.split('::')[-1]
        if name.endswith('RefCell::borrow_mut') and args:
            last_borrow = upvar_index(args[0])
            continue
        if name.endswith('Vec::push') and last_borrow is not None:
            out.append(('push', last_borrow))
            last_borrow = None
            continue
        if name.endswith('Vec::pop') and last_borrow is not None:
            out.append(('pop', last_borrow))
            last_borrow = None
            continue
        if name.startswith(INSPECTOR):
            out.append(('insp', short, args))
            continue
        if name in ('core::ops::function::Fn::call', 'core::ops::function::FnMut::call_mut', 'core::ops::function::FnOnce::call_once') and args:
            k = upvar_index(args[0])
            out.append(('prev', k, args))
            continue
        if short in ('get_inspector', 'clone', 'deref', 'deref_mut', 'unwrap', 'interpreter_mut', 'as_mut', 'as_ref'):
            continue
        out.append(('other', name))
    return out


def is_err_ret(ret):
    return ret[0] == 'agg' and ret[1].endswith('result::Result') and ret[2] == 'Err'


def load(fx, rep):
    parent = fx.fns.get(REG)
    if parent is None:
        rep.undecided('inspector-register', 'inspector_handle_register', 'not found')
        return None
    rep.fn(parent)
    cls = [Closure(fx, c) for c in fx.closures_of(REG)]
    # stack identities: origin of each captured operand in the parent
    og = Origins(parent, fx)
    ident = {}
    for b in parent.blocks:
        for s in b.stmts:
            if s.kind == 'assign' and s.rv.rv == 'agg' and s.rv.d.get('agg') == 'closure':
                cname = s.rv.d['closure']
                from facts import strip_generics
                cname = strip_generics(cname)
                names = s.rv.d.get('names', [])
                ids = []
                for op in s.rv.ops:
                    oo = og.of_operand(op)
                    ids.append(tuple(sorted(o.render() for o in oo)))
                ident[cname] = (names, ids)
    for c in cls:
        c.capture_ids = ident.get(c.fn.nq, ([], []))
        ic = set(c.insp_calls)
        if ic == {'log'}:
            c.role = 'log'
        elif ic == {'selfdestruct'}:
            c.role = 'selfdestruct'
        elif ic & {'call', 'create', 'eofcreate'} and not ic & {'call_end', 'create_end', 'eofcreate_end'}:
            c.role = 'start:' + sorted(ic & {'call', 'create', 'eofcreate'})[0]
        elif len(ic & {'call_end', 'create_end', 'eofcreate_end'}) == 3:
            c.role = 'last'
        elif len(ic & {'call_end', 'create_end', 'eofcreate_end'}) == 1:
            c.role = 'end:' + sorted(ic & {'call_end', 'create_end', 'eofcreate_end'})[0]
        else:
            c.role = 'unknown:' + ','.join(sorted(ic))
    return parent, cls
