"""C29 — inspector hooks are balanced and correctly nested (exactly-once-per-path pairing).

R1 start wrappers (call / create / eofcreate): on every non-fatal path the inspector hook is called
   exactly once and the inputs are pushed exactly once on that kind's stack - including the path
   on which the inspector supplies an outcome (then the wrapped handler is not invoked and the
   outcome is returned as a FrameResult of the same kind);
R2 end wrappers (insert_*_outcome): pop exactly once from the same stack the start wrapper pushes
   to, call the matching *_end exactly once with the popped inputs, and pass its outcome to the
   wrapped handler exactly once;
R3 last_frame_return wrapper: for each FrameResult kind, pops that kind's stack once and calls that
   kind's *_end once, then the wrapped handler once;
R4 instruction wrapper: step once; if the inspector did not stop the frame: wrapped instruction once,
   step_end once, in that order;
R5 LOG wrapper: wrapped instruction once; the log hook at most once and only under
   logs.len() == previous_len + 1.
"""
import insp
from symx import Symx, render, path_truth

META = {
    'level': 'other',
    'decides': 'push/pop/notify/delegate counts on every CFG path of each wrapper closure installed by inspector_handle_register, the identity of the stack shared by matching start and end wrappers, and the step/step_end bracket; the exact opcode sets the log and selfdestruct wrappers are installed on',
    'does_not_decide': 'LIFO order across frames, which follows from the frame loop\'s own stack discipline (C07), assumed',
    'explanation': 'Path enumeration with partial evaluation of each closure body; event sequences per path; identity of captured Rc stacks by value origin in the registering function.',
}

KIND = {'call': 'Call', 'create': 'Create', 'eofcreate': 'EOFCreate'}


def run(ctx, rep):
    fx = ctx.facts('default')
    r = insp.load(fx, rep)
    if r is None:
        return
    parent, cls = r
    # the three input stacks are selected by the KIND of the frame result: the start wrapper of a kind
    # pushes on that kind's stack and the end is popped from the stack of the result's kind, so a
    # frame constructor answering in another kind unbalances them (shared rule with C01 R2)
    import c01
    import engine
    c01.check_frame_kinds(fx, engine.SubReport(rep, 'C01'))
    check_wrapped_opcodes(fx, rep, parent, cls)
    roles = {}
    for c in cls:
        roles.setdefault(c.role, []).append(c)
        rep.fn(c.fn)
    stack_of = {}     # kind -> capture identity of the stack pushed by the start wrapper
    n = 0
    for kind in ('call', 'create', 'eofcreate'):
        cs = roles.get('start:' + kind, [])
        if len(cs) != 1:
            rep.violation('R1-start', kind + ':wrapper', 'expected one start wrapper for %s, found %d' % (kind, len(cs)), parent.where())
            continue
        c = cs[0]
        paths = c.run(fx)
        if paths is None:
            rep.undecided('R1-start', kind, 'path budget', c.fn.where())
            continue
        ok = True
        pushed_idx = set()
        for p in paths:
            if insp.is_err_ret(p.ret):
                continue
            tk = insp.tokens(p)
            hooks = [t for t in tk if t[0] == 'insp' and t[1] == kind]
            pushes = [t for t in tk if t[0] == 'push']
            prevs = [t for t in tk if t[0] == 'prev']
            pops = [t for t in tk if t[0] == 'pop']
            n += 1
            supplied = None
            for (sv, lit, _f, _b) in p.lits:
                if sv[0] == 'discr' and sv[1][0] == 'call' and sv[1][1].endswith('Inspector::' + kind):
                    supplied = (lit == ('eq', 1)) or (lit[0] == 'ne' and 1 not in lit[1] and lit[1] == (0,))
            if len(hooks) != 1 or len(pushes) != 1 or pops:
                ok = False
                rep.violation('R1-start', '%s:counts' % kind, 'the %s wrapper calls the hook %d time(s) and pushes the inputs %d time(s) on a path (expected 1 and 1)' % (kind, len(hooks), len(pushes)), c.fn.where())
                break
            pushed_idx.add(pushes[0][1])
            # the inputs queued for the end notification are the ones the hook left behind: the hook
            # takes `&mut inputs` and may rewrite them, so the clone is pushed after the hook returned
            if tk.index(pushes[0]) < tk.index(hooks[0]):
                ok = False
                rep.violation('R1-start', '%s:push-after-hook' % kind, 'the %s wrapper queues the inputs before calling Inspector::%s: the matching %s_end would carry the inputs as they were before the inspector changed them' % (kind, kind, kind), c.fn.where())
                break
            if supplied is True:
                if prevs:
                    ok = False
                    rep.violation('R1-start', '%s:short-circuit' % kind, 'the wrapped handler is still invoked although the inspector supplied an outcome', c.fn.where())
                if KIND[kind] not in render(p.ret):
                    ok = False
                    rep.violation('R1-start', '%s:short-circuit-kind' % kind, 'an inspector-supplied %s outcome is returned as %s' % (kind, render(p.ret)[:80]), c.fn.where())
            elif supplied is False:
                if len(prevs) != 1:
                    ok = False
                    rep.violation('R1-start', '%s:delegate' % kind, 'the wrapped %s handler is invoked %d times on the normal path' % (kind, len(prevs)), c.fn.where())
            else:
                ok = False
                rep.undecided('R1-start', '%s:branch' % kind, 'path not decided by the inspector\'s answer', c.fn.where())
        if ok and len(pushed_idx) == 1:
            k = list(pushed_idx)[0]
            names, ids = c.capture_ids
            stack_of[kind] = ids[k] if k < len(ids) else None
            rep.ok('R1-start', kind, 'hook x1, push x1 on every path; delegate iff no outcome supplied')
    for kind in ('call', 'create', 'eofcreate'):
        cs = roles.get('end:%s_end' % kind, [])
        if len(cs) != 1:
            rep.violation('R2-end', kind + ':wrapper', 'expected one end wrapper for %s, found %d' % (kind, len(cs)), parent.where())
            continue
        c = cs[0]
        paths = c.run(fx)
        if paths is None:
            rep.undecided('R2-end', kind, 'path budget', c.fn.where())
            continue
        ok = True
        for p in paths:
            tk = insp.tokens(p)
            hooks = [t for t in tk if t[0] == 'insp']
            pops = [t for t in tk if t[0] == 'pop']
            prevs = [t for t in tk if t[0] == 'prev']
            pushes = [t for t in tk if t[0] == 'push']
            n += 1
            if len(hooks) != 1 or hooks[0][1] != kind + '_end' or len(pops) != 1 or len(prevs) != 1 or pushes:
                ok = False
                rep.violation('R2-end', '%s:counts' % kind, 'the %s end wrapper: hooks %s, pops %d, delegate calls %d (expected one %s_end, one pop, one delegate)' % (kind, [h[1] for h in hooks], len(pops), len(prevs), kind), c.fn.where())
                break
            # order: pop, then hook, then prev
            order = [t[0] for t in tk if t[0] in ('pop', 'insp', 'prev')]
            if order != ['pop', 'insp', 'prev']:
                ok = False
                rep.violation('R2-end', '%s:order' % kind, 'end wrapper order is %s, expected pop, %s_end, delegate' % (order, kind), c.fn.where())
                break
            # the hook receives the popped inputs, the delegate receives the hook's outcome
            hk = hooks[0]
            if 'pop' not in render(hk[2][2]):
                ok = False
                rep.violation('R2-end', '%s:inputs' % kind, '%s_end is not given the inputs popped from the stack' % kind, c.fn.where())
            if (kind + '_end') not in render(prevs[0][2][1]):
                ok = False
                rep.violation('R2-end', '%s:outcome' % kind, 'the wrapped handler does not receive the outcome returned by %s_end' % kind, c.fn.where())
            # same stack as the start wrapper
            names, ids = c.capture_ids
            k = pops[0][1]
            sid = ids[k] if k is not None and k < len(ids) else None
            if kind in stack_of and sid != stack_of[kind]:
                ok = False
                rep.violation('R2-end', '%s:stack' % kind, 'the %s end wrapper pops a different stack (%s) than the start wrapper pushes (%s)' % (kind, sid, stack_of[kind]), c.fn.where())
        if ok:
            rep.ok('R2-end', kind, 'pop x1 (same stack), %s_end x1 with popped inputs, delegate x1 with its outcome' % kind)
    # last frame
    cs = roles.get('last', [])
    if len(cs) != 1:
        rep.violation('R3-last-frame', 'wrapper', 'expected one last_frame_return wrapper, found %d' % len(cs), parent.where())
    else:
        c = cs[0]
        paths = c.run(fx)
        seen = set()
        ok = True
        for p in paths or []:
            tk = insp.tokens(p)
            hooks = [t for t in tk if t[0] == 'insp']
            pops = [t for t in tk if t[0] == 'pop']
            prevs = [t for t in tk if t[0] == 'prev']
            variant = None
            for (sv, lit, _f, _b) in p.lits:
                if sv[0] == 'discr' and sv[2].endswith('FrameResult') and lit[0] == 'eq':
                    variant = fx.variant_by_discr(sv[2], lit[1])
            n += 1
            if variant is None:
                continue
            seen.add(variant)
            kind = {v: k for k, v in KIND.items()}.get(variant)
            names, ids = c.capture_ids
            sid = ids[pops[0][1]] if len(pops) == 1 and pops[0][1] is not None and pops[0][1] < len(ids) else None
            if len(hooks) != 1 or hooks[0][1] != kind + '_end' or len(pops) != 1 or len(prevs) != 1:
                ok = False
                rep.violation('R3-last-frame', variant + ':counts', 'for a final %s result the wrapper calls %s, pops %d, delegates %d' % (variant, [h[1] for h in hooks], len(pops), len(prevs)), c.fn.where())
            elif kind in stack_of and sid != stack_of[kind]:
                ok = False
                rep.violation('R3-last-frame', variant + ':stack', 'for a final %s result the wrapper pops stack %s, the %s start wrapper pushes %s' % (variant, sid, kind, stack_of[kind]), c.fn.where())
        if ok and seen == {'Call', 'Create', 'EOFCreate'}:
            rep.ok('R3-last-frame', 'last_frame_return', 'each FrameResult kind pops its own stack and calls its own *_end, then delegates')
        elif ok:
            rep.violation('R3-last-frame', 'variants', 'last_frame_return wrapper handles %s only' % sorted(seen), c.fn.where())
    rep.floor('wrapper-paths', n, 12)
    check_instruction(fx, rep)
    check_log(fx, rep, roles)
    rep.assume('fatal Err results of the wrapped handlers abort the transaction: no end notification is expected for them')


def check_instruction(fx, rep):
    f = fx.fns.get(insp.INSTR)
    if f is None:
        rep.undecided('R4-step-bracket', 'inspector_instruction', 'not found')
        return
    rep.fn(f)
    paths = Symx(fx, max_paths=200).run(f)
    ok = True
    full = 0
    for p in paths:
        tk = insp.tokens(p)
        seq = [(t[1] if t[0] == 'insp' else t[0]) for t in tk if t[0] in ('insp', 'prev')]
        if seq == ['step']:
            continue          # the inspector stopped the frame: instruction not executed
        if seq == ['step', 'prev', 'step_end']:
            full += 1
            continue
        ok = False
        rep.violation('R4-step-bracket', 'sequence', 'inspector_instruction performs %s on a path (expected step, instruction, step_end)' % seq, f.where())
    if ok and full >= 1:
        rep.ok('R4-step-bracket', 'inspector_instruction', 'step; [instruction; step_end] unless the inspector halted')
    # ip - 1 before step, + 1 before the instruction
    from cfg import Origins
    og = Origins(f, fx)
    subs = [bi for bi, t in f.calls() if (t.callee or '').endswith('::sub')]
    adds = [bi for bi, t in f.calls() if (t.callee or '').endswith('::add')]
    good = len(subs) == 1 and len(adds) == 1
    for bi in subs + adds:
        t = f.blocks[bi].term
        if not all(o.root[0] == 'const' and o.root[1] == 1 for o in og.of_operand(t.args[1])):
            good = False
    if good:
        rep.ok('R4-step-bracket', 'instruction-pointer', 'ip.sub(1) before step, ip.add(1) before the instruction')
    else:
        rep.violation('R4-step-bracket', 'instruction-pointer', 'the instruction pointer is not moved back by one for step and forward by one again', f.where())


def check_log(fx, rep, roles):
    cs = roles.get('log', [])
    if len(cs) != 1:
        rep.violation('R5-log', 'wrapper', 'expected one LOG wrapper, found %d' % len(cs))
        return
    c = cs[0]
    paths = c.run(fx)
    ok = True
    notified = 0
    for p in paths or []:
        tk = insp.tokens(p)
        prevs = [t for t in tk if t[0] == 'prev']
        logs = [t for t in tk if t[0] == 'insp' and t[1] == 'log']
        if len(prevs) != 1 or len(logs) > 1:
            ok = False
            rep.violation('R5-log', 'counts', 'LOG wrapper executes the instruction %d times and notifies %d times on a path' % (len(prevs), len(logs)), c.fn.where())
            break
        if logs:
            notified += 1
            # evidence literal: Eq(len_after, len_before + 1) true
            ev = False
            for (sv, lit, _f, _b) in p.lits:
                if sv[0] == 'bin' and sv[1] == 'Eq' and 'len(' in render(sv) and ('Add' in render(sv)) and path_truth(p, sv) is True:
                    ev = True
            if not ev:
                ok = False
                rep.violation('R5-log', 'evidence', 'the log hook is called without the evidence logs.len() == previous + 1', c.fn.where())
    if ok and notified:
        rep.ok('R5-log', 'log-wrapper', 'instruction x1; hook only when exactly one log was appended')


def check_wrapped_opcodes(fx, rep, parent, cls):
    """R6: which opcodes get the notification wrappers.  The `log` wrapper is installed on exactly
    LOG0..LOG4 (0xA0..=0xA4) and the `selfdestruct` wrapper on 0xFF: the opcode argument of each
    InstructionTables::update_boxed call is a constant or ranges over a constant (inclusive or
    exclusive) range, evaluated here."""
    from cfg import Origins
    og = Origins(parent, fx)
    role_of = {c.fn.nq: c.role for c in cls}
    got = {}
    for bi, t in parent.calls():
        if not (t.target_fn or '').endswith('InstructionTables::update_boxed') or len(t.args) < 3:
            continue
        role = None
        for o in og.of_operand(t.args[2]):
            if o.root[0] == 'agg':
                role = role_of.get(o.root[1])
        ops = set()
        for o in og.of_operand(t.args[1]):
            if o.root[0] == 'const' and o.root[1] is not None and not o.path:
                ops.add(int(o.root[1]))
            elif o.root[0] == 'call' and o.root[1].endswith('::next') and o.path == ('@Some', '.0'):
                it = og.of_operand(parent.blocks[o.root[2]].term.args[0])
                for x in it:
                    src = og.of_operand(parent.blocks[x.root[2]].term.args[0]) if x.root[0] == 'call' and x.root[1].endswith('into_iter') else [x]
                    for r in src:
                        lo = hi = None
                        if r.root[0] == 'call' and r.root[1].endswith('RangeInclusive::new'):
                            a = [og.of_operand(z) for z in parent.blocks[r.root[2]].term.args[:2]]
                            if all(len(z) == 1 and z[0].root[0] == 'const' and z[0].root[1] is not None for z in a):
                                lo, hi = int(a[0][0].root[1]), int(a[1][0].root[1]) + 1
                        elif r.root[0] == 'agg' and r.root[1].endswith('::Range') and len(r.root[4]) == 2:
                            a = [list(z) for z in r.root[4]]
                            if all(len(z) == 1 and z[0].root[0] == 'const' and z[0].root[1] is not None for z in a):
                                lo, hi = int(a[0][0].root[1]), int(a[1][0].root[1])
                        if lo is None:
                            ops.add('?')
                        else:
                            ops.update(range(lo, hi))
            else:
                ops.add('?')
        got.setdefault(role, set()).update(ops)
    want = {'log': set(range(0xA0, 0xA5)), 'selfdestruct': {0xFF}}
    for role, w in want.items():
        g = got.get(role)
        if g == w:
            rep.ok('R6-wrapped-opcodes', role, ', '.join('0x%02X' % x for x in sorted(w)))
        else:
            rep.violation('R6-wrapped-opcodes', role, 'the %s notification wrapper is installed on opcodes %s; it must cover exactly %s (an uncovered opcode executes without the hook)' % (
                role, sorted(g, key=str) if g else 'none', ['0x%02X' % x for x in sorted(w)]), parent.where())
    extra = set(got) - set(want)
    if extra:
        rep.violation('R6-wrapped-opcodes', 'other', 'update_boxed installs wrappers of unrecognised role %s' % sorted(map(str, extra)), parent.where())
