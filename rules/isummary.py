"""Per-opcode instruction summaries (shared by C01, C03, C25): for the handler the instruction table
dispatches a byte to, path enumeration (fork gates folded under the latest spec, const generics
bound) yields for every path its final result class, the constant gas charges, and the stack
events; success paths must agree on (items removed, items added)."""
from symx import Symx, Budget, K, render
import c05

STACK = 'revm_interpreter::interpreter::stack::Stack::'
# callee suffix -> (required depth, removed, added)
STACK_EFFECT = {
    'pop_unsafe': (1, 1, 0), 'pop2_unsafe': (2, 2, 0), 'pop3_unsafe': (3, 3, 0), 'pop4_unsafe': (4, 4, 0), 'pop5_unsafe': (5, 5, 0),
    'pop_top_unsafe': (2, 2, 1), 'pop2_top_unsafe': (3, 3, 1), 'top_unsafe': (1, 1, 1),
    'push': (0, 0, 1), 'push_b256': (0, 0, 1), 'push_slice': (0, 0, 1), 'pop': (1, 1, 0),
}
SUCCESS_RESULTS = (None, 'Continue', 'Stop', 'Return', 'Revert', 'SelfDestruct', 'ReturnContract', 'CallOrCreate')


class Summary:
    def __init__(self):
        self.paths = 0
        self.success = []       # list of dict(removed, added, gas(list of const or None), result, events)
        self.errors = set()
        self.undecided = None


def summarize(fx, hname, fargs, spec=255, max_paths=6000):
    f = fx.fns.get(hname)
    s = Summary()
    if f is None:
        s.undecided = 'no MIR for %s' % hname
        return s
    cp = {k: K(int(v)) for k, v in c05.const_params_of(fx, hname, fargs).items()}
    # helpers of the instruction modules (pop/resize/return helpers) are inlined so that their stack
    # and gas events are attributed to the opcode; Stack / Gas / Host calls stay events
    inline = {'revm_primitives::specification::SpecId::is_enabled_in', 'revm_primitives::specification::SpecId::enabled',
              'revm_primitives::specification::Spec::enabled'}
    for g in fx.fns_all:
        if g.kind == 'Fn' and g.nq.startswith('revm_interpreter::instructions::') and g.nq != hname and g.argc >= 1 \
                and 'Interpreter' in g.local_ty(1) and '::i256::' not in g.nq:
            inline.add(g.nq)
    try:
        rs = Symx(fx, spec=spec, max_paths=max_paths, inline=inline, max_depth=3).run(f, cparams=cp)
    except Budget:
        s.undecided = 'path budget exceeded'
        return s
    for p in rs:
        s.paths += 1
        res = None
        for (root, path), v in p.stores.items():
            if path[-1:] == ('.instruction_result',) and root == ('arg', 1):
                if v[0] == 'agg':
                    res = v[2]
                else:
                    res = 'dynamic:' + render(v)[:60]
        removed = added = 0
        gas = []
        gas_src = []
        dyn = False
        for (name, args, _f, _b) in p.events:
            short = name.split('::')[-1]
            if name.startswith(STACK) and short in STACK_EFFECT:
                _, r_, a_ = STACK_EFFECT[short]
                removed += r_
                added += a_
            elif name == STACK + 'dup':
                n = args[1][1] if args[1][0] == 'k' else None
                if n is None:
                    dyn = True
                else:
                    removed += n
                    added += n + 1
            elif name in (STACK + 'swap', STACK + 'exchange'):
                n = args[-1][1] if args[-1][0] == 'k' else None
                if n is None:
                    dyn = True
                else:
                    removed += n + 1
                    added += n + 1
            elif name.endswith('Gas::record_cost'):
                gas.append(args[1][1] if args[1][0] == 'k' else None)
                gas_src.append(render(args[1])[:200])
        if p.cut:
            # LOGn idiom: after the two pops of offset/length, one topic is popped per iteration of
            # `0..N` (the guard len >= N is decided under C12): scale the single body pop by N
            n_const = cp.get('N')
            pops = [e for e in p.events if e[0] == STACK + 'pop_unsafe']
            if hname.endswith('instructions::host::log') and n_const is not None and len(pops) == 1:
                removed = 2 + n_const[1]
                # a cut path is the loop body seen once; the function continues after the loop
                continue
            else:
                dyn = True
        elif hname.endswith('instructions::host::log') and cp.get('N') is not None and removed == 2:
            # the loop-exit path: the N topic pops happen in the loop (see above)
            removed = 2 + cp['N'][1]
        if res is None or res in SUCCESS_RESULTS:
            s.success.append({'removed': removed, 'added': added, 'gas': gas, 'gas_src': gas_src, 'result': res, 'dynamic': dyn})
        elif isinstance(res, str) and res.startswith('dynamic:'):
            # result copied from a helper (e.g. a Result's Err payload): an error exit
            s.errors.add('dynamic')
        else:
            s.errors.add(res)
    return s
