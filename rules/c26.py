"""C26 — EOF decoding round-trips and validation protects execution (partial claim).

Not decided: byte-exact round trip of decode/encode over all byte strings, absence of panics in
decode (needs relational loop invariants), the full stack-height validation.  Decided are the
structural parts the statement rests on:
R1 validation covers the interpreter's unchecked assumptions: per opcode, validate_eof_code reaches
   the next instruction only after the test that makes the runtime assumption true, and rejects
   with the matching error otherwise - CALLF/JUMPF section index (runtime: `panic!` in callf /
   jumpf), EOFCREATE/RETURNCONTRACT container index (runtime: `expect`), DATALOADN offset, all
   immediates present (the interpreter reads them unchecked; EOF code is not padded), RJUMPV table
   present, relative-jump targets inside the section, unknown / EOF-disabled opcodes, a
   terminating last instruction;
R2 header writer/reader agreement: the sequence of section-kind markers EofHeader::encode writes
   is the sequence EofHeader::decode demands, with the same constants, for both the with- and
   without-containers layouts, and the version byte;
R3 determinism: nothing reachable from validate_eof / validate_raw_eof reads a clock, a random
   source, a static mut, or iterates a hash map / hash set (the verdict is a function of the bytes).
"""
from symx import Symx, Budget, K, render, lit_truth

META = {
    'level': 'other',
    'decides': 'that EOF validation tests, before accepting an instruction, every condition the interpreter relies on without a run-time check (section and container indices, presence of immediates and jump tables, jump targets, data offsets, unknown / disabled opcodes, terminating last instruction; that both RJUMPV table loops cover all max_index + 1 entries; that an EOFCREATE target has its data section filled and every sub container is decoded and validated); that the header encoder and decoder use the same kind markers in the same order; that validation is deterministic',
    'does_not_decide': 'byte-exact round trip of Eof::decode / encode_slow over all byte strings, that decode never panics, the stack-height analysis, and that no other interpreter path depends on validation',
    'explanation': 'Path enumeration of one iteration of validate_eof_code (339 paths) with the opcode byte as a path literal; relation-normalised comparison of guards; event sequences of the header encoder against the literals of the decoder\'s accepting paths; reachability scan of callee names.',
}

AN = 'revm_interpreter::interpreter::analysis::'
HD = 'revm_primitives::bytecode::eof::header::EofHeader::'
FLIP = {'Lt': 'Gt', 'Gt': 'Lt', 'Le': 'Ge', 'Ge': 'Le', 'Eq': 'Eq', 'Ne': 'Ne'}
NEG = {'Lt': 'Ge', 'Ge': 'Lt', 'Gt': 'Le', 'Le': 'Gt', 'Eq': 'Ne', 'Ne': 'Eq'}


def relation(sv, tv):
    """(a, REL, b) established on a path by literal sv taken with truth tv; texts are rendered"""
    if sv[0] == 'bin' and sv[1] in FLIP:
        op = sv[1] if tv else NEG[sv[1]]
        return render(sv[2]), op, render(sv[3])
    return render(sv), ('T' if tv else 'F'), ''


def same_rel(r, want):
    """want = (substring of a, REL, substring of b); orientation-insensitive"""
    a, op, b = r
    wa, wop, wb = want
    if wop in ('T', 'F'):
        return op == wop and wa in a
    if op == wop and wa in a and wb in b:
        return True
    if op == FLIP.get(wop) and wa in b and wb in a:
        return True
    return False


# (opcode bytes, error variant, relation that must be established on the rejecting path, what the
#  interpreter relies on); the accepting paths of the same opcode must establish the negation
RULES = [
    ((0xE3, 0xE5), 'CodeSectionOutOfBounds', ('discr(get(&arg5, (read_u16(', 'F1', ''), 'CALLF / JUMPF index a types / code section that exists (callf and jumpf panic otherwise)'),
    ((0xEC, 0xEE), 'EOFCREATEInvalidIndex', ('(arg1[1] as usize)', 'Ge', 'arg4'), 'EOFCREATE / RETURNCONTRACT name an existing subcontainer (the handlers `expect` it)'),
    ((0xD1,), 'DataLoadOutOfBounds', ('read_u16(', 'Gt', 'Sub((arg2 as isize), 32)'), 'DATALOADN offset + 32 lies inside the declared data section'),
    ((0xE2,), 'MissingRJUMPVImmediateBytes', ('Add(1, Mul(Add((arg1[1] as usize), 1), 2))', 'Ge', 'len(&arg1)'), 'the RJUMPV table is inside the code (rjumpv reads it unchecked)'),
    ((0xE0, 0xE1, 0xE2), 'JumpUnderflow', ('@Some.0', 'Lt', '0'), 'relative jump targets are not before the section'),
    ((0xE0, 0xE1, 0xE2), 'JumpOverflow', ('@Some.0', 'Ge', '(len(&arg1) as isize)'), 'relative jump targets are not past the section'),
]


def run(ctx, rep):
    fx = ctx.facts('default')
    check_validation(fx, rep)
    check_container_rules(fx, rep)
    check_header(fx, rep)
    check_determinism(fx, rep)
    rep.assume('the interpreter only executes EOF code that passed validate_eof (C25 states the same assumption)')


def check_validation(fx, rep):
    f = fx.fns.get(AN + 'validate_eof_code')
    if f is None:
        rep.undecided('R1-validation-covers-runtime', 'validate_eof_code', 'not found')
        return
    rep.fn(f)
    try:
        rs = Symx(fx, max_paths=60000, snapshot_refs=True, max_depth=2).run(f)
    except Budget:
        rep.undecided('R1-validation-covers-runtime', 'validate_eof_code', 'path budget', f.where())
        return
    rep.floor('validate_eof_code-paths', len(rs), 200)
    rows = []
    for r in rs:
        op = None
        rels = []
        for (sv, lit, _f, _b) in r.lits:
            txt = render(sv)
            if txt == 'arg1[0]' and lit[0] == 'eq':
                op = lit[1]
                continue
            if txt.startswith('discr(') and 'get(&arg5' in txt:
                rels.append((txt, 'F1' if lit != ('eq', 1) else 'T1', ''))
                continue
            tv = lit_truth(lit)
            if tv is None:
                continue
            rels.append(relation(sv, tv))
        err = None
        if r.ret[0] == 'agg' and r.ret[2] == 'Err':
            e = r.ret[4][0]
            err = e[2] if e[0] == 'agg' else render(e)[:40]
        rows.append((op, rels, err, r))
    for ops, variant, want, why in RULES:
        for b in ops:
            key = '0x%02X:%s' % (b, variant)
            mine = [x for x in rows if x[0] == b]
            if not mine:
                rep.violation('R1-validation-covers-runtime', key + ':no-arm', 'validate_eof_code has no path for opcode 0x%02X' % b, f.where())
                continue
            rejecting = [x for x in mine if x[2] == variant and any(same_rel(rl, want) for rl in x[1])]
            neg = (want[0], {'F1': 'T1'}.get(want[1]) or NEG.get(want[1], want[1]), want[2])
            accepting = [x for x in mine if x[2] is None]
            if want[0] == '@Some.0':
                # jump destinations are examined one by one from a list: only paths that took a
                # destination from it have something to establish
                accepting = [x for x in accepting if any('@Some.0' in rl[0] or '@Some.0' in rl[2] for rl in x[1])]
                # the overflow test comes after the underflow test: a path cut in between is partial
                accepting = [x for x in accepting if not x[3].cut or any(same_rel(rl, (want[0], 'Lt', want[2])) or same_rel(rl, (want[0], 'Ge', want[2])) for rl in x[1])]
            unchecked = [x for x in accepting if not any(same_rel(rl, neg) for rl in x[1])]
            if not rejecting:
                rep.violation('R1-validation-covers-runtime', key, 'opcode 0x%02X is not rejected with %s when the condition fails: %s' % (b, variant, why), f.where())
            elif unchecked:
                rep.violation('R1-validation-covers-runtime', key + ':accepts-unchecked', 'validate_eof_code accepts opcode 0x%02X on a path that never establishes the condition (%s)' % (b, why), f.where())
            else:
                rep.ok('R1-validation-covers-runtime', key, '%d accepting paths all pass the test' % len(accepting))
    check_rjumpv_table(rep, f, rows)
    # immediates, unknown / disabled opcodes: conditions on the opcode table entry
    generic = [
        ('MissingImmediateBytes', ('Add(0, (immediate_size(', 'Ge', 'len(&arg1)'), 'every immediate byte of an accepted instruction exists'),
        ('UnknownOpcode', None, 'bytes without an opcode entry are rejected'),
        ('OpcodeDisabled', ('is_disabled_in_eof(', 'T', ''), 'opcodes disabled in EOF are rejected'),
    ]
    for variant, want, why in generic:
        rej = [x for x in rows if x[2] == variant]
        if want is not None:
            rej = [x for x in rej if any(same_rel(rl, want) for rl in x[1])]
        if not rej:
            rep.violation('R1-validation-covers-runtime', variant, 'no path rejects with %s: %s' % (variant, why), f.where())
            continue
        if want is not None:
            neg = (want[0], NEG.get(want[1], 'F' if want[1] == 'T' else 'T'), want[2])
            # instructions with immediates that are accepted must have passed the test
            acc = [x for x in rows if x[2] is None and x[0] is not None]
            need = acc if variant == 'OpcodeDisabled' else [x for x in acc if any('immediate_size(' in rl[0] and rl[1] == 'Ne' for rl in x[1])]
            unchecked = [x for x in need if not any(same_rel(rl, neg) for rl in x[1])]
            if unchecked:
                rep.violation('R1-validation-covers-runtime', variant + ':accepts-unchecked', 'an instruction is accepted on a path that never tests: %s' % why, f.where())
                continue
        rep.ok('R1-validation-covers-runtime', variant, why)
    # the walk ends on a terminating instruction: with the loop-carried variables symbolic, every
    # accepting exit of the function has tested the is_after_termination flag
    try:
        ex = Symx(fx, max_paths=200000, snapshot_refs=True, max_depth=2, loop_symbolic=True).run(f)
    except Budget:
        rep.undecided('R1-validation-covers-runtime', 'LastInstructionNotTerminating', 'path budget', f.where())
        return
    accepts = [r for r in ex if not r.cut and r.ret[0] == 'agg' and r.ret[2] == 'Ok']
    rejects = [r for r in ex if not r.cut and r.ret[0] == 'agg' and r.ret[2] == 'Err' and 'LastInstructionNotTerminating' in render(r.ret)]

    def flag(r):
        for (sv, lit, _f, _b) in r.lits:
            if 'is_after_termination' in render(sv) and render(sv).startswith('loop:'):
                return lit_truth(lit)
        return None
    if not accepts or not rejects:
        rep.violation('R1-validation-covers-runtime', 'LastInstructionNotTerminating', 'no exit path rejects a section that does not end in a terminating instruction (execution would run off the section)', f.where())
    elif any(flag(r) is not True for r in accepts) or any(flag(r) is not False for r in rejects):
        rep.violation('R1-validation-covers-runtime', 'LastInstructionNotTerminating', 'a section is accepted on an exit path that does not require the last instruction to be terminating', f.where())
    else:
        rep.ok('R1-validation-covers-runtime', 'LastInstructionNotTerminating', 'every accepting exit requires a terminating last instruction')


def check_rjumpv_table(rep, f, rows):
    """R1b: RJUMPV with immediate byte m has m + 1 table entries (the interpreter jumps through
    entry `case` whenever case <= m).  The loop that marks the table bytes as immediates must run
    over 2 * (m + 1) bytes and the loop that collects the jump targets to be validated over m + 1
    entries - for every m in 0..=255 (the bounds are evaluated from the extracted expressions)."""
    import c23
    marks, collects = set(), set()
    for op, rels, err, r in rows:
        if op != 0xE2:
            continue
        cur = None
        for e in r.events:
            short = e[0].split('::')[-1]
            if short == 'into_iter' and e[1] and e[1][0][0] == 'agg' and e[1][0][1].endswith('Range'):
                cur = e[1][0]
            elif short == 'into_iter' and e[1] and e[1][0][0] == 'call' and e[1][0][1].endswith('RangeInclusive::new'):
                a, b = e[1][0][2][0], e[1][0][2][1]
                cur = ('agg', 'Range', None, ('start', 'end'), (a, ('bin', 'Add', b, K(1))))
            elif short == 'mark_as_immediate' and cur is not None:
                marks.add(cur)
            elif short == 'read_i16' and cur is not None and 'next(' in render(e[1][0]):
                collects.add(cur)

    def bounds(rng, m):
        vals = dict(zip(rng[3], rng[4]))
        env = {'arg1[1]': m}
        return c23.ev(vals['start'], env), c23.ev(vals['end'], env)
    for name, found, want in (('mark-immediates', marks, lambda m: (0, 2 * (m + 1))), ('collect-targets', collects, lambda m: (0, m + 1))):
        key = '0xE2:table:' + name
        if not found:
            rep.undecided('R1-validation-covers-runtime', key, 'loop over the RJUMPV table not recognised', f.where())
            continue
        bad = None
        for rng in found:
            try:
                for m in range(256):
                    if bounds(rng, m) != want(m):
                        bad = 'runs over %s for max_index=%d, the table has %s' % (bounds(rng, m), m, want(m))
                        break
            except (c23.NoValue, KeyError) as ex:
                bad = 'bound not evaluable: %s (%s)' % (render(rng)[:80], ex)
            if bad:
                break
        if bad:
            rep.violation('R1-validation-covers-runtime', key, 'RJUMPV table loop (%s) %s: entries outside it are never %s' % (name, bad, 'marked' if name.startswith('mark') else 'validated as jump targets'), f.where())
        else:
            rep.ok('R1-validation-covers-runtime', key, 'covers the whole table for max_index 0..=255')


def check_container_rules(fx, rep):
    """R1c: assumptions of EOFCREATE about the sub container it instantiates.  The handler decodes
    it with `expect` and panics when its data section is truncated, so (a) validate_eof_codes accepts
    a container used as EOFCREATE target (code type ReturnContract) only with is_data_filled, and
    (b) validate_eof_inner decodes every sub container and validates it with the code type the
    parent's code gave it (a failed decode is a validation failure)."""
    f = fx.fns.get(AN + 'validate_eof_codes')
    g = fx.fns.get(AN + 'validate_eof_inner')
    if f is None or g is None:
        rep.undecided('R1-validation-covers-runtime', 'containers', 'validate_eof_codes / validate_eof_inner not found')
        return
    rep.fn(f)
    rep.fn(g)
    try:
        rs = Symx(fx, max_paths=20000, snapshot_refs=True, max_depth=1).run(f)
    except Budget:
        rep.undecided('R1-validation-covers-runtime', 'DataNotFilled', 'path budget', f.where())
        rs = None
    if rs is not None:
        acc = [r for r in rs if not r.cut and r.ret[0] == 'agg' and r.ret[2] == 'Ok']
        rej = [r for r in rs if not r.cut and r.ret[0] == 'agg' and r.ret[2] == 'Err' and 'DataNotFilled' in render(r.ret)]

        def facts_of(r):
            filled = kind = None
            for (sv, lit, _f, _b) in r.lits:
                t = render(sv)
                if 'is_data_filled' in t:
                    filled = lit_truth(lit)
                if ('this_container_code_type' in t or 'eq(' in t) and 'CodeType::ReturnContract' in t:
                    kind = lit_truth(lit)       # "is an EOFCREATE target"
            return filled, kind
        if not acc:
            rep.undecided('R1-validation-covers-runtime', 'DataNotFilled', 'no accepting path of validate_eof_codes', f.where())
        elif not rej or not all(facts_of(r)[0] is False for r in rej):
            rep.violation('R1-validation-covers-runtime', 'DataNotFilled', 'validate_eof_codes never rejects a container with a truncated data section: EOFCREATE panics on such a sub container', f.where())
        elif any(facts_of(r)[0] is not True and facts_of(r)[1] is not False for r in acc):
            rep.violation('R1-validation-covers-runtime', 'DataNotFilled:accepts-unchecked', 'validate_eof_codes accepts a container on a path that tests neither its code type nor is_data_filled', f.where())
        else:
            rep.ok('R1-validation-covers-runtime', 'DataNotFilled', '%d accepting paths: not an EOFCREATE target, or data filled' % len(acc))
    # (b) sub containers are decoded and pushed with their code type; decode errors propagate
    from cfg import Origins
    og = Origins(g, fx)
    dec = [(bi, t) for bi, t in g.calls() if (t.target_fn or '').endswith('eof::Eof::decode')]
    val = [(bi, t) for bi, t in g.calls() if (t.target_fn or '') == AN + 'validate_eof_codes']
    ok_dec = False
    for bi, t in dec:
        src = og.of_operand(t.args[0])
        # the decoded bytes come from iterating container_section (zip with the tracker's code types)
        def from_containers(oo, depth=0):
            for o in oo:
                if 'container_section' in ''.join(o.path):
                    return True
                if o.root[0] == 'call' and depth < 8:
                    tt = g.blocks[o.root[2]].term
                    if any(from_containers(og.of_operand(a), depth + 1) for a in tt.args[:2]):
                        return True
            return False
        if from_containers(src):
            ok_dec = True
    try:
        gs = Symx(fx, max_paths=20000, snapshot_refs=True, max_depth=1).run(g)
    except Budget:
        gs = []
    # a failed decode (Result discriminant, directly or through `?`) must end in an Err return
    swallowed = [r for r in gs if not (not r.cut and r.ret[0] == 'agg' and r.ret[2] == 'Err') and
                 any(render(l[0]).startswith(('discr(branch(decode(', 'discr(decode(')) and l[1] != ('eq', 0) for l in r.lits)]
    if not dec or not ok_dec:
        rep.violation('R1-validation-covers-runtime', 'subcontainers-decoded', 'validate_eof_inner does not decode the sub containers of a container: EOFCREATE `expect`s a decodable sub container', g.where())
    elif swallowed:
        rep.violation('R1-validation-covers-runtime', 'subcontainers-decoded', 'validate_eof_inner accepts although decoding a sub container failed', g.where())
    elif len(val) < 2:
        rep.violation('R1-validation-covers-runtime', 'subcontainers-validated', 'validate_eof_inner does not validate containers popped from its work stack', g.where())
    else:
        rep.ok('R1-validation-covers-runtime', 'subcontainers-decoded', 'every sub container is decoded (errors propagate) and validated with its code type')


def check_header(fx, rep):
    enc = fx.fns.get(HD + 'encode')
    dec = fx.fns.get(HD + 'decode')
    if enc is None or dec is None:
        rep.undecided('R2-header-agreement', 'encode/decode', 'EofHeader::encode / decode not found')
        return
    rep.fn(enc)
    rep.fn(dec)
    try:
        re_ = Symx(fx, max_paths=4000, snapshot_refs=True).run(enc)
        rd = Symx(fx, max_paths=20000, snapshot_refs=True, max_depth=3).run(dec)
    except Budget:
        rep.undecided('R2-header-agreement', 'encode/decode', 'path budget')
        return
    written = set()
    for r in re_:
        seq = tuple(int(e[1][1][1]) for e in r.events if e[0] == 'alloc::vec::Vec::push' and len(e[1]) > 1 and e[1][1][0] == 'k')
        if not r.cut and seq:
            written.add(seq)
    # loops are cut: a cut path holds a prefix; complete paths are those that end with the terminator
    demanded = set()
    for r in rd:
        if not (r.ret[0] == 'agg' and r.ret[2] == 'Ok'):
            continue
        seq = []
        def is_byte(x):
            # a byte taken from the input by consume_u8 (the `.1` of its Ok tuple)
            t_ = render(x)
            return 'consume_u8(' in t_ and t_.endswith('.1') and not t_.startswith('discr(')
        for (sv, lit, _f, _b) in r.lits:
            if sv[0] == 'bin' and sv[1] in ('Ne', 'Eq') and sv[3][0] == 'k' and is_byte(sv[2]):
                tv = lit_truth(lit)
                if tv is None:
                    continue
                equal = tv if sv[1] == 'Eq' else (not tv)
                if equal:
                    seq.append(int(sv[3][1]))
            elif sv[0] != 'bin' and lit[0] == 'eq' and isinstance(lit[1], int) and is_byte(sv):
                seq.append(lit[1])       # `match kind { KIND_CONTAINER => .., KIND_DATA => .. }`
        if seq:
            demanded.add(tuple(seq))
    ok_w = written and all(s[-1] == 0 for s in written)
    if not ok_w or not demanded:
        rep.undecided('R2-header-agreement', 'kind-markers', 'could not read the marker sequences (written %s, demanded %s)' % (sorted(written)[:3], sorted(demanded)[:3]), enc.where())
        return
    bad = [d for d in demanded if d not in written]
    miss = [w for w in written if w not in demanded]
    if bad or miss:
        rep.violation('R2-header-agreement', 'kind-markers', 'EofHeader::encode writes the marker sequences %s, EofHeader::decode accepts %s: a container written by one is not read back by the other' % (sorted(written), sorted(demanded)), dec.where())
    else:
        rep.ok('R2-header-agreement', 'kind-markers', 'version + kinds %s' % sorted(written))


NONDET = ('std::time::', 'core::time::Instant', 'SystemTime', 'rand::', 'getrandom', 'thread_rng', 'RandomState::new', 'std::env::', 'std::thread::current')
HASH_ITER = ('HashMap', 'HashSet')


def check_determinism(fx, rep):
    roots = [AN + 'validate_eof', AN + 'validate_raw_eof', AN + 'validate_eof_inner', AN + 'validate_raw_eof_inner', AN + 'validate_eof_codes', AN + 'validate_eof_code']
    seen = set()
    work = [r for r in roots if r in fx.fns]
    if not work:
        rep.undecided('R3-determinism', 'validate_eof', 'validation entry points not found')
        return
    bad = []
    n = 0
    while work:
        q = work.pop()
        if q in seen:
            continue
        seen.add(q)
        f = fx.fns.get(q)
        if f is None:
            continue
        n += 1
        rep.fn(f)
        for bi, t in f.calls():
            for nm in t.names():
                if any(x in nm for x in NONDET):
                    bad.append('%s calls %s' % (q.split('::')[-1], nm))
                short = nm.split('::')[-1]
                if short in ('iter', 'iter_mut', 'into_iter', 'keys', 'values', 'drain') and t.args:
                    a0 = t.args[0]
                    ty = f.local_ty(a0.place.b) if a0.place is not None else ''
                    if any(h in (ty or '') for h in HASH_ITER):
                        bad.append('%s iterates a %s' % (q.split('::')[-1], (ty or '')[:40]))
                if nm in fx.fns and 'revm' in nm:
                    work.append(nm)
        for b in f.blocks:
            for s in b.stmts:
                if s.kind == 'assign':
                    for o in s.rv.ops:
                        if o.kind == 'const' and isinstance(o.k, dict) and o.k.get('static') and 'mut' in str(o.k.get('ty', '')):
                            bad.append('%s reads static %s' % (q.split('::')[-1], o.k.get('static')))
    rep.floor('R3-functions', n, 5)
    if bad:
        rep.violation('R3-determinism', 'validate_eof', 'EOF validation is not a function of the bytes alone: %s' % sorted(set(bad))[0])
    else:
        rep.ok('R3-determinism', 'validate_eof', '%d functions, no clock / randomness / hash-order dependence' % n)
