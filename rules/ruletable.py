"""Rule-table extraction for validation functions (A7): for every site that produces an error
variant, the conjunction of dominating branch literals that is specific to that site (the guards
of the site minus the guards every successful return also has), rendered canonically:
comparisons are normalised to `gt(a,b)` / `ge(a,b)` / `eq` / `ne` with truth folded in, operands are
rendered as field paths of the receiver (`tx.gas_limit`) or nested call names."""
from cfg import cfg_of, Origins, guards_of

NUMERIC_CONSTS = False     # render named integer constants by value (set by rules that compare values)
CMP_CALLS = {'lt': 'lt', 'le': 'le', 'gt': 'gt', 'ge': 'ge', 'eq': 'eq', 'ne': 'ne'}
BIN_CMP = {'Lt': 'lt', 'Le': 'le', 'Gt': 'gt', 'Ge': 'ge', 'Eq': 'eq', 'Ne': 'ne'}


def canon_origin(f, og, o, depth=0):
    r = o.root
    path = ''.join(p for p in o.path if p not in ('?',))
    if r[0] == 'param':
        base = 'self' if r[1] == 1 else (f.local_name(r[1]) or 'arg%d' % r[1])
        s = base + path
        return s[5:] if s.startswith('self.') else s
    if r[0] == 'const':
        if r[1] is not None:
            nm = str(r[2]) if r[2] else ''
            tail = nm.split('::')[-1]
            if tail and not tail[0].isdigit() and tail.isupper() and not NUMERIC_CONSTS:
                return tail
            return str(r[1])
        return str(r[2]).split('::')[-1]
    if r[0] == 'agg':
        return (r[2] or r[1].split('::')[-1])
    if r[0] == 'call' and depth < 4:
        t = f.blocks[r[2]].term
        name = r[1].split('::')[-1]
        args = []
        for a in t.args:
            oo = og.of_operand(a)
            args.append('|'.join(sorted(canon_origin(f, og, x, depth + 1) for x in oo)))
        return '%s(%s)%s' % (name, ','.join(args), path)
    if r[0] == 'bin' and depth < 4:
        a = '|'.join(sorted(canon_origin(f, og, x, depth + 1) for x in r[2]))
        b = '|'.join(sorted(canon_origin(f, og, x, depth + 1) for x in r[3]))
        return '%s(%s,%s)%s' % (r[1], a, b, path)
    if r[0] == 'un' and depth < 4:
        a = '|'.join(sorted(canon_origin(f, og, x, depth + 1) for x in r[2]))
        return '%s(%s)' % (r[1], a)
    if r[0] == 'cast':
        return '|'.join(sorted(canon_origin(f, og, x, depth + 1) for x in r[2]))
    if r[0] == 'discr':
        return 'discr(%s)' % '|'.join(sorted(canon_origin(f, og, x, depth + 1) for x in r[1]))
    return r[0]


def norm_cmp(op, a, b, truth):
    """normalise a comparison literal to one of gt/ge/eq/ne (true form)"""
    if op == 'lt':
        return ('gt', b, a) if truth else ('ge', a, b)
    if op == 'le':
        return ('ge', b, a) if truth else ('gt', a, b)
    if op == 'gt':
        return ('gt', a, b) if truth else ('ge', b, a)
    if op == 'ge':
        return ('ge', a, b) if truth else ('gt', b, a)
    if op == 'eq':
        return ('eq', a, b) if truth else ('ne', a, b)
    if op == 'ne':
        return ('ne', a, b) if truth else ('eq', a, b)
    return None


def canon_guard(fx, f, og, g):
    """list of canonical literal strings for one guard"""
    out = []
    tv = g.truth()
    for o in g.discr:
        r = o.root
        if r[0] == 'call':
            t = f.blocks[r[2]].term
            name = r[1].split('::')[-1]
            if name in CMP_CALLS and len(t.args) == 2 and tv is not None and not o.path:
                a = '|'.join(sorted(canon_origin(f, og, x, 1) for x in og.of_operand(t.args[0])))
                b = '|'.join(sorted(canon_origin(f, og, x, 1) for x in og.of_operand(t.args[1])))
                op, x, y = norm_cmp(name, a, b, tv)
                if op in ('eq', 'ne') and x > y:
                    x, y = y, x
                out.append('%s(%s,%s)' % (op, x, y))
                continue
            if name == 'enabled' and 'Spec' in r[1] and tv is not None:
                a = '|'.join(sorted(canon_origin(f, og, x, 1) for x in og.of_operand(t.args[-1])))
                out.append('%s%s' % ('' if tv else '!', 'enabled(%s)' % a))
                continue
            if name == 'is_enabled_in' and tv is not None:
                a = '|'.join(sorted(canon_origin(f, og, x, 1) for x in og.of_operand(t.args[-1])))
                out.append('%s%s' % ('' if tv else '!', 'enabled(%s)' % a))
                continue
            s = canon_origin(f, og, o)
            if tv is not None:
                out.append(('' if tv else '!') + s)
            else:
                out.append('%s in %s' % (s, list(g.vals)))
        elif r[0] == 'bin' and r[1] in BIN_CMP and tv is not None and not o.path:
            a = '|'.join(sorted(canon_origin(f, og, x, 1) for x in r[2]))
            b = '|'.join(sorted(canon_origin(f, og, x, 1) for x in r[3]))
            op, x, y = norm_cmp(BIN_CMP[r[1]], a, b, tv)
            if op in ('eq', 'ne') and x > y:
                x, y = y, x
            out.append('%s(%s,%s)' % (op, x, y))
        elif r[0] == 'discr':
            inner = '|'.join(sorted(canon_origin(f, og, x, 1) for x in r[1]))
            adt = g.term and None
            # name the variant(s)
            names = []
            for x in r[1]:
                pass
            vals = list(g.vals)
            out.append('discr(%s)=%s' % (inner, variant_names(fx, f, g, vals)))
        else:
            s = canon_origin(f, og, o)
            if tv is not None:
                out.append(('' if tv else '!') + s)
            else:
                out.append('%s in %s' % (s, list(g.vals)))
    return out


def variant_names(fx, f, g, vals):
    """variant names for a switch on a discriminant"""
    b = f.blocks[g.sb]
    adt = None
    d = g.term.switch_discr()
    if d.place is not None:
        for blk in f.blocks:
            for s in blk.stmts:
                if s.kind == 'assign' and s.place.b == d.place.b and not s.place.pr and s.rv.rv == 'discr':
                    adt = s.rv.d.get('adt')
    if adt is None:
        return str(vals)
    listed = [v for v, _ in g.term.d['arms']]
    names = []
    for v in vals:
        if v == 'otherwise':
            a = fx.adts.get(adt) or fx.adt(adt)
            if a:
                for i, var in enumerate(a['variants']):
                    if var.get('discr', i) not in listed:
                        names.append(var['name'])
        else:
            names.append(fx.variant_by_discr(adt, v) or str(v))
    return '|'.join(sorted(names))


def ok_blocks(f):
    out = []
    for b in f.blocks:
        if b.cleanup:
            continue
        for s in b.stmts:
            if s.kind == 'assign' and s.place.b == 0 and not s.place.pr and s.rv.rv == 'agg' and s.rv.d.get('variant') == 'Ok':
                out.append(b.i)
    return out


def error_sites(f, enum_suffix):
    """(block, variant) for every construction of an `enum_suffix` error variant"""
    out = []
    for b in f.blocks:
        if b.cleanup:
            continue
        for s in b.stmts:
            if s.kind == 'assign' and s.rv.rv == 'agg' and s.rv.d.get('adt', '').endswith(enum_suffix):
                out.append((b.i, s.rv.d['variant']))
    return out


def rule_table(fx, f, enum_suffix, _depth=0):
    """variant -> list of frozenset(literals) (one per site)"""
    og = Origins(f, fx)
    oks = ok_blocks(f)
    common = None
    for ob in oks:
        lits = set()
        for g in guards_of(f, og, ob):
            lits.update(canon_guard(fx, f, og, g))
        common = lits if common is None else (common & lits)
    common = common or set()
    table = {}
    for bi, variant in error_sites(f, enum_suffix):
        lits = set()
        for g in guards_of(f, og, bi):
            lits.update(canon_guard(fx, f, og, g))
        table.setdefault(variant, []).append((frozenset(lits - common), bi))
    # a rule moved into a new private helper (called with `?`) is still a rule of this function:
    # its rejections count as rejections here, under the guards of the call site as well
    if _depth < 2:
        from symx import KNOWN_PRIVATE
        for bi, t in f.calls():
            g = fx.fns.get(t.target_fn or '')
            if g is None or g.nq == f.nq or g.nq in KNOWN_PRIVATE or not str(g.d.get('vis', '')).startswith('Restricted'):
                continue
            if 'Result' not in (g.local_ty(0) or ''):
                continue
            sub, _c = rule_table(fx, g, enum_suffix, _depth + 1)
            here = set()
            for gd in guards_of(f, og, bi):
                here.update(canon_guard(fx, f, og, gd))
            for variant, sites in sub.items():
                for lits, _sb in sites:
                    table.setdefault(variant, []).append((frozenset((set(lits) | here) - common), bi))
    return table, common
