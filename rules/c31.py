"""C31 — reusing an EVM instance is equivalent to using a fresh one (reset skeleton).

R1 every exit of transact / transact_preverified / preverify_transaction passes through Evm::clear,
   the clear handler resets the error slot and the journal, JournaledState::clear rebuilds every
   field (shared with C02 R2);
R2 finalize: every field of JournaledState is either reset / taken by finalize or is one of the two
   listed fields that the following clear() rebuilds (spec is configuration,
   warm_preloaded_addresses is emptied by clear);
R3 per-transaction re-initialisation precedes execution: load_accounts (sets the journal's spec id
   from SPEC), load_precompiles + set_precompiles, deduct_caller, all dominate the first frame;
R4 Evm::new propagates the handler's spec id to the journal;
R5 the context error slot is taken (reset) by the frame loop and by output before a result is built.
"""
import c02
import c34
from cfg import cfg_of, Origins

META = {
    'level': 'other',
    'decides': 'that all transaction-scoped state (journal, logs, transient storage, depth, warm set, error slot, precompile set) is rebuilt on every exit path or re-initialised before the next execution',
    'does_not_decide': 'equivalence of results over transaction sequences; caches held by the database layer',
    'explanation': 'Must-pass-through on the entry points (shared with C02), field coverage of finalize against the ADT field list, dominance of the per-transaction initialisation over the first frame.',
}

JS = 'revm::journaled_state::JournaledState'


def run(ctx, rep):
    fx = ctx.facts('default')
    c02.check_clear_paths(fx, rep)
    c02.check_clear_handlers(fx, rep)
    check_finalize(fx, rep)
    c34.check_prewarm(fx, _Only(rep, ('order', 'precompiles')))
    check_spec_propagation(fx, rep)
    check_error_slot(fx, rep)
    rep.assume('database-side caches (CacheDB, State) are part of the committed state, not of the EVM instance')


class _Only:
    """forward only the named instances of another module's rule"""

    def __init__(self, rep, keys):
        self.rep = rep
        self.keys = keys

    def ok(self, rule, key, *a, **k):
        if key in self.keys:
            self.rep.ok('R3-per-tx-init', key, *a, **k)

    def violation(self, rule, key, *a, **k):
        if key.split(':')[0] in self.keys:
            self.rep.violation('R3-per-tx-init', key, *a, **k)

    def undecided(self, rule, key, *a, **k):
        if key.split(':')[0] in self.keys:
            self.rep.undecided('R3-per-tx-init', key, *a, **k)

    def fn(self, f):
        self.rep.fn(f)


def check_finalize(fx, rep):
    f = fx.fns.get(JS + '::finalize')
    adt = fx.adts.get(JS)
    if f is None or adt is None:
        rep.undecided('R2-finalize-coverage', 'finalize', 'not found')
        return
    rep.fn(f)
    og = Origins(f, fx)
    fields = [x['name'] for x in adt['variants'][0]['fields']]
    touched = set()
    for b in f.blocks:
        if b.cleanup:
            continue
        for s in b.stmts:
            if s.kind == 'assign' and '*' in s.place.pr:
                for o in og.of_place(s.place):
                    if o.root == ('param', 1) and o.path:
                        touched.add(o.path[0][1:])
        t = b.term
        if t.kind == 'call' and (t.callee or '').endswith(('mem::take', 'mem::replace')):
            for o in og.of_operand(t.args[0]):
                if o.root == ('param', 1) and o.path:
                    touched.add(o.path[0][1:])
        if t.kind == 'drop':
            pass
    kept_ok = {'spec': 'configuration, kept on purpose', 'warm_preloaded_addresses': 'emptied by JournaledState::clear, which follows on every exit (R1)'}
    for fld in fields:
        key = 'field:' + fld
        if fld in touched:
            rep.ok('R2-finalize-coverage', key, 'reset or taken by finalize')
        elif fld in kept_ok:
            rep.ok('R2-finalize-coverage', key, kept_ok[fld], nontrivial=False)
        else:
            rep.violation('R2-finalize-coverage', key, 'JournaledState.%s is neither reset nor taken by finalize: it leaks into the next transaction' % fld, f.where())
    rep.floor('journaled-state-fields', len(fields), 7)


def check_spec_propagation(fx, rep):
    f = fx.fns.get('revm::evm::Evm::new')
    if f is None:
        rep.undecided('R4-spec-id', 'Evm::new', 'not found')
    else:
        rep.fn(f)
        og = Origins(f, fx)
        ok = False
        for bi, t in f.calls():
            if (t.target_fn or '').endswith('JournaledState::set_spec_id'):
                oo = og.of_operand(t.args[1])
                if all(o.path[-2:] == ('.cfg', '.spec_id') for o in oo):
                    ok = True
        if ok:
            rep.ok('R4-spec-id', 'Evm::new', 'journal spec id = handler.cfg.spec_id')
        else:
            rep.violation('R4-spec-id', 'Evm::new', 'Evm::new does not hand the handler\'s spec id to the journal', f.where())
    g = fx.fns.get('revm::handler::mainnet::pre_execution::load_accounts')
    if g is not None:
        rep.fn(g)
        og = Origins(g, fx)
        ok = False
        for bi, t in g.calls():
            if (t.target_fn or '').endswith('JournaledState::set_spec_id'):
                oo = og.of_operand(t.args[1])
                if all(o.root[0] == 'const' and 'SPEC_ID' in str(o.root[2]) for o in oo):
                    ok = True
        if ok:
            rep.ok('R4-spec-id', 'load_accounts', 'journal spec id re-set from SPEC::SPEC_ID at the start of every transaction')
        else:
            rep.violation('R4-spec-id', 'load_accounts', 'load_accounts does not re-set the journal\'s spec id', g.where())


def check_error_slot(fx, rep):
    for nq, nm in (('revm::evm::Evm::run_the_loop', 'run_the_loop'), ('revm::handler::mainnet::post_execution::output', 'output')):
        f = fx.fns.get(nq)
        if f is None:
            rep.undecided('R5-error-slot', nm, 'not found')
            continue
        rep.fn(f)
        if any((t.target_fn or '').endswith('take_error') for _, t in f.calls()):
            rep.ok('R5-error-slot', nm, 'take_error')
        else:
            rep.violation('R5-error-slot', nm, '%s does not take (reset) the context error slot' % nm, f.where())
    g = fx.fns.get('revm::context::inner_evm_context::InnerEvmContext::take_error')
    if g is not None:
        rep.fn(g)
        og = Origins(g, fx)
        ok = False
        for bi, t in g.calls():
            if (t.callee or '').endswith(('mem::replace', 'mem::take')):
                recv = og.of_operand(t.args[0])
                if all(o.path[-1:] == ('.error',) for o in recv):
                    ok = True
        if ok:
            rep.ok('R5-error-slot', 'take_error', 'replaces self.error')
        else:
            rep.violation('R5-error-slot', 'take_error', 'take_error does not reset the error slot', g.where())
