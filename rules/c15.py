"""C15 — state database reads reflect exactly the committed history (the decidable skeleton).

Equality with a reference store over all histories is not statically decidable.  The account
bookkeeping of the block-state database is a finite machine over AccountStatus, and how an EVM
account is folded into it is a finite decision; those are decided completely:
R1 CacheState::apply_account_state as a decision table over {touched, selfdestructed, created,
   empty, has_state_clear} against EIP-161/EIP-6780 handling (skip untouched; selfdestruct before
   created; created before the empty test; empty+state-clear removes the account); the sibling
   CacheDB::commit orders the same tests the same way and only stores changed (present) values;
R2 the status machine: on_created, on_changed, on_selfdestructed, on_touched_empty_post_eip161,
   on_touched_created_pre_eip161 and transition, extracted for all 8 states x inputs, equal the
   reference machine derived from the meaning of the states, and satisfy the invariants I1..I6;
R3 the CacheAccount operations: the status stored is on_X(old status), the transition returned
   records the new status, the old status and the old info, storage_was_destroyed is set exactly
   by selfdestruct / touch_empty, and no transition is returned exactly when nothing changed;
R4 reads: State::storage / has_storage ask the database only when the status says storage is not
   fully known; State::basic goes through load_cache_account, which classifies a database answer
   as not-existing / empty / loaded.
"""
import itertools

import tables
from cfg import cfg_of, guards_of
from symx import Symx, Budget, K, render, lit_truth

META = {
    'level': 'other',
    'decides': 'the account-status machine (all states x events) against a reference machine and invariants; the decision by which an executed account becomes selfdestruct / create / touch-empty / change; that the cache-account operations record old and new status and info; that database reads are guarded by storage knowledge; the truth tables of the AccountInfo predicates the machine branches on; that has_storage answers true only on a non-zero cached slot; that balance increments edit the cached account in place',
    'does_not_decide': 'equality of reads with a reference store over whole histories (storage values across many transactions), and the equivalence State = CacheDB over executions',
    'explanation': 'Per-variant partial evaluation of the status functions (complete tables); path enumeration of apply_account_state / CacheDB::commit / CacheAccount operations with symbolic records; guard extraction for the database reads.',
}

AS = 'revm::db::states::account_status::AccountStatus'
CA = 'revm::db::states::cache_account::CacheAccount::'
ACC = 'revm_primitives::state::Account::'
ST = ['LoadedNotExisting', 'Loaded', 'LoadedEmptyEIP161', 'InMemoryChange', 'Changed', 'Destroyed', 'DestroyedChanged', 'DestroyedAgain']
LNE, L, LE, IMC, C, D, DC, DA = ST
WIPED = {D, DC, DA}
NOT_MODIFIED = {LNE, L, LE}
KNOWN = {LNE, IMC, D, DC, DA}
GONE = {LNE, D, DA}              # no account at this address now
ALIVE_CHANGED = {IMC, C, DC}
UNREACH = 'unreachable'


# ------------------------------------------------------------------ reference machine

def ref_created(s):
    return DC if s in WIPED else IMC


def ref_selfdestructed(s):
    if s == LNE:
        return LNE
    return DA if s in WIPED else D


def ref_changed(s, had_no_nonce_and_code):
    if s in WIPED:
        return DC
    if s in (LNE, LE, IMC):
        return IMC
    if s == L:
        return IMC if had_no_nonce_and_code else C
    return C


def ref_touched_empty(s):
    if s == LNE:
        return LNE
    if s in (L, C):
        return UNREACH            # a non-empty database account that became empty has been changed first
    if s in (DA, DC):
        return DA
    return D


def ref_touched_created_pre(s, had_no_info):
    if s == LE:
        return None
    if s in (L, C):
        return UNREACH
    if s == DC:
        return None if had_no_info else DC
    if s in (D, DA):
        return DC
    return IMC


def ref_transition(s, o):
    if s in WIPED and o not in WIPED:
        return DC
    if s not in WIPED and o not in WIPED and s == IMC:
        return IMC
    return o


def run(ctx, rep):
    fx = ctx.facts('default')
    tabs = check_status_machine(fx, rep)
    check_apply(fx, rep)
    check_commit(fx, rep)
    check_cache_account(fx, rep)
    check_reads(fx, rep)
    check_has_storage_answers(fx, rep)
    check_info_predicates(fx, rep)
    rep.assume('the EVM only creates accounts whose storage is empty (C21) and only empties accounts it has changed first')


# ------------------------------------------------------------------ R2

def variant_of(fx, v):
    if v is None:
        return None
    if v[0] == 'agg' and v[1].endswith('AccountStatus'):
        return v[2]
    if v[0] == 'k':
        return fx.variant_by_discr(AS, int(v[1]))
    if v[0] == 'agg' and v[1].endswith('Option'):
        if v[2] == 'None':
            return None
        return variant_of(fx, v[4][0])
    return '?' + render(v)[:40]


def status_table(fx, fn, extra=((),), inline=(), out='ret'):
    """(state, extra args) -> resulting variant | UNREACH | None (Option::None)"""
    adt = fx.adts[AS]
    res = {}
    for i, v in enumerate(adt['variants']):
        d = v.get('discr', i)
        for ex in extra:
            args = [('ref', ('arg', 1), ())] + [K(int(x)) if not isinstance(x, str) else K(fx.discr_of(AS, x)) for x in ex]
            try:
                rs = Symx(fx, max_paths=300, inline=inline).run(fn, args, store={(('arg', 1), ()): K(d)})
            except Budget:
                res[(v['name'],) + tuple(ex)] = '?budget'
                continue
            if not rs:
                res[(v['name'],) + tuple(ex)] = UNREACH
                continue
            vals = set()
            for r in rs:
                if out == 'ret':
                    vals.add(variant_of(fx, r.ret))
                else:
                    st = [val for (root, path), val in r.stores.items() if root == ('arg', 1) and path == ()]
                    vals.add(variant_of(fx, st[0]) if st else v['name'])
            res[(v['name'],) + tuple(ex)] = list(vals)[0] if len(vals) == 1 else '?ambiguous%s' % sorted(map(str, vals))
    return res


def check_status_machine(fx, rep):
    specs = [
        ('on_created', ((),), lambda s: ref_created(s)),
        ('on_selfdestructed', ((),), lambda s: ref_selfdestructed(s)),
        ('on_changed', ((0,), (1,)), lambda s, f: ref_changed(s, bool(f))),
        ('on_touched_empty_post_eip161', ((),), lambda s: ref_touched_empty(s)),
        ('on_touched_created_pre_eip161', ((0,), (1,)), lambda s, f: ref_touched_created_pre(s, bool(f))),
    ]
    tabs = {}
    n = 0
    for name, extra, ref in specs:
        f = fx.fns.get(AS + '::' + name)
        if f is None:
            rep.undecided('R2-status-machine', name, 'function not found')
            continue
        rep.fn(f)
        t = status_table(fx, f, extra)
        tabs[name] = t
        for key, got in sorted(t.items()):
            want = ref(*key)
            n += 1
            inst = '%s(%s)' % (name, ', '.join(map(str, key)))
            if got == want:
                rep.ok('R2-status-machine', inst, str(got))
            else:
                rep.violation('R2-status-machine', inst, 'AccountStatus::%s maps %s to %s; the status machine requires %s' % (name, key, got, want), f.where())
    f = fx.fns.get(AS + '::transition')
    if f is None:
        rep.undecided('R2-status-machine', 'transition', 'function not found')
    else:
        rep.fn(f)
        t = status_table(fx, f, tuple((o,) for o in ST), inline={AS + '::was_destroyed'}, out='store')
        tabs['transition'] = t
        for key, got in sorted(t.items()):
            want = ref_transition(*key)
            n += 1
            inst = 'transition(%s, %s)' % key
            if got == want:
                rep.ok('R2-status-machine', inst, str(got))
            else:
                rep.violation('R2-status-machine', inst, 'AccountStatus::transition turns %s followed by %s into %s; composing the two requires %s' % (key[0], key[1], got, want), f.where())
    rep.floor('R2-cells', n, 8 + 8 + 16 + 8 + 16 + 64)
    check_predicates(fx, rep)
    check_invariants(rep, tabs)
    return tabs


def check_predicates(fx, rep):
    from c21 import enum_predicate
    want = {'is_not_modified': NOT_MODIFIED, 'was_destroyed': WIPED, 'is_storage_known': KNOWN, 'is_modified_and_not_destroyed': {C, IMC}}
    for name, truth in want.items():
        f = fx.fns.get(AS + '::' + name)
        tb = enum_predicate(fx, f, AS) if f is not None else None
        if tb is None:
            rep.undecided('R2-status-machine', 'predicate:' + name, 'not a match over the status')
            continue
        rep.fn(f)
        got = {s for s, v in tb.items() if v}
        if got == truth:
            rep.ok('R2-status-machine', 'predicate:' + name, ', '.join(sorted(got)))
        else:
            rep.violation('R2-status-machine', 'predicate:' + name, 'AccountStatus::%s holds for %s; the meaning of the states requires %s' % (name, sorted(got), sorted(truth)), f.where())


def check_invariants(rep, tabs):
    """semantic invariants of the extracted tables (independent of the cell-by-cell reference)"""
    def cells(name):
        return [(kx, v) for kx, v in tabs.get(name, {}).items() if v not in (UNREACH,) and not (isinstance(v, str) and v.startswith('?'))]
    bad = []
    # I1 once wiped, always wiped
    for name in ('on_created', 'on_changed', 'on_selfdestructed', 'on_touched_empty_post_eip161', 'on_touched_created_pre_eip161'):
        for kx, v in cells(name):
            if kx[0] in WIPED and v is not None and v not in WIPED:
                bad.append(('I1-wiped-is-closed', '%s%s -> %s forgets that the storage was wiped' % (name, kx, v)))
    # I2 after selfdestruct / touch-empty there is no account; after create / change there is a changed one
    for name in ('on_selfdestructed', 'on_touched_empty_post_eip161'):
        for kx, v in cells(name):
            if v not in GONE:
                bad.append(('I2-result-class', '%s%s -> %s still describes an existing account' % (name, kx, v)))
    for name in ('on_created', 'on_changed'):
        for kx, v in cells(name):
            if v not in ALIVE_CHANGED:
                bad.append(('I2-result-class', '%s%s -> %s does not describe a changed account' % (name, kx, v)))
    # I3 creation makes the storage fully known
    for kx, v in cells('on_created'):
        if v not in KNOWN:
            bad.append(('I3-created-known', 'on_created%s -> %s leaves storage to be read from the database' % (kx, v)))
    # I4 a change never forgets known storage, and learns it only for accounts without code and nonce / empty ones
    for kx, v in cells('on_changed'):
        if kx[0] in KNOWN and v not in KNOWN:
            bad.append(('I4-known-monotone', 'on_changed%s -> %s forgets that the storage is fully known' % (kx, v)))
        if kx[0] not in KNOWN and v in KNOWN and not (kx[0] == LE or (kx[0] == L and kx[1] == 1)):
            bad.append(('I4-known-monotone', 'on_changed%s -> %s claims the storage is fully known without a reason' % (kx, v)))
    # I5 composition: wiped on either side stays wiped, the later status wins otherwise except in-memory knowledge
    for kx, v in cells('transition'):
        s, o = kx
        if (s in WIPED or o in WIPED) and v not in WIPED:
            bad.append(('I5-transition', 'transition%s -> %s loses the wipe' % (kx, v)))
        if o in WIPED and v != o:
            bad.append(('I5-transition', 'transition%s -> %s; a later destroyed status must be kept as is' % (kx, v)))
        if s in KNOWN and s not in (LNE,) and o not in WIPED and v not in KNOWN:
            bad.append(('I5-transition', 'transition%s -> %s forgets that the storage is fully known' % (kx, v)))
    # I6 only LoadedNotExisting may stay unmodified
    for name in ('on_created', 'on_changed', 'on_selfdestructed', 'on_touched_empty_post_eip161'):
        for kx, v in cells(name):
            if v in NOT_MODIFIED and not (kx[0] == LNE and v == LNE):
                bad.append(('I6-modified', '%s%s -> %s reports an unmodified account after an event' % (name, kx, v)))
    seen = set()
    for inv, msg in bad:
        rep.violation('R2-invariants', inv + ':' + msg.split(' ->')[0], msg)
        seen.add(inv)
    for inv in ('I1-wiped-is-closed', 'I2-result-class', 'I3-created-known', 'I4-known-monotone', 'I5-transition', 'I6-modified'):
        if inv not in seen:
            rep.ok('R2-invariants', inv, 'holds on the extracted tables')


# ------------------------------------------------------------------ R1

def decision_rows(fx, f, pure, interesting):
    rs = Symx(fx, max_paths=4000, snapshot_refs=True, pure=pure).run(f)
    rows = []
    for r in rs:
        lits = {}
        for (sv, lit, _f, _b) in r.lits:
            txt = render(sv)
            tv = lit_truth(lit)
            name = None
            for nm in interesting:
                if nm in txt:
                    name = nm
            if name is None or tv is None:
                continue
            lits[name] = tv
        ev = [e[0].split('::')[-1] for e in r.events]
        rows.append((lits, ev, r))
    return rows


def check_apply(fx, rep):
    f = fx.fns.get('revm::db::states::cache::CacheState::apply_account_state')
    if f is None:
        rep.undecided('R1-apply-decision', 'apply_account_state', 'not found')
        return
    rep.fn(f)
    atoms = ['is_touched', 'is_selfdestructed', 'is_created', 'is_empty', 'has_state_clear']
    ops = ('selfdestruct', 'newly_created', 'touch_empty_eip161', 'touch_create_pre_eip161', 'change')
    try:
        rows = decision_rows(fx, f, {ACC + a for a in atoms[:4]}, atoms)
    except Budget:
        rep.undecided('R1-apply-decision', 'apply_account_state', 'path budget', f.where())
        return

    def want(a):
        if not a['is_touched']:
            return 'skip'
        if a['is_selfdestructed']:
            return 'selfdestruct'
        if a['is_created']:
            return 'newly_created'
        if a['is_empty']:
            return 'touch_empty_eip161' if a['has_state_clear'] else 'touch_create_pre_eip161'
        return 'change'
    n = 0
    for vals in itertools.product((False, True), repeat=len(atoms)):
        a = dict(zip(atoms, vals))
        got = set()
        for lits, ev, r in rows:
            if all(a[k_] == v for k_, v in lits.items()):
                called = [e for e in ev if e in ops]
                got.add(called[0] if len(called) == 1 else ('skip' if not called else '+'.join(called)))
        n += 1
        key = ','.join('%s=%d' % (k_, v) for k_, v in a.items())
        if got == {want(a)}:
            rep.ok('R1-apply-decision', key, want(a), nontrivial=False)
        else:
            rep.violation('R1-apply-decision', key, 'apply_account_state performs %s for an account with %s; EIP-161/EIP-6780 handling requires %s' % (sorted(got), key, want(a)), f.where())
    rep.floor('R1-cells', n, 32)
    # only changed slots are forwarded
    cl = [g for g in fx.closures_of(f.nq)] if hasattr(fx, 'closures_of') else []
    filt = [g for g in cl if any((t.callee or '').endswith('EvmStorageSlot::is_changed') for _, t in g.calls())]
    if filt:
        rep.ok('R1-apply-decision', 'storage-filter', 'only slots with is_changed() are applied')
    else:
        rep.violation('R1-apply-decision', 'storage-filter', 'apply_account_state does not filter the storage by is_changed(): unchanged slots would be recorded as transitions', f.where())


def check_commit(fx, rep):
    f = None
    for g in fx.fns_all:
        if g.name == 'commit' and (g.impl_trait or '').endswith('DatabaseCommit') and 'CacheDB' in (g.impl_self or ''):
            f = g
    if f is None:
        rep.undecided('R1-cachedb-commit', 'commit', 'impl DatabaseCommit for CacheDB not found')
        return
    rep.fn(f)
    check_commit_states(fx, rep, f)
    # order of the tests on each account: touched, then selfdestructed, then created
    cfg = cfg_of(f)
    order = []
    for bi, t in f.calls():
        nm = (t.callee or '').split('::')[-1]
        if nm in ('is_touched', 'is_selfdestructed', 'is_created') and (t.callee or '').startswith(ACC):
            order.append((bi, nm))
    names = [nm for _, nm in order]
    if names != ['is_touched', 'is_selfdestructed', 'is_created']:
        rep.violation('R1-cachedb-commit', 'test-order', 'CacheDB::commit tests %s; the block-state database tests touched, selfdestructed, created in that order' % names, f.where())
        return
    ok = all(cfg.dominates(order[i][0], order[i + 1][0]) for i in range(2))
    if not ok:
        rep.violation('R1-cachedb-commit', 'test-order', 'the touched / selfdestructed / created tests of CacheDB::commit are not nested in that order', f.where())
    else:
        rep.ok('R1-cachedb-commit', 'test-order', 'touched > selfdestructed > created')
    # branch effects: under selfdestructed the account is reset, under created the storage is cleared
    eff = {}
    for bi, t in f.calls():
        nm = (t.callee or '')
        if nm.endswith('HashMap::clear') or nm.endswith('::clear'):
            g = guards_of(f, bi, fx)
            conds = set()
            for gd in g:
                for c_ in getattr(gd, 'calls', lambda: [])():
                    conds.add(c_)
            eff.setdefault('clear', []).append(bi)
    if len(eff.get('clear', [])) >= 2:
        rep.ok('R1-cachedb-commit', 'storage-cleared', 'storage cleared on selfdestruct and on create')
    else:
        rep.violation('R1-cachedb-commit', 'storage-cleared', 'CacheDB::commit clears the stored storage at %d place(s); both selfdestruct and create must drop the old storage' % len(eff.get('clear', [])), f.where())
    pv = [g for g in fx.closures_of(f.nq)] if hasattr(fx, 'closures_of') else []
    if any((t.callee or '').endswith('EvmStorageSlot::present_value') for g in pv for _, t in g.calls()):
        rep.ok('R1-cachedb-commit', 'present-values', 'stores present_value of each slot')
    else:
        rep.violation('R1-cachedb-commit', 'present-values', 'CacheDB::commit does not store the present value of the committed slots', f.where())


def check_commit_states(fx, rep, f):
    """the account_state written by CacheDB::commit, per kind of account and previous state.
    Reading rule of CacheDB::storage / has_storage_ref: the wrapped database is asked unless the
    state is StorageCleared or NotExisting; hence an account that does not exist (never did, or was
    self-destructed) must not become `Touched`, or the wrapped database's stale slots reappear."""
    ASN = 'revm::db::in_memory_db::AccountState'
    adt = fx.adts.get(ASN)
    if adt is None:
        rep.undecided('R1-cachedb-commit', 'account-state', 'AccountState not found')
        return
    try:
        rs = Symx(fx, max_paths=4000, snapshot_refs=True, pure={ACC + 'is_touched', ACC + 'is_selfdestructed', ACC + 'is_created'},
                  inline={ASN + '::is_storage_cleared'}).run(f)
    except Budget:
        rep.undecided('R1-cachedb-commit', 'account-state', 'path budget', f.where())
        return
    variants = {v.get('discr', i): v['name'] for i, v in enumerate(adt['variants'])}
    table = {}
    for r in rs:
        if not r.cut:
            continue
        kind = None
        admits = set(variants)
        for (sv, lit, _f, _b) in r.lits:
            txt = render(sv)
            tv = lit_truth(lit)
            if txt.startswith('is_touched(') and tv is False:
                kind = 'untouched'
            elif txt.startswith('is_selfdestructed(') and tv:
                kind = 'selfdestructed'
            elif txt.startswith('is_created('):
                kind = 'created' if tv else 'other'
            elif 'account_state' in txt and txt.startswith('discr('):
                if lit[0] == 'eq':
                    admits &= {lit[1]}
                elif lit[0] == 'ne':
                    admits -= set(lit[1])
        st = [v for (root, path), v in r.stores.items() if path and path[-1] == '.account_state']
        new = st[0][2] if st and st[0][0] == 'agg' else (None if not st else '?')
        for d in admits:
            table[(kind, variants[d])] = new
    want = {}
    for old in variants.values():
        want[('selfdestructed', old)] = 'NotExisting'
        want[('created', old)] = 'StorageCleared'
        want[('other', old)] = 'StorageCleared' if old in ('StorageCleared', 'NotExisting') else 'Touched'
    n = 0
    for key, w in sorted(want.items()):
        got = table.get(key, 'no path')
        n += 1
        inst = 'account-state:%s:%s' % key
        if got == w:
            rep.ok('R1-cachedb-commit', inst, w, nontrivial=False)
        else:
            rep.violation('R1-cachedb-commit', inst, 'CacheDB::commit leaves a %s account whose state was %s in state %s; %s is required (CacheDB::storage asks the wrapped database unless the state is StorageCleared or NotExisting)' % (
                'touched' if key[0] == 'other' else key[0], key[1], got, w), f.where())
    rep.floor('R1-cachedb-states', n, 12)


# ------------------------------------------------------------------ R3

def field(v, name):
    if v[0] == 'agg' and name in v[3]:
        return v[4][v[3].index(name)]
    return None


def check_cache_account(fx, rep):
    OLD = ('proj', ('sym', 'arg1'), ('.status',))
    specs = {
        # method: (status fn, storage_was_destroyed, returns Option)
        'selfdestruct': ('on_selfdestructed', 1, True),
        'touch_empty_eip161': ('on_touched_empty_post_eip161', 1, True),
        'touch_create_pre_eip161': ('on_touched_created_pre_eip161', 0, True),
        'newly_created': ('on_created', 0, False),
        'change': ('on_changed', 0, False),
        'account_info_change': ('on_changed', 0, False),
    }
    n = 0
    for m, (sfn, wiped, opt) in specs.items():
        f = fx.fns.get(CA + m)
        if f is None:
            rep.undecided('R3-cache-account', m, 'not found')
            continue
        rep.fn(f)
        try:
            rs = Symx(fx, max_paths=600, snapshot_refs=True).run(f)
        except Budget:
            rep.undecided('R3-cache-account', m, 'path budget', f.where())
            continue
        problems = []
        somes = 0
        for r in rs:
            st = [v for (root, path), v in r.stores.items() if root == ('arg', 1) and path == ('.status',)]
            ret = r.ret
            if m == 'account_info_change' and ret[0] == 'agg' and len(ret[4]) == 2:
                ret = ret[4][1]
            tr = None
            if ret[0] == 'agg' and ret[1].endswith('Option'):
                if ret[2] == 'Some':
                    tr = ret[4][0]
            elif ret[0] == 'agg' and ret[1].endswith('TransitionAccount'):
                tr = ret
            elif opt and ret[0] == 'call':
                continue            # `?` on the status function returning None: no transition, no store
            newv = st[0] if st else None
            if newv is None:
                if tr is not None:
                    problems.append('a transition is returned without storing a new status')
                continue
            base = newv
            if base[0] == 'proj' and base[2] and base[2][0].startswith('@'):
                base = base[1]
            if not (base[0] == 'call' and base[1] == AS + '::' + sfn and base[2] and strip(base[2][0]) == OLD):
                problems.append('stores the status %s, expected %s(old status)' % (render(newv)[:80], sfn))
            if tr is None:
                continue
            somes += 1
            if field(tr, 'status') != newv:
                problems.append('transition.status is %s, not the stored new status' % render(field(tr, 'status') or ('sym', '?'))[:60])
            if field(tr, 'previous_status') != OLD:
                problems.append('transition.previous_status is %s, not the status before the operation' % render(field(tr, 'previous_status') or ('sym', '?'))[:60])
            swd = field(tr, 'storage_was_destroyed')
            if swd != K(wiped):
                problems.append('transition.storage_was_destroyed is %s, expected %s' % (render(swd or ('sym', '?')), bool(wiped)))
            pi = render(field(tr, 'previous_info') or ('sym', '?'))
            if 'account' not in pi and 'None' not in pi:
                problems.append('transition.previous_info does not come from the cached account: %s' % pi[:60])
        if not somes:
            problems.append('no path returns a transition')
        n += 1
        if problems:
            rep.violation('R3-cache-account', m, 'CacheAccount::%s: %s' % (m, sorted(set(problems))[0]), f.where())
        else:
            rep.ok('R3-cache-account', m, '%s(old) stored and recorded; storage_was_destroyed=%d' % (sfn, wiped))
    rep.floor('R3-methods', n, 6)
    check_storage_disposition(fx, rep)
    check_info_change_keeps_account(fx, rep)
    # when no transition is returned
    none_specs = {'selfdestruct': {LNE}, 'touch_empty_eip161': {LNE, D, DA}}
    for m, want in none_specs.items():
        f = fx.fns.get(CA + m)
        if f is None:
            continue
        got = set()
        for s in ST:
            rs = Symx(fx, max_paths=300, snapshot_refs=True).run(f, store={(('arg', 1), ('.status',)): K(fx.discr_of(AS, s))})
            kinds = {(r.ret[2] if r.ret[0] == 'agg' else '?') for r in rs}
            if kinds == {'None'}:
                got.add(s)
            elif kinds != {'Some'}:
                got.add('%s:%s' % (s, sorted(kinds)))
        if got == want:
            rep.ok('R3-cache-account', m + ':no-transition', 'exactly from %s' % sorted(want))
        else:
            rep.violation('R3-cache-account', m + ':no-transition', 'CacheAccount::%s returns no transition from %s; nothing changes only from %s' % (m, sorted(got), sorted(want)), f.where())


def check_storage_disposition(fx, rep):
    """what happens to the slots the cache already holds for the account: a change or a pre-EIP-161
    touch keeps them (only changed slots arrive with the transaction), creation and destruction
    drop them"""
    def m_extend(sx, args, t):
        old = sx.read_ref(args[0])
        return ('__effects__', [(args[0], ('call', 'extended', (old, args[1]), None))], ('agg', 'tuple', None, (), ()))
    keep = {'change': True, 'touch_create_pre_eip161': True, 'newly_created': False}
    for m, want_keep in keep.items():
        f = fx.fns.get(CA + m)
        if f is None:
            rep.undecided('R3-cache-account', m + ':cached-storage', 'not found')
            continue
        names = set()
        for _, t in f.calls():
            for nmx in t.names():
                if nmx.endswith('::extend'):
                    names.add(nmx)
        try:
            rs = Symx(fx, max_paths=600, models={nmx: m_extend for nmx in names}).run(f)
        except Budget:
            rep.undecided('R3-cache-account', m + ':cached-storage', 'path budget', f.where())
            continue
        verdicts = set()
        for r in rs:
            acc = [v for (root, path), v in r.stores.items() if root == ('arg', 1) and path == ('.account',)]
            if not acc:
                continue
            a = acc[-1]
            if not (a[0] == 'agg' and a[2] == 'Some'):
                verdicts.add('account cleared')
                continue
            txt = render_deep(a)
            had_old = "take(&('arg', 1).account)" in txt and 'storage' in txt.split("take(&('arg', 1).account)", 1)[1][:40]
            # a path on which the cache had no account has nothing to keep
            none_path = any(render(l[0]).startswith("discr(take(&('arg', 1).account))") and l[1] != ('eq', 1) for l in r.lits)
            if none_path:
                continue
            verdicts.add('kept' if had_old else 'dropped')
        want = {'kept'} if want_keep else {'dropped'}
        if verdicts == want:
            rep.ok('R3-cache-account', m + ':cached-storage', sorted(want)[0])
        else:
            rep.violation('R3-cache-account', m + ':cached-storage', 'CacheAccount::%s: the slots already cached for the account are %s; they must be %s (the transaction only carries the slots it changed)' % (
                m, '/'.join(sorted(verdicts)) or 'untouched', 'kept' if want_keep else 'dropped'), f.where())


def check_info_change_keeps_account(fx, rep):
    """account_info_change (balance increments / drains between transactions) edits the info of the
    cached account in place: what it stores back is the account it took out of the cache - with its
    cached storage - not a new account built from the info alone."""
    f = fx.fns.get(CA + 'account_info_change')
    if f is None:
        rep.undecided('R3-cache-account', 'account_info_change:cached-storage', 'not found')
        return
    rep.fn(f)
    try:
        rs = Symx(fx, max_paths=600).run(f)
    except Budget:
        rep.undecided('R3-cache-account', 'account_info_change:cached-storage', 'path budget', f.where())
        return
    verdicts = set()
    for r in rs:
        for (root, path), v in r.stores.items():
            if root != ('arg', 1) or path != ('.account',):
                continue
            inner = v[4][0] if v[0] == 'agg' and v[2] == 'Some' and v[4] else None
            while inner is not None and inner[0] == 'with':
                mods = inner[2]
                if any(tuple(pth)[:1] != ('.info',) for pth, _val in mods):
                    verdicts.add('other fields rewritten')
                inner = inner[1]
            txt = render(inner) if inner is not None else 'None'
            src = inner[2][0] if inner is not None and inner[0] == 'call' and inner[2] else None
            if inner is not None and inner[1].endswith(('unwrap_or_default', 'unwrap')) and src is not None and src[0] == 'call' \
                    and src[1].endswith('Option::take') and src[2] and src[2][0] == ('ref', ('arg', 1), ('.account',)):
                verdicts.add('kept')
            else:
                verdicts.add('rebuilt from ' + txt[:50])
    if verdicts == {'kept'}:
        rep.ok('R3-cache-account', 'account_info_change:cached-storage', 'the cached account is edited in place')
    else:
        rep.violation('R3-cache-account', 'account_info_change:cached-storage', 'CacheAccount::account_info_change stores back %s: the storage cached for the account is lost, later reads ask the database again or answer zero' % sorted(verdicts), f.where())


def render_deep(v, depth=0):
    """render without the depth cut of symx.render (values here are small)"""
    if depth > 14:
        return '…'
    k_ = v[0]
    if k_ == 'agg':
        return '%s::%s{%s}' % (v[1].split('::')[-1], v[2], ', '.join('%s: %s' % (n, render_deep(x, depth + 1)) for n, x in zip(v[3] or range(len(v[4])), v[4])))
    if k_ == 'call':
        return '%s(%s)' % (v[1].split('::')[-1], ', '.join(render_deep(a, depth + 1) for a in v[2]))
    if k_ == 'proj':
        return render_deep(v[1], depth + 1) + ''.join(v[2])
    if k_ == 'valref':
        return '&' + render_deep(v[1], depth + 1)
    if k_ == 'with':
        return '%s with {%s}' % (render_deep(v[1], depth + 1), ', '.join('%s: %s' % (''.join(p), render_deep(x, depth + 1)) for p, x in v[2]))
    return render(v)


def strip(v):
    while v[0] in ('valref',):
        v = v[1]
    if v[0] == 'ref' and v[1] == ('arg', 1):
        return ('proj', ('sym', 'arg1'), tuple(v[2]))
    return v


# ------------------------------------------------------------------ R4

def check_reads(fx, rep):
    S = 'revm::db::states::state::State'
    found = {}
    for g in fx.fns_all:
        if (g.impl_self or '').startswith(S) and (g.impl_trait or '').endswith('::Database') and g.name in ('storage', 'has_storage', 'basic', 'code_by_hash'):
            found[g.name] = g
    for name in ('storage', 'has_storage'):
        f = found.get(name)
        if f is None:
            rep.undecided('R4-reads', name, 'impl Database for State::%s not found' % name)
            continue
        rep.fn(f)
        fns = [f] + list(fx.closures_of(f.nq))
        n = 0
        for g in fns:
            for bi, t in g.calls():
                if (t.callee or '').endswith('Database::' + name) or ((t.callee or '').endswith('::' + name) and 'Database' in (t.callee or '')):
                    n += 1
                    if known_guard(f, g, bi, fx):
                        rep.ok('R4-reads', name + ':database-read', 'guarded by !is_storage_known')
                    else:
                        rep.violation('R4-reads', name + ':database-read', 'State::%s asks the database for storage without testing is_storage_known(): a destroyed or newly created account would read stale slots' % name, g.where(bi))
        if n == 0:
            rep.violation('R4-reads', name + ':database-read', 'State::%s never reaches the underlying database' % name, f.where())
    f = found.get('basic')
    if f is not None:
        rep.fn(f)
        if any((t.target_fn or '').endswith('State::load_cache_account') for _, t in f.calls()):
            rep.ok('R4-reads', 'basic', 'through load_cache_account')
        else:
            rep.violation('R4-reads', 'basic', 'State::basic does not go through load_cache_account', f.where())
    lca = fx.fns.get(S + '::load_cache_account')
    if lca is None:
        rep.undecided('R4-reads', 'load_cache_account', 'not found')
        return
    rep.fn(lca)
    try:
        rs = Symx(fx, max_paths=3000, snapshot_refs=True, pure={'revm_primitives::state::AccountInfo::is_empty'}).run(lca)
    except Budget:
        rep.undecided('R4-reads', 'load_cache_account', 'path budget', lca.where())
        return
    seen = {}
    for r in rs:
        ctor = [e[0].split('::')[-1] for e in r.events if e[0].startswith(CA + 'new_')]
        if not ctor:
            continue
        cls = None
        empty = None
        for (sv, lit, _f, _b) in r.lits:
            txt = render(sv)
            if 'basic' in txt and 'discr' in txt and 'branch' not in txt:
                pass
            if 'is_empty' in txt:
                empty = lit_truth(lit)
        seen.setdefault(ctor[0], set()).add(empty)
    want = {'new_loaded_not_existing': {None}, 'new_loaded_empty_eip161': {True}, 'new_loaded': {False}}
    if seen == want:
        rep.ok('R4-reads', 'load_cache_account:classification', 'None / empty / non-empty -> not existing / empty / loaded')
    else:
        rep.violation('R4-reads', 'load_cache_account:classification', 'load_cache_account builds %s; expected not-existing for None, loaded_empty_eip161 iff is_empty(), loaded otherwise' % {k_: sorted(map(str, v)) for k_, v in seen.items()}, lca.where())


def closure_polarity(fx, c):
    """'nonzero' when the closure answers !value.is_zero(), 'zero' when it answers value.is_zero()"""
    try:
        rs = Symx(fx, max_paths=50).run(c)
    except Budget:
        return None
    pol = set()
    for r in rs:
        v = r.ret
        neg = False
        while isinstance(v, tuple) and v[0] == 'un' and v[1] == 'Not':
            neg = not neg
            v = v[2]
        if not (isinstance(v, tuple) and v[0] == 'call' and v[1].endswith('::is_zero')):
            return None
        pol.add('nonzero' if neg else 'zero')
    return pol.pop() if len(pol) == 1 else None


def check_has_storage_answers(fx, rep):
    """R4b: the answers has_storage itself gives.  `true` only on evidence of a non-zero cached slot
    (State::storage and CacheDB::storage cache zero-valued slots they fetched, so a non-empty map is
    not evidence); `false` only when no cached slot is non-zero and the status says storage is known."""
    targets = []
    for g in fx.fns_all:
        s = g.impl_self or ''
        if g.name == 'has_storage' and s.startswith('revm::db::states::state::State') and (g.impl_trait or '').endswith('::Database'):
            targets.append(('State::has_storage', g))
        if g.name == 'has_storage_ref' and s.startswith('revm::db::in_memory_db::CacheDB') and (g.impl_trait or '').endswith('::DatabaseRef'):
            targets.append(('CacheDB::has_storage_ref', g))
    if len(targets) != 2:
        rep.undecided('R4b-has-storage', 'anchors', 'State::has_storage / CacheDB::has_storage_ref not both found')
        return
    for label, g in targets:
        rep.fn(g)
        pol = {}
        for c in fx.closures_of(g.nq):
            pol[c.nq.split('::')[-1]] = closure_polarity(fx, c)
        try:
            rs = Symx(fx, max_paths=500).run(g)
        except Budget:
            rep.undecided('R4b-has-storage', label, 'path budget', g.where())
            continue
        n_true = 0
        bad = []
        for r in rs:
            txt = render(r.ret)
            if not txt.startswith('Result::Ok{0: '):
                continue
            ans = txt[len('Result::Ok{0: '):].rstrip('}')
            if ans not in ('0', '1'):
                continue
            nonzero_seen = None      # truth of "some cached slot is non-zero" on this path
            via_values = False
            for (sv, lit, _f, _b) in r.lits:
                s = render(sv)
                for meth in ('any', 'all'):
                    if s.startswith(meth + '('):
                        cl = [p for name, p in pol.items() if name + '(' in s]
                        if not cl or cl[0] is None:
                            continue
                        t = lit_truth(lit)
                        if meth == 'any' and cl[0] == 'nonzero':
                            nonzero_seen = t
                        elif meth == 'all' and cl[0] == 'zero':
                            nonzero_seen = (not t) if t is not None else None
                        elif meth == 'any' and cl[0] == 'zero' or meth == 'all' and cl[0] == 'nonzero':
                            pass
            if ans == '1':
                n_true += 1
                if nonzero_seen is not True:
                    bad.append('answers true on a path with no evidence that a cached slot is non-zero [%s]' % '; '.join('%s %s' % (render(l[0])[:50], l[1]) for l in r.lits[-2:]))
            else:
                if nonzero_seen is True:
                    bad.append('answers false although a cached slot is non-zero')
        if n_true == 0:
            bad.append('never answers true from the cached storage: a cached non-zero slot of an account the database does not know would be missed')
        if bad:
            rep.violation('R4b-has-storage', label, '%s %s' % (label, bad[0]), g.where())
        else:
            rep.ok('R4b-has-storage', label, 'true only when any cached slot value is non-zero; false only otherwise')


def known_guard(parent, g, bi, fx):
    """the database read at block bi of g is dominated by the false edge of a test of
    AccountStatus::is_storage_known (directly, or through a flag captured by the closure g that the
    enclosing function computed with that call)"""
    from cfg import Origins
    og = Origins(g, fx)
    KN = AS + '::is_storage_known'
    for gd in guards_of(g, og, bi):
        if gd.truth() is not False:
            continue
        for o in gd.discr:
            if o.root[0] == 'call' and o.root[1] == KN:
                return True
            if g is not parent and o.root == ('param', 1) and o.path and o.path[0] == '.is_storage_known':
                # the captured flag: in the enclosing function the local of that name is the call's result
                pog = Origins(parent, fx)
                for b in parent.blocks:
                    t = b.term
                    if t.kind == 'call' and (t.target_fn or '') == KN and t.dest is not None and not t.dest.pr \
                            and parent.local_name(t.dest.b) == 'is_storage_known':
                        return True
    return False


# ------------------------------------------------------------------ R2c

def check_info_predicates(fx, rep):
    """R2c: the AccountInfo predicates the status machine branches on, as truth tables over their
    atoms (E: code hash is KECCAK_EMPTY, Z: code hash is zero, B: balance is zero, N: nonce is 0):
    is_empty = (E or Z) and B and N; exists = not is_empty; has_no_code_and_nonce = E and N (it
    decides whether a changed account is promoted to InMemoryChange, after which State stops asking
    the database for its storage); is_empty_code_hash compares code_hash with KECCAK_EMPTY."""
    import itertools as it
    A = 'revm_primitives::state::AccountInfo::'
    want = {
        'is_empty': lambda E, Z, B, N: (E or Z) and B and N,
        'exists': lambda E, Z, B, N: not ((E or Z) and B and N),
        'has_no_code_and_nonce': lambda E, Z, B, N: E and N,
    }

    def atom(txt):
        if txt.startswith('is_empty_code_hash('):
            return 'E'
        if txt.startswith('is_zero(') and txt.rstrip(')').endswith('.code_hash'):
            return 'Z'
        if txt.startswith('is_zero(') and txt.rstrip(')').endswith('.balance'):
            return 'B'
        if txt.replace(' ', '') in ('Eq(arg1.nonce,0)', 'Eq(0,arg1.nonce)'):
            return 'N'
        return None

    def value(sv, val):
        if sv[0] == 'k':
            return bool(int(sv[1]))
        if sv[0] == 'un' and sv[1] == 'Not':
            v = value(sv[2], val)
            return None if v is None else not v
        if sv[0] == 'bin' and sv[1] == 'Ne':
            a = atom(render(('bin', 'Eq', sv[2], sv[3])))
            return None if a is None else not val[a]
        a = atom(render(sv))
        return None if a is None else val[a]
    for nm, fn_ in want.items():
        f = fx.fns.get(A + nm)
        if f is None:
            rep.undecided('R2-predicates', 'AccountInfo::' + nm, 'not found')
            continue
        rep.fn(f)
        try:
            rs = Symx(fx, max_paths=500, inline={A + 'is_empty'}, pure={A + 'is_empty_code_hash'}).run(f)
        except Budget:
            rep.undecided('R2-predicates', 'AccountInfo::' + nm, 'path budget', f.where())
            continue
        bad = None
        for E, Z, B, N in it.product((False, True), repeat=4):
            if E and Z:
                continue            # KECCAK_EMPTY is not the zero hash
            val = {'E': E, 'Z': Z, 'B': B, 'N': N}
            got = set()
            for r in rs:
                ok = True
                for (sv, lit, _f, _b) in r.lits:
                    v = value(sv, val)
                    tv = lit_truth(lit)
                    if v is None or tv is None:
                        ok = None
                        break
                    if v != tv:
                        ok = False
                        break
                if ok is None:
                    got.add('?')
                elif ok:
                    got.add(value(r.ret, val))
            if got != {bool(fn_(E, Z, B, N))}:
                bad = 'for code-hash-empty=%s code-hash-zero=%s balance-zero=%s nonce-zero=%s it answers %s, expected %s' % (E, Z, B, N, sorted(map(str, got)), bool(fn_(E, Z, B, N)))
                break
        if bad:
            rep.violation('R2-predicates', 'AccountInfo::' + nm, 'AccountInfo::%s: %s' % (nm, bad), f.where())
        else:
            rep.ok('R2-predicates', 'AccountInfo::' + nm, '12 cells')
    f = fx.fns.get(A + 'is_empty_code_hash')
    if f is not None:
        rep.fn(f)
        rs = Symx(fx, max_paths=50).run(f)
        txt = render_deep(rs[0].ret) if len(rs) == 1 else ''
        from c21 import KECCAK_EMPTY_BYTES
        kb = ', '.join("('k', %d)" % b for b in bytes(KECCAK_EMPTY_BYTES))
        if len(rs) == 1 and rs[0].ret[0] == 'call' and rs[0].ret[1].split('::')[-1] == 'eq' and '.code_hash' in txt and kb in txt:
            rep.ok('R2-predicates', 'AccountInfo::is_empty_code_hash', 'code_hash == KECCAK_EMPTY')
        else:
            rep.violation('R2-predicates', 'AccountInfo::is_empty_code_hash', 'is_empty_code_hash is not `code_hash == KECCAK_EMPTY`: %s' % txt[:120], f.where())
