"""C34 — cold and warm access is charged per the access rules (structural clauses).

R1 journaling of warmth (path enumeration): in load_account and sload the returned `is_cold` is
   true exactly on the paths that push AccountWarmed / StorageWarmed, so every access that was
   charged cold is forgotten by a revert and no other; initial_account_load (access list) pushes no
   journal entry at all - transaction-level pre-warming is never forgotten;
R2 the revert arms of AccountWarmed / StorageWarmed re-cool (mark_cold) the same account / slot;
R3 pre-warm gates: coinbase is inserted into the warm set under SHANGHAI (EIP-3651),
   BLOCKHASH_STORAGE_ADDRESS under PRAGUE (EIP-2935), precompile addresses by set_precompiles,
   the access list is loaded by load_accounts, and all of these precede the first frame in
   transact_preverified_inner; the warm set is consulted only when an account is first inserted;
R4 EIP-7702: authorities are loaded (warmed) through load_code in apply_eip7702_auth_list and the
   delegation target through load_account in load_account_delegated;
R5 prices: the warm/cold constants and tables are decided under C14 (referenced, not repeated).
"""
from cfg import cfg_of, Origins, guards_of
from symx import Symx, Budget, path_truth, render
import c06

META = {
    'level': 'other',
    'decides': 'that is_cold == true coincides with a pushed warm-journal entry on every path of load_account and sload, that access-list loading journals nothing, that the warm journal entries re-cool on revert, and the fork gates and ordering of transaction-level pre-warming; that the coldness reported for an account and for its EIP-7702 delegate each come from their own load; the price tables that take the cold flag (C14)',
    'does_not_decide': 'the interaction of AccountCreated re-cooling with access lists (a behavioural corner the statement itself flags); prices (C14)',
    'explanation': 'Path enumeration with partial evaluation of the loading functions (is_cold literal vs pushed entry), undo-table extraction shared with C06, guard extraction for fork gates, dominance for ordering.',
}

JS = 'revm::journaled_state::JournaledState::'
PURE = c06.PURE | {'std::collections::hash::set::HashSet::contains', 'hashbrown::set::HashSet::contains'}


def pushed_kinds(p):
    out = []
    for (name, args, _f, _b) in p.events:
        if name.endswith('::push') and len(args) == 2 and args[1][0] == 'agg' and args[1][1].endswith('JournalEntry'):
            out.append(args[1][2])
    return out


def run(ctx, rep):
    fx = ctx.facts('default')
    check_load_account(fx, rep)
    check_sload(fx, rep)
    check_initial_load(fx, rep)
    check_undo(fx, rep)
    check_prewarm(fx, rep)
    check_7702(fx, rep)
    check_cold_propagation(fx, rep)
    # what a cold / warm access costs: C14's price tables that take the is_cold flag
    import engine
    import c14
    c14.run_access_prices(ctx, engine.SubReport(rep, 'C14'))
    rep.assume('accounts and slots inserted into the journaled state start warm (Account::from / EvmStorageSlot::new carry no Cold flag); only a revert arm sets Cold')
    rep.assume('warm/cold prices are decided by C14')


def check_load_account(fx, rep):
    f = fx.fns.get(JS + 'load_account')
    if f is None:
        rep.undecided('R1-warm-journaled', 'load_account', 'not found')
        return
    rep.fn(f)
    try:
        rs = Symx(fx, pure=PURE, max_paths=4000).run(f)
    except Budget:
        rep.undecided('R1-warm-journaled', 'load_account', 'budget', f.where())
        return
    n = 0
    bad = []
    vac_uses_warmset = False
    for p in rs:
        if c06.is_fatal(p.ret):
            continue
        r = p.ret
        # Ok(StateLoad { data, is_cold })
        cold = None
        if r[0] == 'agg' and r[2] == 'Ok' and r[4] and r[4][0][0] == 'agg':
            sl = r[4][0]
            if 'is_cold' in sl[3]:
                cold = sl[4][sl[3].index('is_cold')]
        if cold is None:
            rep.undecided('R1-warm-journaled', 'load_account:shape', 'returned StateLoad not recognised: %s' % render(r)[:120], f.where())
            return
        t = path_truth(p, cold)
        kinds = pushed_kinds(p)
        n += 1
        if t is None:
            bad.append('is_cold undetermined on a path (%s)' % render(cold)[:80])
        elif t != ('AccountWarmed' in kinds):
            bad.append('is_cold=%s but entries pushed=%s' % (t, kinds))
        if 'contains' in render(cold):
            vac_uses_warmset = True
    if bad:
        rep.violation('R1-warm-journaled', 'load_account', 'load_account: cold accesses and AccountWarmed journal entries do not coincide: %s' % bad[0], f.where())
    else:
        rep.ok('R1-warm-journaled', 'load_account', '%d paths: is_cold <=> AccountWarmed pushed' % n)
    if vac_uses_warmset:
        rep.ok('R3-prewarm', 'warm-set-consulted-on-insert', 'is_cold = !warm_preloaded_addresses.contains(address) on the vacant branch')
    else:
        rep.violation('R3-prewarm', 'warm-set-consulted-on-insert', 'load_account does not consult warm_preloaded_addresses when it first inserts an account', f.where())
    # mark_warm is the only source of is_cold for accounts already in the state
    if not any(any(e[0].endswith('Account::mark_warm') for e in p.events) for p in rs):
        rep.violation('R1-warm-journaled', 'load_account:mark_warm', 'an account already in the state is not marked warm on access', f.where())


def check_sload(fx, rep):
    f = fx.fns.get(JS + 'sload')
    if f is None:
        rep.undecided('R1-warm-journaled', 'sload', 'not found')
        return
    rep.fn(f)
    try:
        rs = Symx(fx, pure=PURE, max_paths=4000).run(f)
    except Budget:
        rep.undecided('R1-warm-journaled', 'sload', 'budget', f.where())
        return
    n = 0
    bad = []
    for p in rs:
        if c06.is_fatal(p.ret):
            continue
        r = p.ret
        cold = None
        if r[0] == 'agg' and r[2] == 'Ok' and r[4]:
            inner = r[4][0]
            if inner[0] == 'call' and inner[1].endswith('StateLoad::new') and len(inner[2]) == 2:
                cold = inner[2][1]
            elif inner[0] == 'agg' and 'is_cold' in inner[3]:
                cold = inner[4][inner[3].index('is_cold')]
        if cold is None:
            rep.undecided('R1-warm-journaled', 'sload:shape', 'returned StateLoad not recognised: %s' % render(r)[:120], f.where())
            return
        t = path_truth(p, cold)
        kinds = pushed_kinds(p)
        n += 1
        if t is None:
            bad.append('is_cold undetermined (%s)' % render(cold)[:80])
        elif t != ('StorageWarmed' in kinds):
            bad.append('is_cold=%s but entries pushed=%s' % (t, kinds))
    if bad:
        rep.violation('R1-warm-journaled', 'sload', 'sload: cold slot accesses and StorageWarmed journal entries do not coincide: %s' % bad[0], f.where())
    else:
        rep.ok('R1-warm-journaled', 'sload', '%d paths: is_cold <=> StorageWarmed pushed' % n)


def check_initial_load(fx, rep):
    f = fx.fns.get(JS + 'initial_account_load')
    if f is None:
        rep.undecided('R1-warm-journaled', 'initial_account_load', 'not found')
        return
    rep.fn(f)
    bodies = [f] + fx.closures_of(f.nq)
    pushes = []
    for b in bodies:
        for bi, t in b.calls():
            if (t.callee or '').endswith('Vec::push') or (t.target_fn or '').startswith(JS) and t.target_fn[len(JS):] in ('load_account', 'sload', 'touch', 'touch_account'):
                pushes.append(t.target_fn or t.callee)
        for blk in b.blocks:
            for s in blk.stmts:
                if s.kind == 'assign' and s.rv.rv == 'agg' and s.rv.d.get('adt', '').endswith('JournalEntry'):
                    pushes.append('JournalEntry::' + s.rv.d['variant'])
    if pushes:
        rep.violation('R1-warm-journaled', 'initial_account_load', 'access-list loading journals its warming (%s): a revert of the first frame would forget transaction-level pre-warming' % sorted(set(pushes)), f.where())
    else:
        rep.ok('R1-warm-journaled', 'initial_account_load', 'inserts accounts and slots without any journal entry')


def check_undo(fx, rep):
    undo = c06.extract_undo(fx, _Quiet())
    if undo is None:
        rep.undecided('R2-recool', 'journal_revert', 'undo table not extractable')
        return
    for k in ('AccountWarmed', 'StorageWarmed'):
        if 'warm' in undo.get(k, set()):
            rep.ok('R2-recool', k, 'revert arm calls mark_cold')
        else:
            rep.violation('R2-recool', k, 'the revert arm of JournalEntry::%s does not re-cool the account/slot: an access made in a reverted frame stays warm' % k)


class _Quiet:
    def ok(self, *a, **k):
        pass

    def violation(self, *a, **k):
        pass

    def undecided(self, *a, **k):
        pass

    def fn(self, *a):
        pass

    def sample(self, *a):
        pass


def spec_gate(f, og, bi, fork):
    for g in guards_of(f, og, bi):
        for d in g.discr:
            if d.root[0] == 'call' and d.root[1].endswith(('Spec::enabled', 'SpecId::enabled', 'SpecId::is_enabled_in')) and g.truth() is True:
                t = f.blocks[d.root[2]].term
                ao = og.of_operand(t.args[-1])
                if all((fork in str(z.root[2])) or (z.root[0] == 'agg' and z.root[2] == fork) for z in ao):
                    return True
    return False


def check_prewarm(fx, rep):
    f = fx.fns.get('revm::handler::mainnet::pre_execution::load_accounts')
    if f is None:
        rep.undecided('R3-prewarm', 'load_accounts', 'not found')
        return
    rep.fn(f)
    og = Origins(f, fx)
    seen = {}
    for bi, t in f.calls():
        if (t.callee or '').endswith('HashSet::insert'):
            recv = og.of_operand(t.args[0])
            if not all(o.path[-1:] == ('.warm_preloaded_addresses',) for o in recv):
                continue
            what = og.of_operand(t.args[1])
            for o in what:
                if o.path[-2:] == ('.block', '.coinbase'):
                    seen['coinbase'] = spec_gate(f, og, bi, 'SHANGHAI')
                elif o.root[0] == 'const' and 'BLOCKHASH_STORAGE_ADDRESS' in str(o.root[2]):
                    seen['blockhash'] = spec_gate(f, og, bi, 'PRAGUE')
                else:
                    seen['other:' + o.render()] = False
        if (t.target_fn or '').endswith('load_access_list'):
            seen['access_list'] = True
    for k, fork in (('coinbase', 'SHANGHAI'), ('blockhash', 'PRAGUE')):
        if seen.get(k) is True:
            rep.ok('R3-prewarm', k, 'warm-set insert under %s' % fork)
        elif k in seen:
            rep.violation('R3-prewarm', k, 'the %s address is pre-warmed on a path not gated by %s' % (k, fork), f.where())
        else:
            rep.violation('R3-prewarm', k + ':missing', 'load_accounts does not pre-warm the %s address' % k, f.where())
    for k, v in seen.items():
        if k.startswith('other:'):
            rep.violation('R3-prewarm', 'unexpected-prewarm', 'load_accounts pre-warms %s, which the access rules do not list' % k[6:], f.where())
    if seen.get('access_list'):
        rep.ok('R3-prewarm', 'access_list', 'load_access_list called by load_accounts')
    else:
        rep.violation('R3-prewarm', 'access_list', 'load_accounts does not load the access list', f.where())
    # set_precompiles extends the warm set with the precompile addresses
    g = fx.fns.get('revm::context::evm_context::EvmContext::set_precompiles')
    if g is not None:
        rep.fn(g)
        ogg = Origins(g, fx)
        ok = False
        for bi, t in g.calls():
            if (t.callee or '').endswith('Extend::extend'):
                recv = ogg.of_operand(t.args[0])
                src = ogg.of_operand(t.args[1])
                if all(o.path[-1:] == ('.warm_preloaded_addresses',) for o in recv) and all(o.root[0] == 'call' and o.root[1].endswith('addresses_set') for o in src):
                    ok = True
        if ok:
            rep.ok('R3-prewarm', 'precompiles', 'warm set extended with precompiles.addresses_set()')
        else:
            rep.violation('R3-prewarm', 'precompiles', 'set_precompiles does not add the precompile addresses to the warm set', g.where())
    # ordering in transact_preverified_inner: load_accounts and set_precompiles dominate the first frame
    h = fx.fns.get('revm::evm::Evm::transact_preverified_inner')
    if h is not None:
        rep.fn(h)
        cfg = cfg_of(h)
        pos = {}
        for bi, t in h.calls():
            tf = t.target_fn or ''
            for nm in ('PreExecutionHandler::load_accounts', 'EvmContext::set_precompiles', 'PreExecutionHandler::deduct_caller',
                       'PreExecutionHandler::apply_eip7702_auth_list', 'ExecutionHandler::call', 'ExecutionHandler::create', 'ExecutionHandler::eofcreate'):
                if tf.endswith(nm):
                    pos.setdefault(nm.split('::')[-1], []).append(bi)
        ok = True
        for first in ('load_accounts', 'set_precompiles', 'apply_eip7702_auth_list'):
            for fr in ('call', 'create', 'eofcreate'):
                for a in pos.get(first, []):
                    for b in pos.get(fr, []):
                        if not cfg.dominates(a, b):
                            ok = False
            if first not in pos:
                ok = False
        if ok:
            rep.ok('R3-prewarm', 'order', 'load_accounts, set_precompiles and apply_eip7702_auth_list dominate the first frame')
        else:
            rep.violation('R3-prewarm', 'order', 'pre-warming does not precede the first frame on every path (%s)' % {k: len(v) for k, v in pos.items()}, h.where())
    # the warm set is read only in load_account
    readers = set()
    for fn in fx.fns_all:
        if not fn.crate or fn.crate.endswith('-test') or not fn.crate.startswith('revm:'):
            continue
        hit = False
        for b in fn._blocks_raw:
            t = b['term']
            if t.get('t') == 'call' and (t.get('callee') or '').endswith('::contains'):
                hit = True
        if hit:
            ogf = Origins(fn, fx)
            for bi, t in fn.calls():
                if (t.callee or '').endswith('::contains'):
                    recv = ogf.of_operand(t.args[0])
                    if any(o.path[-1:] == ('.warm_preloaded_addresses',) for o in recv):
                        readers.add(fn.parent or fn.nq)
    if readers == {JS + 'load_account'}:
        rep.ok('R3-prewarm', 'warm-set-readers', 'only load_account')
    else:
        rep.violation('R3-prewarm', 'warm-set-readers', 'warm_preloaded_addresses is consulted in %s; only the first insertion of an account (load_account) may use it' % sorted(readers))


def check_cold_propagation(fx, rep):
    """R6: the layers between the journal and the instructions hand the cold flag on unchanged.  In
    the context functions (balance, code, code_hash, sload, sstore ... of InnerEvmContext / EvmContext
    / the Host impl) and in JournaledState::{sstore, selfdestruct}, every StateLoad that is built takes
    its is_cold from the `.is_cold` of the journal load made in the same function; a defaulted
    StateLoad (is_cold = false) would charge a first access as warm."""
    LOADS = ('JournaledState::load_account', 'JournaledState::load_code', 'JournaledState::sload',
             'JournaledState::load_account_delegated', 'InnerEvmContext::load_account', 'InnerEvmContext::sload')
    n = 0
    for g in fx.fns_all:
        nq = g.nq
        if '::test' in nq or not (nq.startswith('revm::context::') or nq in (JS + 'sstore', JS + 'selfdestruct') or
                                  (nq.startswith('<revm::') and ' as revm_interpreter::host::Host>' in nq)):
            continue
        og = None
        sites = []
        for bi, t in g.calls():
            nm = t.target_fn or t.callee or ''
            dty = (g.local_ty(t.dest.b) or '') if t.dest is not None else ''
            if nm.endswith('StateLoad::new') and len(t.args) > 1:
                sites.append((bi, t.args[1], 'StateLoad::new'))
            elif nm.endswith('::default') and 'Default' in nm and 'StateLoad' in dty:
                sites.append((bi, None, 'StateLoad::default()'))
        for b in g.blocks:
            if b.cleanup:
                continue
            for s_ in b.stmts:
                if s_.kind == 'assign' and s_.rv is not None and s_.rv.rv == 'agg' and str(s_.rv.d.get('adt', '')).endswith('StateLoad') and len(s_.rv.ops) > 1:
                    sites.append((b.i, s_.rv.ops[1], 'StateLoad{..}'))
        for bi, op, what in sites:
            og = og or Origins(g, fx)
            n += 1
            key = nq.split('::')[-1] if '{closure' not in nq else nq.split('::')[-2]
            if op is None:
                rep.violation('R6-cold-propagation', key, '%s answers with %s: the cold flag of the access is dropped (a first access would be charged warm)' % (nq, what), g.where(bi))
                continue
            oo = og.of_operand(op)
            ok = bool(oo) and all(o.root[0] == 'call' and o.root[1].endswith(LOADS) and o.path[-1:] == ('.is_cold',) for o in oo)
            if ok:
                rep.ok('R6-cold-propagation', key, 'is_cold of the journal load')
            else:
                rep.violation('R6-cold-propagation', key, '%s builds a StateLoad whose is_cold is %s, not the is_cold of its journal load' % (nq, [o.render() for o in oo]), g.where(bi))
    rep.floor('R6-cold-propagation-sites', n, 5)


def check_7702(fx, rep):
    f = fx.fns.get('revm::handler::mainnet::pre_execution::apply_eip7702_auth_list')
    if f is not None:
        rep.fn(f)
        if any(t.target_fn == JS + 'load_code' for _, t in f.calls()):
            rep.ok('R4-eip7702-warming', 'authority', 'authorities are loaded through load_code (journaled warm access at transaction level)')
        else:
            rep.violation('R4-eip7702-warming', 'authority', 'apply_eip7702_auth_list does not load (warm) the authority account', f.where())
    g = fx.fns.get(JS + 'load_account_delegated')
    if g is not None:
        rep.fn(g)
        og = Origins(g, fx)
        ok = False
        for bi, t in g.calls():
            if t.target_fn == JS + 'load_account':
                a = og.of_operand(t.args[1])
                if all((o.root[0] == 'call' and o.root[1].endswith('Eip7702Bytecode::address')) or o.path[-1:] == ('.delegated_address',) for o in a):
                    ok = True
        sets = [t for _, t in g.calls() if (t.target_fn or '').endswith('set_delegate_load')]

        def cold_of(op, loader):
            """operand is `<result of loader>.is_cold`"""
            oo = og.of_operand(op)
            return bool(oo) and all(o.root[0] == 'call' and o.root[1] == JS + loader and o.path[-1:] == ('.is_cold',) for o in oo)
        bad = None
        for t in sets:
            if not cold_of(t.args[1], 'load_account'):
                bad = 'the delegate coldness reported is %s, not the is_cold of the delegation target\'s own load' % [o.render() for o in og.of_operand(t.args[1])]
        news = [t for _, t in g.calls() if (t.target_fn or '').endswith('Eip7702CodeLoad::new_not_delegated')]
        for t in news:
            if not cold_of(t.args[1], 'load_code'):
                bad = 'the coldness reported for the account is %s, not the is_cold of its own load' % [o.render() for o in og.of_operand(t.args[1])]
        if not news:
            bad = 'the account\'s own coldness is not reported'
        if bad:
            rep.violation('R4-eip7702-warming', 'delegate:coldness', 'load_account_delegated: ' + bad, g.where())
        else:
            rep.ok('R4-eip7702-warming', 'delegate:coldness', 'account and delegate coldness each from their own load')
        if ok and sets:
            rep.ok('R4-eip7702-warming', 'delegate', 'delegation target loaded with load_account and its coldness reported')
        else:
            rep.violation('R4-eip7702-warming', 'delegate', 'load_account_delegated does not load the delegation target / report its coldness', g.where())
