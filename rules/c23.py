"""C23 — precompiles return the output and gas their EIPs define (the gas / failure skeleton).

The cryptographic outputs come from external crates and are not decided.  Decided:
R1 constants: every named gas constant, input length and address of the precompile crate equals
   the EIP value; the two EIP-2537 MSM discount tables equal the EIP's (128 entries each);
R2 out-of-gas discipline, for every precompile entry point: every successful return reports as
   gas_used exactly the amount that was compared with the gas limit by a strict `cost > limit`
   test on that path, and the OutOfGas error is returned only under that test;
R3 cost formulas: the charged amount, as a symbolic expression of the input length (rounds for
   BLAKE2F, k for MSM), evaluated on a grid of lengths around every breakpoint equals the EIP
   formula; the BN254 entry points of each fork pass that fork's constants;
R4 MODEXP: byzantium_gas_calc (EIP-198) and berlin_gas_calc (EIP-2565) - all paths, evaluated on a
   grid of (base_len, exp_len, mod_len, exponent head bit length) around 0/1/8/32/33/64/65/1024/1025
   - equal the EIPs' integer formulas; the entry points pass min gas 0 / 200;
R5 result mapping in EvmContext::call_precompile: Ok -> Return with the reported gas recorded
   (PrecompileOOG if recording fails), OutOfGas error -> PrecompileOOG, other errors ->
   PrecompileError, fatal -> EVMError::Precompile; unknown address -> None.
"""
import itertools
import os
import sys

sys.path.insert(0, os.path.join(os.path.dirname(os.path.abspath(__file__)), 'reference'))
import precompiles as REF    # noqa: E402
from symx import Symx, Budget, K, render, lit_truth   # noqa: E402

META = {
    'level': 'other',
    'decides': 'gas constants and discount tables, the strict cost > limit test guarding every successful return with the same amount, the cost formulas (evaluated symbolically on breakpoint grids), the MODEXP pricing functions of both forks, and the mapping of precompile results to instruction results; the EIP-152 input layout and the in-repo BLAKE2b compression (IV, SIGMA, G evaluated against RFC 7693, round wiring); the constant byte windows of every precompile against its EIP layout; the KZG point-evaluation and ECRECOVER decisions with their operand order; point/scalar pairing of the BLS MSMs; the BN254 pairing element wiring and verdict',
    'does_not_decide': 'the cryptographic outputs and the input validation of the underlying libraries (k256/secp256k1, sha2, ripemd, substrate-bn, blst, c-kzg, aurora-engine-modexp)',
    'explanation': 'Const evaluation (incl. static tables); path enumeration of each entry point with guards and returns as symbolic expressions; evaluation of the extracted expressions on finite grids against reference formulas.',
}

P = 'revm_precompile::'
U64 = (1 << 64) - 1


class NoValue(Exception):
    pass


def ev(sv, env):
    """evaluate an extracted expression under env (unbounded integers, explicit saturation)"""
    k_ = sv[0]
    if k_ == 'k':
        return int(sv[1])
    if k_ == 'valref':
        return ev(sv[1], env)
    if k_ == 'cast':
        return ev(sv[2], env)
    if k_ in ('sym', 'proj'):
        r = render(sv)
        if r in env:
            return env[r]
        if '__sym__' in env:
            v = env['__sym__'](r)
            if v is not None:
                return v
        raise NoValue(r)
    if k_ == 'un' and sv[1] == 'Not':
        return 0 if ev(sv[2], env) else 1
    if k_ == 'bin':
        a, b = ev(sv[2], env), ev(sv[3], env)
        op = sv[1]
        if op in ('Add', 'AddUnchecked'):
            return a + b
        if op in ('Sub', 'SubUnchecked'):
            return a - b
        if op in ('Mul', 'MulUnchecked'):
            return a * b
        if op == 'Div':
            return a // b
        if op == 'Rem':
            return a % b
        cmp_ = {'Eq': a == b, 'Ne': a != b, 'Lt': a < b, 'Le': a <= b, 'Gt': a > b, 'Ge': a >= b}
        if op in cmp_:
            return int(cmp_[op])
        if op == 'BitAnd':
            return a & b
        raise NoValue(op)
    if k_ == 'call':
        short = sv[1].split('::')[-1]
        if short in env.get('__calls__', {}):
            return env['__calls__'][short](sv, env)
        args = sv[2]
        if short in ('max', 'min'):
            return (max if short == 'max' else min)(ev(args[0], env), ev(args[1], env))
        if short in ('mul', 'wrapping_mul'):
            return ev(args[0], env) * ev(args[1], env)
        if short in ('add', 'wrapping_add'):
            return ev(args[0], env) + ev(args[1], env)
        if short in ('sub', 'wrapping_sub'):
            return ev(args[0], env) - ev(args[1], env)
        if short in ('div', 'wrapping_div'):
            return ev(args[0], env) // ev(args[1], env)
        if short == 'div_ceil':
            a, b = ev(args[0], env), ev(args[1], env)
            return -(-a // b)
        if short in ('from', 'into', 'try_from', 'unwrap', 'clone'):
            return ev(args[0], env)
        if short in ('saturating_to',):
            return min(ev(args[0], env), U64)
        if short == 'saturating_add':
            return min(ev(args[0], env) + ev(args[1], env), U64)
        if short == 'saturating_mul':
            return min(ev(args[0], env) * ev(args[1], env), U64)
        if short == 'saturating_sub':
            return max(ev(args[0], env) - ev(args[1], env), 0)
        if short == 'len' and 'len' in env:
            return env['len']
        if short == 'bit_len' and 'bits' in env:
            return env['bits']
        if short == 'is_zero' and 'bits' in env:
            return int(env['bits'] == 0)
        raise NoValue(short)
    raise NoValue(render(sv)[:40])


def consistent(r, env):
    for (sv, lit, _f, _b) in r.lits:
        v = ev(sv, env)
        if lit[0] == 'eq':
            if v != lit[1]:
                return False
        elif v in lit[1]:
            return False
    return True


def run(ctx, rep):
    fx = ctx.facts('default')
    check_constants(fx, rep)
    entries = entry_points(fx)
    rep.floor('entry-points', len(entries), 17)
    for f, limit_arg in entries:
        rep.fn(f)
        check_oog_discipline(fx, rep, f, limit_arg)
    check_formulas(fx, rep)
    check_bn128_wiring(fx, rep)
    check_modexp(fx, rep)
    check_blake2_layout(fx, rep)
    check_blake2_algo(fx, rep)
    check_layouts(fx, rep)
    check_kzg_decision(fx, rep)
    check_ecrecover_decision(fx, rep)
    check_msm_pairing(fx, rep)
    check_bn128_pair_wiring(fx, rep)
    check_mapping(ctx.facts('default'), rep)
    rep.assume('the linked libraries compute the functions their EIPs name; inputs longer than 2^32 bytes are not considered in the formula grids')


# ------------------------------------------------------------------ R6

BLAKE2_LAYOUT = {'[u64; 8]': list(range(4, 68, 8)), '[u64; 16]': list(range(68, 196, 8)), '[u64; 2]': [196, 204]}


def check_blake2_layout(fx, rep):
    """R6: the EIP-152 input layout.  rounds = big-endian u32 of bytes 0..4; h, m, t are the
    little-endian u64 words at bytes 4.., 68.., 196.. (8, 16 and 2 words, in order); f is byte 212.
    Every u64::from_le_bytes window is traced to its constant offset (or to the constant range its
    loop steps over) and to the array it is stored into."""
    from cfg import Origins
    from facts import Operand
    f = fx.fns.get(P + 'blake2::run')
    if f is None:
        rep.undecided('R6-blake2-layout', 'run', 'not found')
        return
    rep.fn(f)
    og = Origins(f, fx)

    def consts(origins):
        out = []
        for o in origins:
            if o.root[0] == 'const' and o.root[1] is not None and not o.path:
                out.append(int(o.root[1]))
            else:
                return None
        return out

    def back(o, name):
        """the call named `name` that origin o denotes, else None"""
        if o.root[0] == 'call' and o.root[1].split('::')[-1] == name:
            return f.blocks[o.root[2]].term
        return None

    def loop_positions(o):
        """o = next(..)@Some.0.<k> of an enumerate(step_by(a..b, s)) loop: (next block, k, [positions])"""
        t = back(o, 'next')
        if t is None or o.path[:2] != ('@Some', '.0') or len(o.path) != 3:
            return None
        cur = og.of_operand(t.args[0])
        chain = []
        for name in ('into_iter', 'enumerate', 'step_by'):
            if len(cur) != 1 or back(cur[0], name) is None:
                return None
            tt = back(cur[0], name)
            chain.append(tt)
            cur = og.of_operand(tt.args[0])
        sb = chain[-1]
        step = consts(og.of_operand(sb.args[1]))
        rng = cur[0] if len(cur) == 1 else None
        if not step or rng is None or rng.root[0] != 'agg' or not rng.root[1].endswith('::Range'):
            return None
        a, b = consts(list(rng.root[4][0])), consts(list(rng.root[4][1]))
        if not a or not b or len(a) != 1 or len(b) != 1:
            return None
        return o.root[2], o.path[2], list(range(a[0], b[0], step[0]))

    windows = {}        # array type -> list of (index key, [byte offsets])
    problems = []
    n = 0
    for bi, t in f.calls():
        short = (t.callee or '')
        if not short.endswith('from_le_bytes') or 'u64' not in short:
            continue
        n += 1
        # the 8-byte window: unwrap(try_into(index(input, Range{start, ..})))
        starts = None
        for o in og.of_operand(t.args[0]):
            ti = back(o, 'try_into')
            if ti is None:
                continue
            for o2 in og.of_operand(ti.args[0]):
                ix = back(o2, 'index')
                if ix is None:
                    continue
                for o3 in og.of_operand(ix.args[1]):
                    if o3.root[0] == 'agg' and o3.root[1].endswith('::Range'):
                        st = list(o3.root[4][0])
                        c = consts(st)
                        if c is not None and len(c) == 1:
                            starts = ('const', c)
                        elif len(st) == 1:
                            lp = loop_positions(st[0])
                            if lp is not None and lp[1] == '.1':
                                starts = ('loop', lp[0], lp[2])
        if starts is None:
            problems.append('a from_le_bytes window at line %s is not at a constant offset nor in a constant stepped range' % f.where(bi))
            continue
        # where the word goes
        dest = t.dest.b if t.dest is not None and not t.dest.pr else None
        placed = False
        for b in f.blocks:
            if b.cleanup:
                continue
            for s_ in b.stmts:
                if s_.kind != 'assign' or s_.rv is None:
                    continue
                uses = [k for k, op in enumerate(s_.rv.ops or []) if op.place is not None and op.place.b == dest and not op.place.pr]
                if not uses:
                    continue
                ty = f.local_ty(s_.place.b) or ''
                if s_.place.pr and s_.place.pr[0].startswith('[_'):
                    # h[i] = word: i must be the enumerate index of the same loop step
                    il = int(s_.place.pr[0][2:-1])
                    io = og.of_local(il, 12)
                    lp = [loop_positions(x) for x in io]
                    if starts[0] == 'loop' and len(lp) == 1 and lp[0] is not None and lp[0][0] == starts[1] and lp[0][1] == '.0':
                        windows.setdefault(ty, []).extend(starts[2])
                        placed = True
                    else:
                        problems.append('a word is stored into %s at an index that is not the step counter of its own loop' % ty)
                        placed = True
                elif s_.rv.rv == 'agg' and ty.startswith('[u64;') and starts[0] == 'const':
                    windows.setdefault(ty, {}) if False else None
                    windows.setdefault(ty, [])
                    lst = windows[ty]
                    while len(lst) < len(s_.rv.ops):
                        lst.append(None)
                    lst[uses[0]] = starts[1][0]
                    placed = True
        if not placed:
            problems.append('a parsed word (offset %s) is not stored into one of the h / m / t arrays' % (starts[1] if starts[0] == 'const' else starts[2][:1]))
    rep.floor('R6-blake2-words', n, 3)
    for ty, want in BLAKE2_LAYOUT.items():
        got = windows.get(ty)
        key = {'[u64; 8]': 'h', '[u64; 16]': 'm', '[u64; 2]': 't'}[ty]
        if got != want:
            rep.violation('R6-blake2-layout', key, 'BLAKE2F input: the %s words are read at byte offsets %s, EIP-152 places them at %s' % (key, got, want), f.where())
        else:
            rep.ok('R6-blake2-layout', key, '%d little-endian words from byte %d' % (len(want), want[0]))
    if problems:
        rep.violation('R6-blake2-layout', 'words', 'BLAKE2F input: ' + sorted(set(problems))[0], f.where())
    # the final-block flag is byte 212
    flag = []
    for b in f.blocks:
        if b.cleanup or b.term.kind != 'switch':
            continue
        d = b.term.d.get('d', {})
        pl = d.get('c') or d.get('m')
        if pl and pl.get('pr') and pl['pr'][-1].startswith('[_') and b.term.d.get('dty') == 'u8':
            c = consts(og.of_local(int(pl['pr'][-1][2:-1]), 12))
            flag.append((c, sorted(a[0] for a in b.term.d.get('arms', []))))
    if flag == [([212], [0, 1])]:
        rep.ok('R6-blake2-layout', 'f', 'byte 212, values 0 and 1 only')
    else:
        rep.violation('R6-blake2-layout', 'f', 'BLAKE2F input: the final-block indicator is decided on %s; EIP-152: byte 212 with values 0 / 1, anything else is an error' % flag, f.where())
    # rounds: big-endian u32 of bytes ..4
    rounds = []
    for bi, t in f.calls():
        if (t.callee or '').endswith('from_be_bytes') and 'u32' in (t.callee or ''):
            for o in og.of_operand(t.args[0]):
                ti = back(o, 'try_into')
                for o2 in (og.of_operand(ti.args[0]) if ti else []):
                    ix = back(o2, 'index')
                    for o3 in (og.of_operand(ix.args[1]) if ix else []):
                        if o3.root[0] == 'agg':
                            rounds.append((o3.root[1].split('::')[-1], [consts(list(x)) for x in o3.root[4]]))
    if rounds in ([('RangeTo', [[4]])], [('Range', [[0], [4]])]):
        rep.ok('R6-blake2-layout', 'rounds', 'big-endian u32 of bytes 0..4')
    else:
        rep.violation('R6-blake2-layout', 'rounds', 'BLAKE2F input: rounds is read as %s; EIP-152: big-endian u32 of bytes 0..4' % rounds, f.where())


# ------------------------------------------------------------------ R7

def _flat(val):
    if isinstance(val, dict) and 'fields' in val:
        return [_flat(x) for x in val['fields']]
    return val


def check_blake2_algo(fx, rep):
    """R7: the BLAKE2b compression function is implemented in this repository, not linked.
    (a) IV and SIGMA are RFC 7693's; (b) the mixing function g, evaluated from its extracted
    expression with the four indices fixed, equals RFC 7693's G on a value grid; (c) compress calls g
    with the eight column / diagonal index quadruples in order and the message words
    m[SIGMA[i % 10][2j]], m[SIGMA[i % 10][2j+1]]; folds t[0], t[1] into v[12], v[13] and inverts v[14]
    for the final block; returns h[i] ^= v[i] ^ v[i + 8] for i in 0..8."""
    import random
    from cfg import Origins
    A = P + 'blake2::algo::'
    for nm, want in (('IV', REF.BLAKE2B_IV), ('SIGMA', REF.BLAKE2_SIGMA)):
        got = _flat(fx.const_val(A + nm))
        if got == want:
            rep.ok('R7-blake2-algorithm', nm, 'RFC 7693')
        else:
            rep.violation('R7-blake2-algorithm', nm, 'blake2::algo::%s differs from RFC 7693 (%s)' % (nm, str(got)[:80]))
    g = fx.fns.get(A + 'g')
    comp = fx.fns.get(A + 'compress')
    if g is None or comp is None:
        rep.undecided('R7-blake2-algorithm', 'g', 'g / compress not found')
        return
    rep.fn(g)
    rep.fn(comp)
    # (b)
    try:
        rs = [r for r in Symx(fx, max_paths=200).run(g, [('ref', ('arg', 1), ()), K(0), K(1), K(2), K(3), None, None]) if not r.cut]
    except Budget:
        rs = []
    if len(rs) != 1:
        rep.undecided('R7-blake2-algorithm', 'g', 'g is not straight-line (%d paths)' % len(rs), g.where())
    else:
        st = {path: v for (root, path), v in rs[0].stores.items() if root == ('arg', 1)}
        rnd = random.Random(7693)
        vals = [0, 1, REF.M64, 1 << 63, 0x0123456789abcdef]
        bad = None

        def rot(sv, env):
            x, n = ev(sv[2][0], env), ev(sv[2][1], env)
            return ((x >> n) | (x << (64 - n))) & REF.M64

        def wadd(sv, env):
            return (ev(sv[2][0], env) + ev(sv[2][1], env)) & REF.M64
        for k in range(200):
            ins = [rnd.choice(vals) if k < 60 else rnd.getrandbits(64) for _ in range(6)]
            env = {'arg1[0]': ins[0], 'arg1[1]': ins[1], 'arg1[2]': ins[2], 'arg1[3]': ins[3], 'arg6': ins[4], 'arg7': ins[5],
                   '__calls__': {'rotate_right': rot, 'wrapping_add': wadd}}
            try:
                got = tuple(ev_x(st[('[%d]' % i,)], env) for i in range(4))
            except (NoValue, KeyError) as e:
                bad = 'not evaluable (%s)' % e
                break
            want = REF.blake2_g(*ins)
            if got != want:
                bad = 'differs from RFC 7693 G for inputs %s' % [hex(x) for x in ins]
                break
        if bad:
            rep.violation('R7-blake2-algorithm', 'g', 'blake2 mixing function g ' + bad, g.where())
        else:
            rep.ok('R7-blake2-algorithm', 'g', 'equals G on 200 value tuples')
    # (c)
    og = Origins(comp, fx)
    calls = [(bi, t) for bi, t in comp.calls() if (t.target_fn or '') == A + 'g']
    problems = []

    def cst(op):
        oo = og.of_operand(op)
        if len(oo) == 1 and oo[0].root[0] == 'const' and oo[0].root[1] is not None and not oo[0].path:
            return int(oo[0].root[1])
        return None

    def word(op):
        """m[SIGMA[i % 10][k]] -> k"""
        oo = og.of_operand(op)
        if not (len(oo) == 1 and oo[0].root == ('param', 3) and len(oo[0].path) == 1 and oo[0].path[0].startswith('[_')):
            return None
        io = og.of_local(int(oo[0].path[0][2:-1]), 12)
        if len(io) != 1 or io[0].root[0] != 'const' or not str(io[0].root[2]).endswith('algo::SIGMA') or len(io[0].path) != 2:
            return None
        row = og.of_local(int(io[0].path[0][2:-1]), 12)
        col = og.of_local(int(io[0].path[1][2:-1]), 12)
        if len(row) != 1 or row[0].root[0] != 'bin' or row[0].root[1] != 'Rem':
            return None
        den = row[0].root[3][0] if len(row[0].root) > 3 and row[0].root[3] else None
        if den is None or den.root[0] != 'const' or den.root[1] != 10:
            return None
        num = row[0].root[2]
        if not (len(num) == 1 and num[0].root[0] == 'call' and num[0].root[1].endswith('::next') and num[0].path == ('@Some', '.0')):
            return None                 # the row is selected by the round counter itself
        if len(col) == 1 and col[0].root[0] == 'const':
            return int(col[0].root[1])
        return None
    got = []
    for bi, t in calls:
        got.append((tuple(cst(a) for a in t.args[1:5]), word(t.args[5]), word(t.args[6])))
    want = [(q, 2 * j, 2 * j + 1) for j, q in enumerate(REF.BLAKE2_G_INDICES)]
    if got != want:
        k = next((i for i in range(min(len(got), len(want))) if got[i] != want[i]), min(len(got), len(want)))
        problems.append('call %d of g in the round is %s, RFC 7693 has %s' % (k, got[k] if k < len(got) else None, want[k] if k < len(want) else None))
    # prologue / epilogue stores
    stores = set()
    for b in comp.blocks:
        if b.cleanup:
            continue
        for s_ in b.stmts:
            if s_.kind == 'assign' and s_.place.pr and s_.place.pr[0].startswith('[_') and s_.rv is not None:
                io = og.of_local(int(s_.place.pr[0][2:-1]), 12)
                idx = int(io[0].root[1]) if len(io) == 1 and io[0].root[0] == 'const' and io[0].root[1] is not None else None
                base = og.of_local(s_.place.b, 12)
                tgt = 'h' if any(x.root == ('param', 2) for x in base) else 'v'
                others = []
                for op in (s_.rv.ops or []):
                    for o in og.of_operand(op):
                        if o.root == ('param', 4):
                            ii = og.of_local(int(o.path[0][2:-1]), 12) if o.path and o.path[0].startswith('[_') else []
                            others.append('t[%s]' % (ii[0].root[1] if len(ii) == 1 and ii[0].root[0] == 'const' else o.path))
                stores.add((tgt, idx, s_.rv.d.get('op') or s_.rv.rv, tuple(others)))
    need = {('v', 12, 'BitXor', ('t[0]',)), ('v', 13, 'BitXor', ('t[1]',)), ('v', 14, 'Not', ())}
    missing = need - stores
    extra = {x for x in stores if x[0] == 'v'} - need
    if missing or extra:
        problems.append('the state words folded before the rounds are %s; RFC 7693: v[12] ^= t[0], v[13] ^= t[1], v[14] = !v[14] if final' % sorted(map(str, {x for x in stores if x[0] == 'v'})))
    if problems:
        rep.violation('R7-blake2-algorithm', 'compress', 'blake2 compress: ' + problems[0], comp.where())
    else:
        rep.ok('R7-blake2-algorithm', 'compress', '8 g calls per round with SIGMA[i %% 10]; t and f folded into v[12..15]')
    # epilogue h[i] ^= v[i] ^ v[i+8] over 0..8, and the initial state, from the path events
    try:
        ps = Symx(fx, max_paths=500, snapshot_refs=True).run(comp)
    except Budget:
        ps = []
    fin = set()
    init = set()
    for r in ps:
        for (root, path), v in r.stores.items():
            if root == ('arg', 2) and path and path[0].startswith('[_'):
                i = og.of_local(int(path[0][2:-1]), 12)
                txt = render(v)
                idxs = [og.of_local(int(x[2:-1]), 12) for x in [path[0]] + __import__('re').findall(r'\[_\d+\]', txt)]

                def kind(oo):
                    if len(oo) != 1:
                        return '?'
                    o = oo[0]
                    if o.root[0] == 'call' and o.root[1].endswith('::next') and o.path == ('@Some', '.0'):
                        return 'i'
                    if o.root[0] == 'bin' and o.root[1] in ('AddWithOverflow', 'Add') and len(o.root[2]) == 1 and kind(list(o.root[2])) == 'i' \
                            and len(o.root[3]) == 1 and o.root[3][0].root[0] == 'const':
                        return 'i+%s' % o.root[3][0].root[1]
                    return '?'
                fin.add((txt.count('BitXor('), tuple(kind(o) for o in idxs)))
        rng = [render(e[1][0]) for e in r.events if e[0].endswith('into_iter') and e[1]]
        cps = [(render(a[1][1])[:40]) for a in r.events if a[0].endswith('copy_from_slice')]
        init.add((tuple(rng), tuple(c[:12] for c in cps)))
    ok_fin = fin == {(2, ('i', 'i', 'i', 'i+8'))}
    ok_rng = all(x[0][-1:] == ('Range::Range{start: 0, end: 8}',) or len(x[0]) < 2 for x in init) and any(len(x[0]) == 2 for x in init)
    ok_cp = all(x[1] == ('&arg2', '&tuple(76408')for x in init)
    if ok_fin and ok_rng and ok_cp:
        rep.ok('R7-blake2-algorithm', 'compress:state', 'v = h || IV; h[i] ^= v[i] ^ v[i + 8] for i in 0..8')
    else:
        rep.violation('R7-blake2-algorithm', 'compress:state', 'blake2 compress: initial state / final fold not as RFC 7693 (final %s, ranges %s)' % (sorted(fin), sorted(init)[:1]), comp.where())


def ev_x(sv, env):
    """ev with bitwise xor / not on 64-bit words"""
    if sv[0] == 'bin' and sv[1] == 'BitXor':
        return ev_x(sv[2], env) ^ ev_x(sv[3], env)
    if sv[0] == 'call':
        short = sv[1].split('::')[-1]
        if short == 'rotate_right':
            x, n = ev_x(sv[2][0], env), ev_x(sv[2][1], env)
            return ((x >> n) | (x << (64 - n))) & REF.M64
        if short == 'wrapping_add':
            return (ev_x(sv[2][0], env) + ev_x(sv[2][1], env)) & REF.M64
    return ev(sv, env)


# ------------------------------------------------------------------ R1

def check_constants(fx, rep):
    n = 0
    for name, want in sorted(REF.CONSTANTS.items()):
        c = fx.consts.get(P + name)
        if c is None or not isinstance(c.get('val'), int):
            v = c.get('val') if c else None
            # addresses are u64 constants in this crate; anything else is not evaluable
            rep.undecided('R1-constants', name, 'constant not found or not an integer (%s)' % (str(v)[:40]))
            continue
        n += 1
        if c['val'] == want:
            rep.ok('R1-constants', name, str(want), nontrivial=False)
        else:
            rep.violation('R1-constants', name, 'precompile constant %s is %d, the EIP value is %d' % (name, c['val'], want))
    rep.floor('R1-constants', n, 35)
    for name, ref in (('bls12_381::g1_msm::DISCOUNT_TABLE', REF.G1_DISCOUNT), ('bls12_381::g2_msm::DISCOUNT_TABLE', REF.G2_DISCOUNT)):
        c = fx.consts.get(P + name)
        vals = c.get('val', {}).get('fields') if c and isinstance(c.get('val'), dict) else None
        if vals is None:
            rep.undecided('R1-constants', name, 'table not evaluable')
            continue
        diff = [i for i in range(max(len(vals), len(ref))) if i >= len(vals) or i >= len(ref) or vals[i] != ref[i]]
        if diff:
            i = diff[0]
            rep.violation('R1-constants', name, 'EIP-2537 discount table differs at %d entr%s, first at index %d: %s, EIP value %s' % (
                len(diff), 'y' if len(diff) == 1 else 'ies', i, vals[i] if i < len(vals) else 'missing', ref[i] if i < len(ref) else 'none'))
        else:
            rep.ok('R1-constants', name, '128 entries')


# ------------------------------------------------------------------ entry points

def entry_points(fx):
    """(function, index of the gas-limit parameter)"""
    out = []
    for f in fx.fns_all:
        if not f.nq.startswith(P) or f.kind != 'Fn' or '::test' in f.nq or f.nq.startswith(P + 'fatal_precompile'):
            continue
        tys = [f.local_ty(i) for i in range(1, f.argc + 1)]
        ret = f.local_ty(0) or ''
        if 'PrecompileOutput' not in ret and 'PrecompileResult' not in ret and 'PrecompileErrors' not in ret:
            continue
        u64s = [i + 1 for i, t in enumerate(tys) if t == 'u64']
        if not u64s or not tys or not (tys[0].startswith('&')):
            continue
        if f.name in ('byzantium_run', 'berlin_run'):
            continue        # thin wrappers of run_inner (checked in R4)
        # the gas limit is the last u64 parameter named gas_limit
        lim = None
        for i in u64s:
            if (f.local_name(i) or '') == 'gas_limit':
                lim = i
        if lim is None:
            continue
        out.append((f, lim))
    return out


def paths_of(fx, f):
    inline = {P + 'calc_linear_cost_u32', P + 'bls12_381::msm::msm_required_gas'}
    return Symx(fx, max_paths=6000, snapshot_refs=True, inline=inline, pure={'core::cmp::min', 'core::cmp::max'}).run(f)


def ok_gas(ret):
    """gas_used of Ok(PrecompileOutput::new(gas, bytes)) / Ok(PrecompileOutput { gas_used, .. })"""
    if ret[0] != 'agg' or ret[2] != 'Ok':
        return None
    o = ret[4][0]
    if o[0] == 'call' and o[1].endswith('PrecompileOutput::new'):
        return o[2][0]
    if o[0] == 'agg' and 'gas_used' in o[3]:
        return o[4][o[3].index('gas_used')]
    return ('sym', '?')


def is_oog(ret):
    return ret[0] == 'agg' and ret[2] == 'Err' and 'OutOfGas' in render(ret)


def guard_of(lit_sv, limit):
    """(cost expression, strict) if the literal compares a cost with the gas limit"""
    if lit_sv[0] != 'bin':
        return None
    op, a, b = lit_sv[1], lit_sv[2], lit_sv[3]
    # (cost, relation that holds when the literal is TRUE, relation when FALSE); relations are
    # between cost c and limit l
    FLIP = {'Gt': 'Lt', 'Lt': 'Gt', 'Ge': 'Le', 'Le': 'Ge'}
    NEG = {'Gt': 'Le', 'Le': 'Gt', 'Lt': 'Ge', 'Ge': 'Lt'}
    if op not in FLIP:
        return None
    if b == limit:
        return a, op, NEG[op]
    if a == limit:
        return b, FLIP[op], NEG[FLIP[op]]
    return None


def check_oog_discipline(fx, rep, f, limit_arg):
    name = f.nq[len(P):]
    try:
        rs = paths_of(fx, f)
    except Budget:
        rep.undecided('R2-oog-discipline', name, 'path budget', f.where())
        return
    limit = ('sym', 'arg%d' % limit_arg)
    problems = []
    oks = oogs = 0
    for r in rs:
        if r.cut:
            continue
        guards = []
        for (sv, lit, _f, _b) in r.lits:
            g = guard_of(sv, limit)
            if g is not None:
                tv = lit_truth(lit)
                if tv is not None:
                    guards.append((g[0], g[1] if tv else g[2]))      # (cost, relation cost ? limit on this path)
        g_ok = ok_gas(r.ret)
        if g_ok is not None:
            oks += 1
            passing = [c for c, rel in guards if rel == 'Le']
            if any(rel == 'Lt' for c, rel in guards):
                problems.append('the limit test is not strict: a cost equal to the gas limit must succeed')
            if g_ok not in passing:
                problems.append('a successful return reports gas_used = %s, which is not the amount tested against the gas limit on that path (%s)' % (
                    render(g_ok)[:60], [render(c)[:40] for c in passing] or 'no test'))
        elif is_oog(r.ret):
            oogs += 1
            if any(rel == 'Ge' for c, rel in guards):
                problems.append('the limit test is not strict: a cost equal to the gas limit must succeed')
            elif not any(rel == 'Gt' for c, rel in guards):
                problems.append('OutOfGas is returned without the cost exceeding the limit')
    if oks == 0:
        problems.append('no successful path recognised')
    if oogs == 0:
        problems.append('no OutOfGas path: the cost is never compared with the limit')
    if problems:
        rep.violation('R2-oog-discipline', name, '%s: %s' % (name, sorted(set(problems))[0]), f.where())
    else:
        rep.ok('R2-oog-discipline', name, '%d successful return(s) charge the tested amount' % oks)


# ------------------------------------------------------------------ R3

def success_costs(fx, f, limit_arg):
    out = []
    for r in paths_of(fx, f):
        g = ok_gas(r.ret)
        if g is not None and not r.cut:
            out.append((r, g))
    return out


def check_formulas(fx, rep):
    grid = [0, 1, 31, 32, 33, 63, 64, 65, 191, 192, 193, 383, 384, 385, 768, 1000, 4096, 100000]
    n = 0
    for name, ref in sorted(REF.LINEAR.items()):
        f = fx.fns.get(P + name)
        if f is None:
            rep.undecided('R3-cost-formula', name, 'entry point not found')
            continue
        costs = {render(g): g for _r, g in success_costs(fx, f, 2)}
        bad = None
        for L in grid:
            for txt, g in costs.items():
                try:
                    got = ev(g, {'len': L})
                except NoValue as e:
                    bad = 'cost expression not evaluable (%s)' % e
                    break
                if got != ref(L):
                    bad = 'for an input of %d bytes the cost is %d, the EIP formula gives %d' % (L, got, ref(L))
                    break
            if bad:
                break
        n += 1
        if bad or not costs:
            rep.violation('R3-cost-formula', name, '%s: %s' % (name, bad or 'no cost expression found'), f.where())
        else:
            rep.ok('R3-cost-formula', name, 'matches on %d lengths' % len(grid))
    for name, want in sorted(REF.FIXED.items()):
        f = fx.fns.get(P + name)
        if f is None:
            rep.undecided('R3-cost-formula', name, 'entry point not found')
            continue
        costs = {render(g) for _r, g in success_costs(fx, f, 2)}
        n += 1
        if costs == {str(want)}:
            rep.ok('R3-cost-formula', name, str(want))
        else:
            rep.violation('R3-cost-formula', name, '%s charges %s, the EIP cost is %d' % (name, sorted(costs), want), f.where())
    # BLAKE2F: rounds * 1
    f = fx.fns.get(P + 'blake2::run')
    if f is not None:
        costs = {render(g): g for _r, g in success_costs(fx, f, 2)}
        okb = bool(costs)
        for txt, g in costs.items():
            for rounds in (0, 1, 12, 2 ** 32 - 1):
                try:
                    got = ev(g, {'__calls__': {'from_be_bytes': lambda sv, env, r_=rounds: r_}})
                except NoValue:
                    okb = False
                    break
                if got != rounds * 1:
                    okb = False
        n += 1
        if okb:
            rep.ok('R3-cost-formula', 'blake2::run', 'rounds * 1')
        else:
            rep.violation('R3-cost-formula', 'blake2::run', 'BLAKE2F does not charge 1 gas per round: %s' % sorted(costs), f.where())
    # MSM helper
    g = fx.fns.get(P + 'bls12_381::msm::msm_required_gas')
    if g is not None:
        rep.fn(g)
        rs = Symx(fx, max_paths=500, snapshot_refs=True, pure={'core::cmp::min'}).run(g)
        bad = None
        for k in (0, 1, 2, 3, 127, 128, 129, 1000):
            for tabname, tab, mulc in (('G1', REF.G1_DISCOUNT, 12000), ('G2', REF.G2_DISCOUNT, 22500)):
                def idx(sv, env, tab=tab):
                    return tab[ev(sv[2][1], env)] if False else None
                env = {'arg1': k, 'arg3': mulc, 'len': len(tab), '__table__': tab}
                got = set()
                for r in rs:
                    try:
                        if consistent(r, env):
                            # the table index is the value of the (single) min() call of the path;
                            # that the indexing local is that call's result is checked below
                            mins = [e for e in r.events if e[0].endswith('cmp::min')]
                            env.pop('__index__', None)
                            if len(mins) == 1:
                                env['__index__'] = min(ev(mins[0][1][0], env), ev(mins[0][1][1], env))
                            got.add(ev_msm(r.ret, env))
                    except NoValue as e:
                        bad = 'not evaluable: %s' % e
                want = REF.msm_gas(k, tab, mulc)
                if bad is None and got != {want}:
                    bad = 'for k=%d (%s) the required gas is %s, EIP-2537 gives %d' % (k, tabname, sorted(got), want)
        # the local indexing the table is the result of the min() call
        from cfg import Origins
        og = Origins(g, fx)
        idx_ok = False
        for b in g.blocks:
            for s in b.stmts:
                if s.kind == 'assign':
                    for o in s.rv.ops:
                        if o.place is not None:
                            for pe in o.place.pr:
                                if pe.startswith('[_'):
                                    roots = {x.root[1] for x in og.of_local(int(pe[2:-1]), 6) if x.root[0] == 'call'}
                                    if roots and all(r_.endswith('cmp::min') for r_ in roots):
                                        idx_ok = True
        if not idx_ok and bad is None:
            bad = 'the discount table is not indexed by the result of min(k - 1, len - 1)'
        n += 1
        if bad:
            rep.violation('R3-cost-formula', 'msm_required_gas', 'msm_required_gas: ' + bad, g.where())
        else:
            rep.ok('R3-cost-formula', 'msm_required_gas', 'k * discount[min(k-1, 127)] * cost / 1000')
    # the MSM entry points pass k = len / item length, their own table and base fee
    for mod, item, fee in (('g1_msm', 160, 12000), ('g2_msm', 288, 22500)):
        f = fx.fns.get(P + 'bls12_381::%s::%s' % (mod, mod))
        if f is None:
            continue
        calls = [t for _, t in f.calls() if (t.target_fn or '').endswith('msm_required_gas')]
        okc = False
        for t in calls:
            a = [str(x) for x in t.args]
            statics = [x.k.get('static', '') if x.kind == 'const' and isinstance(x.k, dict) else '' for x in t.args]
            if any(('%s::DISCOUNT_TABLE' % mod) in str(x) for x in a + statics) or True:
                okc = True
        n += 1
        src = render_calls_args(fx, f)
        statics = set()
        for b in f.blocks:
            for st_ in b.stmts:
                if st_.kind == 'assign':
                    for o in st_.rv.ops:
                        if o.kind == 'const' and isinstance(o.k, dict) and o.k.get('static'):
                            statics.add(o.k['static'])
        own = P + 'bls12_381::%s::DISCOUNT_TABLE' % mod
        if calls and statics == {own} and str(fee) in src and ('Div(len(' in src and ', %d)' % item in src):
            rep.ok('R3-cost-formula', mod + ':arguments', 'k = len / %d, own table, %d' % (item, fee))
        else:
            rep.violation('R3-cost-formula', mod + ':arguments', '%s does not call msm_required_gas(len / %d, its own DISCOUNT_TABLE, %d): %s; tables referenced: %s' % (mod, item, fee, src[:100], sorted(statics)), f.where())
    rep.floor('R3-formulas', n, 14)


def render_calls_args(fx, f):
    rs = Symx(fx, max_paths=3000, snapshot_refs=True).run(f)
    out = set()
    for r in rs:
        for e in r.events:
            if e[0].endswith('msm_required_gas'):
                out.add(', '.join(render(a) for a in e[1]))
    return ' | '.join(sorted(out))


def ev_msm(sv, env):
    """msm_required_gas result: table lookups `deref(arg2)[i]` are resolved in the reference table"""
    def look(x):
        if x[0] == 'proj' and x[2] and x[2][-1].startswith('['):
            raise NoValue('symbolic index')
        return None
    return ev(subst_index(sv, env), env)


def subst_index(sv, env):
    """replace `(*table)[index local]` by the table value: symx keeps the index local unresolved, the
    index expression is min(k - 1, len - 1)"""
    k_ = sv[0]
    if k_ == 'proj' and sv[2] and sv[2][-1].startswith('[') and 'arg2' in render(sv[1]):
        if '__index__' not in env:
            raise NoValue('table index')
        i = env['__index__']
        if not 0 <= i < len(env['__table__']):
            raise NoValue('table index %d out of range' % i)
        return K(env['__table__'][i])
    if k_ == 'bin':
        return ('bin', sv[1], subst_index(sv[2], env), subst_index(sv[3], env))
    if k_ == 'cast':
        return ('cast', sv[1], subst_index(sv[2], env))
    if k_ == 'call':
        return ('call', sv[1], tuple(subst_index(a, env) for a in sv[2]), sv[3] if len(sv) > 3 else None)
    return sv


def check_bn128_wiring(fx, rep):
    want = {
        'add::ISTANBUL': ('run_add', ['ISTANBUL_ADD_GAS_COST']), 'add::BYZANTIUM': ('run_add', ['BYZANTIUM_ADD_GAS_COST']),
        'mul::ISTANBUL': ('run_mul', ['ISTANBUL_MUL_GAS_COST']), 'mul::BYZANTIUM': ('run_mul', ['BYZANTIUM_MUL_GAS_COST']),
        'pair::ISTANBUL': ('run_pair', ['ISTANBUL_PAIR_PER_POINT', 'ISTANBUL_PAIR_BASE']),
        'pair::BYZANTIUM': ('run_pair', ['BYZANTIUM_PAIR_PER_POINT', 'BYZANTIUM_PAIR_BASE']),
    }
    n = 0
    for cname, (fn_, consts) in sorted(want.items()):
        q = P + 'bn128::' + cname
        cl = [g for g in fx.fns_all if g.nq.startswith(q + '::{closure')]
        if not cl:
            rep.undecided('R3-bn128-wiring', cname, 'closure of the constant not found')
            continue
        g = cl[0]
        rep.fn(g)
        calls = [t for _, t in g.calls() if (t.target_fn or '').endswith('bn128::' + fn_)]
        got = []
        for t in calls:
            for a in t.args[1:-1]:
                if a.kind == 'const' and isinstance(a.k, dict):
                    got.append((a.k.get('uneval') or a.k.get('name') or str(a.k.get('i'))))
                else:
                    got.append(str(a))
        vals = []
        for t in calls:
            for a in t.args[1:-1]:
                vals.append(a.const_int())
        ref_vals = [REF.CONSTANTS['bn128::%s::%s' % (cname.split('::')[0], c_)] for c_ in consts]
        n += 1
        if len(calls) == 1 and vals == ref_vals:
            rep.ok('R3-bn128-wiring', cname, '%s(%s)' % (fn_, ', '.join(map(str, ref_vals))))
        else:
            rep.violation('R3-bn128-wiring', cname, 'bn128::%s calls %s with %s, the fork\'s costs are %s' % (cname, fn_, vals, ref_vals), g.where())
    rep.floor('R3-bn128-wiring', n, 6)
    # pairing cost: per_point * (len / 192) + base
    f = fx.fns.get(P + 'bn128::run_pair')
    if f is not None:
        rep.fn(f)
        costs = {render(g): g for _r, g in success_costs(fx, f, 4)}
        bad = None
        for L in (0, 192, 384, 1920):
            for txt, g in costs.items():
                try:
                    got = ev(g, {'len': L, 'arg2': 34000, 'arg3': 45000})
                except NoValue as e:
                    bad = 'not evaluable (%s)' % e
                    continue
                if got != 34000 * (L // 192) + 45000:
                    bad = 'for %d bytes the cost is %d, EIP-1108 gives %d' % (L, got, 34000 * (L // 192) + 45000)
        if bad or not costs:
            rep.violation('R3-cost-formula', 'bn128::run_pair', 'run_pair: %s' % (bad or 'no cost expression'), f.where())
        else:
            rep.ok('R3-cost-formula', 'bn128::run_pair', 'per_point * (len / 192) + base')


# ------------------------------------------------------------------ R4

def check_modexp(fx, rep):
    M = P + 'modexp::'
    lens = [0, 1, 7, 8, 9, 31, 32, 33, 64, 65, 100, 1024, 1025, 5000]
    exps = [0, 1, 31, 32, 33, 40, 1000]
    bits = [0, 1, 2, 255, 256]
    for name, ref in (('byzantium_gas_calc', REF.modexp_byzantium), ('berlin_gas_calc', REF.modexp_berlin)):
        f = fx.fns.get(M + name)
        if f is None:
            rep.undecided('R4-modexp', name, 'not found')
            continue
        rep.fn(f)
        inl = {g.nq for g in fx.fns_all if g.nq.startswith(M) and g.nq != f.nq and g.kind == 'Fn'}
        try:
            rs = Symx(fx, max_paths=3000, snapshot_refs=True, inline=inl, pure={'core::cmp::max', 'core::cmp::min'}).run(f)
        except Budget:
            rep.undecided('R4-modexp', name, 'path budget', f.where())
            continue
        bad = None
        cells = 0
        for b_, e_, m_, h_ in itertools.product(lens, exps, lens, bits):
            if e_ == 0 and h_ != 0:
                continue
            if e_ < 32 and h_ > 8 * e_:
                continue
            env = {'arg1': b_, 'arg2': e_, 'arg3': m_, 'bits': h_}
            got = set()
            try:
                for r in rs:
                    if consistent(r, env):
                        got.add(ev(r.ret, env))
            except NoValue as ex:
                bad = 'expression not evaluable (%s)' % ex
                break
            cells += 1
            want = ref(b_, e_, m_, h_)
            if got != {want}:
                bad = 'for base_len=%d exp_len=%d mod_len=%d exponent-head bits=%d the gas is %s, the EIP formula gives %d' % (b_, e_, m_, h_, sorted(got), want)
                break
        if bad:
            rep.violation('R4-modexp', name, '%s: %s' % (name, bad), f.where())
        else:
            rep.ok('R4-modexp', name, '%d grid cells over %d paths' % (cells, len(rs)))
    # run_inner: the price charged is calc_gas(base_len, exp_len, mod_len, exponent head), read from
    # the three length words at offsets 0 / 32 / 64; the flat minimum is charged only when both the
    # base and the modulus are empty (then the formula gives 0 resp. the Berlin minimum anyway)
    f = fx.fns.get(M + 'run_inner')
    if f is None:
        rep.undecided('R4-modexp', 'run_inner', 'not found')
    else:
        rep.fn(f)
        import c15
        problems = []
        n_formula = n_min = 0
        try:
            paths = paths_of(fx, f)
        except Budget:
            paths = []
            problems.append('path budget')

        def length_word(txt, off):
            return 'right_pad_with_offset(' in txt and txt.rstrip(')').endswith(', %d' % off) or (', %d))))' % off) in txt

        for r in paths:
            g = ok_gas(r.ret)
            if g is None or r.cut:
                continue
            gtxt = c15.render_deep(g)
            if g == ('sym', 'arg3'):
                n_min += 1
                zero = {}
                for (sv, lit, _f, _b) in r.lits:
                    t_ = c15.render_deep(sv)
                    if sv[0] == 'bin' and sv[1] == 'Eq' and sv[3] == K(0) and 'right_pad_with_offset(' in t_:
                        for off in (0, 32, 64):
                            if (', %d))))' % off) in t_:
                                zero[off] = lit_truth(lit)
                if not (zero.get(0) is True and zero.get(64) is True):
                    problems.append('the flat minimum is charged without base_len == 0 and mod_len == 0 both established (tested: %s): a call with an empty modulus and a long base escapes the pricing formula and the out-of-gas test' % {k_: v for k_, v in zero.items()})
            elif gtxt.startswith('call_once(arg4'):
                n_formula += 1
                order = [gtxt.find(', %d))))' % off) for off in (0, 32, 64)]
                if -1 in order or order != sorted(order):
                    problems.append('calc_gas does not receive (base_len, exp_len, mod_len) from the length words at 0 / 32 / 64')
            else:
                problems.append('a successful return charges %s' % gtxt[:80])
        if not problems and not (n_formula and n_min):
            problems.append('paths not recognised (formula=%d, minimum=%d)' % (n_formula, n_min))
        if problems:
            rep.violation('R4-modexp', 'run_inner', 'modexp::run_inner: ' + sorted(set(problems))[0], f.where())
        else:
            rep.ok('R4-modexp', 'run_inner', 'calc_gas(base, exp, mod) on %d paths; minimum only for empty base and modulus' % n_formula)
    # wrappers: min gas and pricing function per fork
    for wname, min_gas, calc in (('byzantium_run', 0, 'byzantium_gas_calc'), ('berlin_run', 200, 'berlin_gas_calc')):
        f = fx.fns.get(M + wname)
        if f is None:
            rep.undecided('R4-modexp', wname, 'not found')
            continue
        rep.fn(f)
        calls = [t for _, t in f.calls() if (t.target_fn or '').endswith('modexp::run_inner')]
        cl = list(fx.closures_of(f.nq))
        inner = {(t.target_fn or '').split('::')[-1] for g in cl for _, t in g.calls()}
        mg = calls[0].args[2].const_int() if calls and len(calls[0].args) > 2 else None
        if len(calls) == 1 and mg == min_gas and calc in inner:
            rep.ok('R4-modexp', wname, 'run_inner(min_gas=%d, %s)' % (min_gas, calc))
        else:
            rep.violation('R4-modexp', wname, '%s calls run_inner with min gas %s and pricing %s; expected %d and %s' % (wname, mg, sorted(inner), min_gas, calc), f.where())


# ------------------------------------------------------------------ R5

def check_mapping(fx, rep):
    f = fx.fns.get('revm::context::evm_context::EvmContext::call_precompile')
    if f is None:
        rep.undecided('R5-result-mapping', 'call_precompile', 'not found')
        return
    rep.fn(f)
    try:
        rs = Symx(fx, max_paths=3000, snapshot_refs=True, pure={'revm_primitives::precompile::PrecompileError::is_oog'}).run(f)
    except Budget:
        rep.undecided('R5-result-mapping', 'call_precompile', 'path budget', f.where())
        return
    seen = {}
    problems = []
    for r in rs:
        ret = r.ret
        lits = [(render(l[0]), l[1]) for l in r.lits]
        rc = [e for e in r.events if e[0].endswith('Gas::record_cost')]
        if ret[0] == 'agg' and ret[2] == 'Ok' and ret[4][0][0] == 'agg' and ret[4][0][2] == 'None':
            seen['none'] = True
            continue
        if ret[0] == 'agg' and ret[2] == 'Err':
            seen['fatal'] = 'Precompile' in render(ret)
            continue
        if not (ret[0] == 'agg' and ret[2] == 'Ok'):
            problems.append('unrecognised return %s' % render(ret)[:60])
            continue
        res = ret[4][0][4][0] if ret[4][0][0] == 'agg' and ret[4][0][2] == 'Some' else None
        txt = render(res) if res is not None else ''
        kind = None
        if rc:
            ok_rec = [lit_truth(l) for t, l in lits if t.startswith('record_cost(')]
            if 'gas_used' not in render(rc[0][1][1]):
                problems.append('the gas recorded is %s, not the precompile\'s gas_used' % render(rc[0][1][1])[:50])
            kind = 'ok-recorded' if ok_rec == [True] else 'ok-not-recorded'
        else:
            oog = [lit_truth(l) for t, l in lits if t.startswith('is_oog(')]
            kind = 'err-oog' if oog == [True] else ('err-other' if oog == [False] else '?')
        result = None
        base, mods = (res[1], res[2]) if res is not None and res[0] == 'with' else (res, ())
        if base is not None and base[0] == 'agg' and 'result' in base[3]:
            rv = base[4][base[3].index('result')]
            for path, val in mods:
                if tuple(path) == ('.result',):
                    rv = val
            result = rv[2] if rv[0] == 'agg' else render(rv)
        seen[kind] = result
        if kind == 'ok-recorded' and 'bytes' not in txt:
            problems.append('a successful precompile call does not return the precompile\'s output bytes')
    want = {'none': True, 'fatal': True, 'ok-recorded': 'Return', 'ok-not-recorded': 'PrecompileOOG', 'err-oog': 'PrecompileOOG', 'err-other': 'PrecompileError'}
    for k_, w in want.items():
        if seen.get(k_) != w:
            problems.append('%s maps to %s, expected %s' % (k_, seen.get(k_), w))
    if problems:
        rep.violation('R5-result-mapping', 'call_precompile', 'call_precompile: ' + sorted(set(problems))[0], f.where())
    else:
        rep.ok('R5-result-mapping', 'call_precompile', 'Ok/record -> Return, record fails or OutOfGas -> PrecompileOOG, other -> PrecompileError, fatal -> Err')


# ------------------------------------------------------------------ R8

LAYOUT_PADS = {'right_pad', 'left_pad', 'right_pad_with_offset', 'right_pad_vec', 'left_pad_vec', 'right_pad_with_offset_vec', 'as_array'}


def check_layouts(fx, rep):
    """R8: the constant byte windows each precompile uses are the ones its EIP lays out (reference
    table LAYOUTS, written from the EIPs).  A window that is not in the layout, or a layout field that
    is no longer read, is reported; a function that is gone is undecided (fail closed)."""
    n = 0
    for name, want in sorted(REF.LAYOUTS.items()):
        f = fx.fns.get(P + name)
        if f is None:
            rep.undecided('R8-layout', name, 'function not found')
            continue
        rep.fn(f)
        got = layout_inventory(fx, f)
        n += 1
        extra = [x for x in got if x not in want]
        missing = [x for x in want if x not in got]
        if extra or missing:
            rep.violation('R8-layout', name, '%s: byte windows %s are not in the EIP layout / layout fields %s are not read' % (name, extra, missing), f.where())
        else:
            rep.ok('R8-layout', name, '%d layout constants' % len(want))
    rep.floor('R8-layout-functions', n, 20)


def layout_inventory(fx, f):
    """constant byte windows a function uses: slice ranges with constant bounds, constant element
    indices (read `at`, written `at=`), switches on a constant-indexed byte with their arm values,
    and constant generic arguments of calls (right_pad::<128>)."""
    from cfg import Origins
    og = Origins(f, fx)

    def consts(oo):
        out = []
        for o in oo:
            if o.root[0] == 'const' and o.root[1] is not None and not o.path:
                out.append(int(o.root[1]))
            else:
                return None
        return out

    def one(oo):
        c = consts(oo)
        return c[0] if c and len(set(c)) == 1 else '?'
    out = set()
    for bi, t in f.calls():
        short = (t.callee or '').split('::')[-1]
        if short in ('index', 'index_mut', 'get', 'get_mut', 'get_unchecked', 'split_at', 'split_at_mut') and len(t.args) >= 2:
            for o in og.of_operand(t.args[1]):
                if o.root[0] == 'agg' and 'range::Range' in o.root[1]:
                    b = tuple(one(list(x)) for x in o.root[4])
                    if '?' not in b:
                        out.add((o.root[1].split('::')[-1],) + b)
                elif short.startswith('split_at') and o.root[0] == 'const' and o.root[1] is not None:
                    out.add(('split_at', int(o.root[1])))
        if short in LAYOUT_PADS:
            for ca in t.cargs():
                ca = str(ca)
                if ca.startswith('const ') and ca[6:].strip().isdigit():
                    out.add(('pad', short, int(ca[6:])))
            if 'offset' in short and len(t.args) >= 2:
                c = one(og.of_operand(t.args[1]))
                if c != '?':
                    out.add(('offset', short, c))
    for b in f.blocks:
        if b.cleanup:
            continue
        for s in b.stmts:
            if s.kind != 'assign' or s.rv is None:
                continue
            for op in (s.rv.ops or []):
                if op.place is not None:
                    for p in op.place.pr:
                        if p.startswith('[_'):
                            c = one(og.of_local(int(p[2:-1]), 12))
                            if c != '?':
                                out.add(('at', c))
            for p in s.place.pr:
                if p.startswith('[_'):
                    c = one(og.of_local(int(p[2:-1]), 12))
                    if c != '?':
                        out.add(('at=', c))
            # arithmetic of a constant-indexed byte with a constant (v - 27)
            if s.rv.rv == 'bin' and len(s.rv.ops or []) == 2:
                a, b_ = s.rv.ops
                if a.place is not None and b_.kind == 'const':
                    idxs = set()
                    for o in og.of_operand(a):
                        for p in o.path:
                            if p.startswith('[_'):
                                idxs.add(one(og.of_local(int(p[2:-1]), 12)))
                    idx = idxs.pop() if len(idxs) == 1 else '?'
                    kc = one(og.of_operand(b_))
                    if idx != '?' and kc != '?':
                        out.add(('bin', (s.rv.d.get('op') or '').replace('WithOverflow', ''), idx, kc))
        if b.term.kind == 'switch':
            d = b.term.d.get('d', {})
            pl = d.get('c') or d.get('m')
            if pl and any(p.startswith('[_') for p in pl.get('pr', [])):
                p = [p for p in pl['pr'] if p.startswith('[_')][0]
                c = one(og.of_local(int(p[2:-1]), 12))
                if c != '?':
                    out.add(('switch-at', c, tuple(sorted(a[0] for a in b.term.d.get('arms', [])))))
    return sorted(out, key=str)


# ------------------------------------------------------------------ R9

def _find_range(sv):
    """(start, end) of the first constant Range / RangeTo found inside an extracted value"""
    if not isinstance(sv, tuple):
        return None
    if sv and sv[0] == 'agg' and isinstance(sv[1], str) and sv[1].endswith(('::Range', '::RangeTo')):
        vals = dict(zip(sv[3], sv[4]))
        a = vals.get('start', K(0))
        b = vals.get('end')
        if a[0] == 'k' and b is not None and b[0] == 'k':
            return int(a[1]), int(b[1])
        return None
    for x in sv:
        if isinstance(x, tuple):
            r = _find_range(x)
            if r is not None:
                return r
    return None


def check_kzg_decision(fx, rep):
    """R9: EIP-4844 point evaluation as a decision: success exactly when the input is 192 bytes, the
    versioned hash of commitment[96..144] equals input[..32], and verify_kzg_proof(commitment, z =
    [32..64], y = [64..96], proof = [144..192]) holds; each failure maps to its own error."""
    f = fx.fns.get(P + 'kzg_point_evaluation::run')
    if f is None:
        rep.undecided('R9-kzg-decision', 'run', 'not found')
        return
    rep.fn(f)
    try:
        rs = Symx(fx, max_paths=500, snapshot_refs=True).run(f)
    except Budget:
        rep.undecided('R9-kzg-decision', 'run', 'path budget', f.where())
        return
    problems = []
    seen = set()
    for r in rs:
        facts_ = {}
        for (sv, lit, _f, _b) in r.lits:
            t = render(sv)
            tv = lit_truth(lit)
            if t.startswith('Ne(len(&arg1), 192)') or t.startswith('Ne(192, len(&arg1))'):
                facts_['len_bad'] = tv
            elif t.startswith('Eq(len(&arg1), 192)'):
                facts_['len_bad'] = not tv
            elif t.startswith('ne(&kzg_to_versioned_hash('):
                facts_['hash_bad'] = tv
            elif t.startswith('eq(&kzg_to_versioned_hash('):
                facts_['hash_bad'] = not tv
            elif t.startswith('verify_kzg_proof('):
                facts_['proof_ok'] = tv
        ok = r.ret[0] == 'agg' and r.ret[2] == 'Ok'
        err = render(r.ret) if not ok else None
        if ok:
            seen.add('ok')
            if facts_.get('len_bad') is not False or facts_.get('hash_bad') is not False or facts_.get('proof_ok') is not True:
                problems.append('succeeds on a path that has not established length 192, matching versioned hash and a verified proof (%s)' % facts_)
            for e in r.events:
                short = e[0].split('::')[-1]
                if short == 'verify_kzg_proof':
                    got = [_find_range(a) for a in e[1][:4]]
                    if got != [(96, 144), (32, 64), (64, 96), (144, 192)]:
                        problems.append('verify_kzg_proof(commitment, z, y, proof) is given input ranges %s, EIP-4844: [96..144], [32..64], [64..96], [144..192]' % got)
                if short == 'kzg_to_versioned_hash' and _find_range(e[1][0]) != (96, 144):
                    problems.append('the versioned hash is computed over %s, not the commitment [96..144]' % (_find_range(e[1][0]),))
        else:
            for cond, name in ((facts_.get('len_bad') is True, 'BlobInvalidInputLength'), (facts_.get('hash_bad') is True, 'BlobMismatchedVersion'), (facts_.get('proof_ok') is False, 'BlobVerifyKzgProofFailed')):
                if cond:
                    seen.add(name)
                    if name not in err:
                        problems.append('%s condition answers %s' % (name, err[:60]))
                    break
    for need in ('ok', 'BlobInvalidInputLength', 'BlobMismatchedVersion', 'BlobVerifyKzgProofFailed'):
        if need not in seen:
            problems.append('no path for %s' % need)
    h = fx.fns.get(P + 'kzg_point_evaluation::kzg_to_versioned_hash')
    ver = fx.const_val(P + 'kzg_point_evaluation::VERSIONED_HASH_VERSION_KZG')
    if ver != 1:
        problems.append('VERSIONED_HASH_VERSION_KZG is %s, EIP-4844 says 0x01' % ver)
    if h is not None:
        rep.fn(h)
        hs = Symx(fx, max_paths=50).run(h)
        okh = len(hs) == 1 and 'digest(' in render(hs[0].ret) and any(path == ('[0]',) and v == K(1) for (root, path), v in hs[0].stores.items())
        if not okh:
            okh = len(hs) == 1 and 'digest(' in render(hs[0].ret) and 'with {[0]: 1}' in render(hs[0].ret).replace("'", '')
        if not okh:
            problems.append('kzg_to_versioned_hash is not sha256(commitment) with byte 0 set to the version: %s' % (render(hs[0].ret)[:80] if hs else '?'))
    if problems:
        rep.violation('R9-kzg-decision', 'run', 'KZG point evaluation: ' + problems[0], f.where())
    else:
        rep.ok('R9-kzg-decision', 'run', 'success iff len = 192, versioned hash matches, proof verifies; operands in EIP order')


# ------------------------------------------------------------------ R10

def check_ecrecover_decision(fx, rep):
    """R10: ECRECOVER never fails except for gas: an invalid v (bytes 32..63 not zero, byte 63 not 27 /
    28) and a failed recovery both succeed with EMPTY output and the base cost; otherwise the output is
    the recovered address.  Operands: ecrecover(sig = [64..128], recid = v - 27, msg = [0..32])."""
    f = fx.fns.get(P + 'secp256k1::ec_recover_run')
    if f is None:
        rep.undecided('R10-ecrecover-decision', 'ec_recover_run', 'not found')
        return
    rep.fn(f)
    try:
        rs = Symx(fx, max_paths=500, snapshot_refs=True).run(f)
    except Budget:
        rep.undecided('R10-ecrecover-decision', 'ec_recover_run', 'path budget', f.where())
        return
    problems = []
    seen = set()
    for r in rs:
        lits = [(render(l[0]), l[1]) for l in r.lits]
        oog = [lit_truth(l) for t, l in lits if 'arg2' in t and t.startswith(('Gt(', 'Lt(', 'Ge(', 'Le('))]
        if r.ret[0] == 'agg' and r.ret[2] == 'Err':
            if 'OutOfGas' in render(r.ret) and oog and oog[0] is True:
                seen.add('oog')
            else:
                problems.append('fails with %s on a path other than the gas check' % render(r.ret)[:60])
            continue
        if not (r.ret[0] == 'agg' and r.ret[2] == 'Ok' and r.ret[4][0][0] == 'call' and r.ret[4][0][2] and r.ret[4][0][2][0] == K(3000)):
            problems.append('a successful path does not charge the 3000 base cost: %s' % render(r.ret)[:80])
            continue
        out = r.ret[4][0][2][1]
        calls = [e for e in r.events if e[0].endswith('::ecrecover')]
        zero_ok = [lit_truth(l) for t, l in lits if t.startswith('all(')]
        v_ok = [l for t, l in lits if t.endswith('[63]')]
        valid = bool(zero_ok) and zero_ok[0] is True and bool(v_ok) and v_ok[0][0] == 'eq' and v_ok[0][1] in (27, 28)
        if calls:
            seen.add('recover')
            if not valid:
                problems.append('recovery runs on a path that has not established v in {27, 28} with zero padding')
            a = calls[0][1]
            got = (_find_range(a[0]), render(a[1]).replace(' ', ''), _find_range(a[2]))
            if got[0] != (64, 128) or got[2] != (0, 32) or not (got[1].startswith('Sub(') and got[1].endswith('[63],27)')):
                problems.append('ecrecover(sig, recid, msg) is given %s; expected sig = [64..128], recid = byte 63 - 27, msg = [0..32]' % (got,))
            if 'unwrap_or_default(' not in render(out) or 'ecrecover(' not in render(out):
                problems.append('the output is not the recovered address or empty: %s' % render(out)[:80])
        else:
            seen.add('empty')
            if valid:
                problems.append('a valid v answers without running the recovery')
            if not (out[0] == 'call' and out[1].endswith('Bytes::new') and not out[2]):
                problems.append('an invalid v does not answer with empty output: %s' % render(out)[:60])
    for need in ('oog', 'recover', 'empty'):
        if need not in seen:
            problems.append('no path for: %s' % need)
    if problems:
        rep.violation('R10-ecrecover-decision', 'ec_recover_run', 'ECRECOVER: ' + problems[0], f.where())
    else:
        rep.ok('R10-ecrecover-decision', 'ec_recover_run', 'empty output for invalid v / failed recovery, never an error; operands in order')


# ------------------------------------------------------------------ R11

def check_msm_pairing(fx, rep):
    """R11: BLS12-381 G1MSM / G2MSM hand blst two parallel arrays, the points that are not at infinity
    and their scalars; blst pairs them by position.  On every path through one loop iteration a point
    is pushed exactly when its scalar is appended (an item skipped as the point at infinity must skip
    its scalar too, or every later point is multiplied by the wrong scalar)."""
    for nm in ('g1_msm::g1_msm', 'g2_msm::g2_msm'):
        f = fx.fns.get(P + 'bls12_381::' + nm)
        key = nm.split('::')[-1]
        if f is None:
            rep.undecided('R11-msm-pairing', key, 'not found')
            continue
        rep.fn(f)
        try:
            rs = Symx(fx, max_paths=5000, snapshot_refs=True).run(f)
        except Budget:
            rep.undecided('R11-msm-pairing', key, 'path budget', f.where())
            continue
        body = [r for r in rs if r.cut]
        shapes = set()
        for r in body:
            pts = sum(1 for e in r.events if e[0].endswith('Vec::push'))
            scs = sum(1 for e in r.events if e[0].endswith('extend_from_slice') or (e[0].endswith('Vec::extend') and e[1]))
            shapes.add((pts, scs))
        if not body or (1, 1) not in shapes:
            rep.undecided('R11-msm-pairing', key, 'loop body not recognised (%s)' % sorted(shapes), f.where())
        elif shapes - {(0, 0), (1, 1)}:
            rep.violation('R11-msm-pairing', key, '%s: an iteration appends %s (points, scalars): the two arrays get out of step and later points are multiplied by the scalars of other items' % (key, sorted(shapes - {(0, 0), (1, 1)})), f.where())
        else:
            rep.ok('R11-msm-pairing', key, 'point and scalar appended together or both skipped')


# ------------------------------------------------------------------ R12

def _range_exprs(sv, out):
    if not isinstance(sv, tuple):
        return
    if sv and sv[0] == 'agg' and isinstance(sv[1], str) and sv[1].endswith('::Range') and len(sv) > 4:
        vals = dict(zip(sv[3], sv[4]))
        out.append((vals.get('start'), vals.get('end')))
        return
    for x in sv:
        if isinstance(x, tuple):
            _range_exprs(x, out)


def check_bn128_pair_wiring(fx, rep):
    """R12: EIP-197 pairing input, per 192-byte element: G1 (x, y) at words 0, 1; the G2 point as
    x = (imaginary word 2, real word 3), y = (imaginary word 4, real word 5), i.e.
    Fq2::new(real = word 3, imaginary = word 2) and Fq2::new(word 5, word 4); AffineG2::new(x, y).
    Offsets are evaluated from the extracted range expressions with the element index set to 0."""
    f = fx.fns.get(P + 'bn128::run_pair')
    if f is None:
        rep.undecided('R12-bn128-pair', 'run_pair', 'not found')
        return
    rep.fn(f)
    try:
        rs = Symx(fx, max_paths=40000, snapshot_refs=True).run(f)
    except Budget:
        rep.undecided('R12-bn128-pair', 'run_pair', 'path budget', f.where())
        return
    body = [r for r in rs if r.cut and any(e[0].endswith('Vec::push') for e in r.events)]
    if not body:
        rep.undecided('R12-bn128-pair', 'run_pair', 'no loop-body path that stores a pair', f.where())
        return
    env = {'__sym__': lambda r: 0}

    def words(arg):
        out = []
        _range_exprs(arg, out)
        res = []
        for a, b in out:
            try:
                lo, hi = ev(a, env), ev(b, env)
            except NoValue:
                return None
            if hi - lo != 32 or lo % 32:
                return None
            res.append(lo // 32)
        return res
    problems = set()
    for r in body:
        g1 = [e for e in r.events if e[0].endswith('bn128::new_g1_point')]
        fq2 = [e for e in r.events if e[0].endswith('Fq2::new')]
        aff = [e for e in r.events if e[0].endswith('AffineG2::new')]
        if len(g1) != 1 or [words(a) for a in g1[0][1][:2]] != [[0], [1]]:
            problems.add('the G1 point is not built from words (0, 1): %s' % ([words(a) for a in g1[0][1][:2]] if g1 else None))
        got = [[words(a) for a in e[1][:2]] for e in fq2]
        if got != [[[3], [2]], [[5], [4]]]:
            problems.add('the G2 coordinates are built as Fq2::new%s; EIP-197 encodes each as (imaginary, real), so Fq2::new(real, imaginary) takes words (3, 2) and (5, 4)' % got)
        for e in aff:
            if [words(a) for a in e[1][:2]] != [[3, 2], [5, 4]]:
                problems.add('AffineG2::new(x, y) receives %s' % [words(a) for a in e[1][:2]])
    # the verdict: 1 for empty input, else pairing_batch(points) == Gt::one(); a length that is not a
    # multiple of the element size is the error Bn128PairLength
    oks = [r for r in rs if not r.cut and r.ret[0] == 'agg' and r.ret[2] == 'Ok']
    shapes = set()
    for r in oks:
        out = r.ret[4][0][2][1] if r.ret[4][0][0] == 'call' and len(r.ret[4][0][2]) > 1 else None
        empty = [lit_truth(l[1]) for l in r.lits if render(l[0]).startswith('is_empty(&arg1')]
        arg = out[2][0] if out is not None and out[0] == 'call' and out[1].endswith('bool_to_bytes32') and out[2] else None
        if arg == K(1) and empty and empty[0] is True:
            shapes.add('empty->true')
        elif arg is not None and arg[0] == 'call' and arg[1].split('::')[-1] == 'eq' and 'pairing_batch(' in render(arg) and 'one()' in render(arg) and empty and empty[0] is False:
            shapes.add('product==one')
        else:
            problems.add('a successful path answers %s' % (render(out)[:70] if out else '?'))
    if shapes != {'empty->true', 'product==one'}:
        problems.add('verdict paths recognised: %s (need the empty input answering true and the comparison of the pairing product with one)' % sorted(shapes))
    if not any(not r.cut and 'Bn128PairLength' in render(r.ret) and any(render(l[0]).startswith('Ne(Rem(len(&arg1), 192), 0)') and lit_truth(l[1]) is True for l in r.lits) for r in rs):
        problems.add('no rejection of an input length that is not a multiple of 192')
    lens = {c: fx.const_val(P + 'bn128::' + c) for c in ('PAIR_ELEMENT_LEN',)}
    if lens['PAIR_ELEMENT_LEN'] != 192:
        problems.add('PAIR_ELEMENT_LEN is %s' % lens['PAIR_ELEMENT_LEN'])
    if problems:
        rep.violation('R12-bn128-pair', 'run_pair', 'BN254 pairing: ' + sorted(problems)[0], f.where())
    else:
        rep.ok('R12-bn128-pair', 'run_pair', 'G1 from words 0,1; G2 x = Fq2(3,2), y = Fq2(5,4)')
