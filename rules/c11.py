"""C11 — each call frame sees its own zero-initialised memory (structural clauses).

R1 context pairing in run_the_loop: new_context exactly on the paths that push a frame (initial +
   FrameOrResult::Frame arm), free_context exactly on the InterpreterAction::Return arm, before the
   frame is popped and its outcome inserted;
R2 coverage of every SharedMemory access made by an instruction: the access is unreachable unless
   the path took `!(offset.saturating_add(len) > memory.len())` or a successful
   `resize_memory(.., offset.saturating_add(len))` for the SAME offset and size (constant 32 / 1
   for word / byte accessors, max(dst, src) for MCOPY); accesses through the call_helpers range
   helper rest on the helper, which is verified by the same rule;
R3 only-grows: SharedMemory::resize is called only from interpreter::resize_memory, after a
   successful charge of memory_gas(new_words) - current_expansion_cost; the buffer is extended with
   zero bytes; free_context is the only shrinker;
R4 return window: insert_call_outcome writes memory only through set(out_offset, data[..min(out_len,
   data.len())]) with the range recorded in the CallOutcome.
"""
from cfg import cfg_of, Origins
from symx import Symx

META = {
    'level': 'other',
    'decides': 'pairing of memory contexts with frames in the main loop; that every memory access of an instruction is preceded on all paths by the covering size test or a successful resize for the same offset and length; who may resize; zero fill; the shape of the return-data write',
    'does_not_decide': 'byte-for-byte equality of memory over histories; the memory_limit feature branch (cfg dev, thorough tier)',
    'explanation': 'Edge-cut reachability with value-origin identity between the resize arguments and the access arguments (coverage diamond), call-site inventory for resize, CFG order in run_the_loop.',
}

SM = 'revm_interpreter::interpreter::shared_memory::SharedMemory::'
RESIZE_FN = 'revm_interpreter::interpreter::resize_memory'
HELPER = 'revm_interpreter::instructions::contract::call_helpers::resize_memory'
# accessor -> (index of offset argument(s), size: ('arg', i) | ('const', n))
ACCESSORS = {
    'slice': ((1,), ('arg', 2)), 'slice_mut': ((1,), ('arg', 2)),
    'set_u256': ((1,), ('const', 32)), 'get_u256': ((1,), ('const', 32)), 'set_word': ((1,), ('const', 32)), 'get_word': ((1,), ('const', 32)),
    'set_byte': ((1,), ('const', 1)), 'get_byte': ((1,), ('const', 1)),
    'set_data': ((1,), ('arg', 3)), 'copy': ((1, 2), ('arg', 3)),
}
RANGE_ACCESSORS = ('slice_range',)


def new_size_matches(f, og, ns_origins, offs, size):
    """ns_origins: origins of the new_size value; true if it is saturating_add(OFF, LEN) for the access"""
    for o in ns_origins:
        r = o.root
        if not (r[0] == 'call' and r[1].endswith('saturating_add') and not o.path):
            return False
        t = f.blocks[r[2]].term
        a = og.of_operand(t.args[0])
        b = og.of_operand(t.args[1])
        # offset part
        if len(offs) == 1:
            if set(a) != set(offs[0]):
                return False
        else:
            # max(dst, src)
            ok = False
            for x in a:
                if x.root[0] == 'call' and x.root[1].endswith('::max'):
                    tm = f.blocks[x.root[2]].term
                    got = {frozenset(og.of_operand(tm.args[0])), frozenset(og.of_operand(tm.args[1]))}
                    if got == {frozenset(offs[0]), frozenset(offs[1])}:
                        ok = True
            if not ok:
                return False
        if size[0] == 'const':
            if not all(x.root[0] == 'const' and x.root[1] == size[1] for x in b):
                return False
        else:
            if set(b) != set(size[1]):
                return False
    return bool(ns_origins)


def covering_edges(f, og, offs, size):
    edges = set()
    for b in f.blocks:
        if b.cleanup or b.term.kind != 'switch':
            continue
        arms = dict(b.term.d['arms'])
        if 0 not in arms:
            continue
        for o in og.of_operand(b.term.switch_discr()):
            r = o.root
            neg = False
            if r[0] == 'un' and r[1] == 'Not' and len(r[2]) == 1:
                neg = True
                o2 = r[2][0]
                r = o2.root
            if r[0] == 'bin' and r[1] == 'Gt':
                a, c = r[2], r[3]
                if all(x.root[0] == 'call' and x.root[1] == SM + 'len' for x in c) and new_size_matches(f, og, list(a), offs, size):
                    # !(new_size > len): the false edge
                    edges.add((b.i, arms[0]) if not neg else (b.i, b.term.d['otherwise']))
            elif r[0] == 'bin' and r[1] == 'Le':
                a, c = r[2], r[3]
                if all(x.root[0] == 'call' and x.root[1] == SM + 'len' for x in c) and new_size_matches(f, og, list(a), offs, size):
                    edges.add((b.i, b.term.d['otherwise']) if not neg else (b.i, arms[0]))
            elif r[0] == 'call' and r[1] == RESIZE_FN:
                t = f.blocks[r[2]].term
                ns = og.of_operand(t.args[2])
                if new_size_matches(f, og, ns, offs, size):
                    # resize returned true
                    edges.add((b.i, b.term.d['otherwise']) if not neg else (b.i, arms[0]))
    return edges


def run(ctx, rep):
    fx = ctx.facts('default')
    check_access_coverage(fx, rep)
    check_helper(fx, rep)
    check_only_grows(fx, rep)
    check_loop_contexts(fx, rep)
    check_return_window(fx, rep)
    check_context_confinement(fx, rep)
    check_window_arithmetic(fx, rep)
    check_eof_call_window(fx, rep)
    rep.assume('Vec::resize(len, 0) zero-fills (standard library)')
    rep.assume('cfg memory_limit adds an early MemoryLimitOOG return inside the size test; it only removes paths')


METADATA_OPS = {'len', 'capacity', 'resize', 'set_len', 'truncate', 'reserve', 'reserve_exact', 'with_capacity', 'clear', 'is_empty', 'shrink_to_fit'}


def check_context_confinement(fx, rep):
    """R6: the frames share one buffer; a frame's offsets are relative to its own checkpoint.  Only
    context_memory / context_memory_mut may get at the buffer's contents (they slice it from
    last_checkpoint); every other method reaches the bytes through them and touches the Vec itself
    only for its length (len / resize / set_len ...)."""
    n = 0
    for f in fx.fns_all:
        if '::test' in f.nq or not f.crate or f.crate.endswith('-test'):
            continue
        if f.kind not in ('Fn', 'AssocFn', 'Closure'):
            continue
        if f.d.get('exp') or f.impl_trait:
            continue        # derived Clone / PartialEq / Hash / Debug copy or compare the whole value
        og = None
        for bi, t in f.calls():
            if not t.args:
                continue
            a0 = t.args[0]
            if a0.place is None:
                continue
            if og is None:
                if not any('shared_memory::SharedMemory' in (l.get('ty') or '') for l in f.locals[:f.argc + 1]) and not f.nq.startswith(SM):
                    break
                og = Origins(f, fx)
            hit = False
            for o in og.of_operand(a0):
                if o.path and '.buffer' in o.path and ('SharedMemory' in (f.local_ty(o.root[1]) if o.root[0] == 'param' else '') or f.nq.startswith(SM)):
                    hit = True
            if not hit:
                continue
            short = (t.callee or '').split('::')[-1]
            n += 1
            who = f.nq.split('::')[-1] if not f.nq.startswith(SM) else f.nq[len(SM):]
            if short in METADATA_OPS or who in ('context_memory', 'context_memory_mut'):
                rep.ok('R6-context-confinement', '%s:%s' % (who, short), 'length only' if short in METADATA_OPS else 'the context window')
            else:
                rep.violation('R6-context-confinement', '%s:%s' % (who, short),
                              'SharedMemory::%s reaches the shared buffer\'s contents directly (`%s`): offsets would be absolute, i.e. another frame\'s memory, instead of relative to this frame\'s checkpoint' % (who, short), f.where(bi))
    rep.floor('R6-buffer-uses', n, 8)


def check_window_arithmetic(fx, rep):
    """R7: a frame's memory is the part of the shared buffer from its checkpoint to the end.  The six
    primitives all use that same window: new_context starts it at the current end of the buffer (and
    records that as last_checkpoint), free_context cuts the buffer back to the popped checkpoint and
    restores the parent's, len = buffer.len() - last_checkpoint, resize grows to last_checkpoint +
    new_size filling with 0, context_memory[_mut] slice last_checkpoint..buffer.len()."""
    from symx import Symx, Budget, render
    import c15

    def paths(name):
        f = fx.fns.get(SM + name)
        if f is None:
            return None, None
        rep.fn(f)
        try:
            return f, Symx(fx, max_paths=500, snapshot_refs=True).run(f)
        except Budget:
            return f, None

    def deep(v):
        return c15.render_deep(v)

    BUFLEN = 'len(&arg1.buffer)'
    LC = 'arg1.last_checkpoint'
    checks = []
    f, rs = paths('new_context')
    if rs:
        okc = True
        for r in rs:
            st = {''.join(k[1]): deep(v) for k, v in r.stores.items() if k[0] == ('arg', 1)}
            pushed = [deep(e[1][1]) for e in r.events if e[0].endswith('Vec::push') and len(e[1]) > 1]
            if st.get('.last_checkpoint') != BUFLEN or pushed != [BUFLEN]:
                okc = False
        checks.append(('new_context', f, okc, 'the new frame\'s window must start at the current end of the buffer: checkpoints.push(buffer.len()) and last_checkpoint = buffer.len()'))
    f, rs = paths('free_context')
    if rs:
        okc = False
        for r in rs:
            st = {''.join(k[1]): deep(v) for k, v in r.stores.items() if k[0] == ('arg', 1)}
            sl = [deep(e[1][1]) for e in r.events if e[0].split('::')[-1] in ('set_len', 'truncate') and len(e[1]) > 1]
            if sl:
                lc = st.get('.last_checkpoint', '')
                okc = sl == ["pop(&('arg', 1).checkpoints)@Some.0"] and 'last(' in lc and lc.startswith(('unwrap_or_default(', 'unwrap_or('))
        checks.append(('free_context', f, okc, 'the buffer must be cut back to the popped checkpoint and last_checkpoint restored to the parent\'s (checkpoints.last() or 0)'))
    f, rs = paths('len')
    if rs:
        okc = all(deep(r.ret) == 'Sub(%s, %s)' % (BUFLEN, LC) or deep(r.ret).startswith('len(&deref(context_memory(') for r in rs)
        checks.append(('len', f, okc, 'len() must be buffer.len() - last_checkpoint'))
    f, rs = paths('resize')
    if rs:
        okc = True
        for r in rs:
            ev = [[deep(a) for a in e[1][1:]] for e in r.events if e[0].split('::')[-1] == 'resize']
            if ev not in ([['Add(%s, arg2)' % LC, '0']], [['Add(arg2, %s)' % LC, '0']]):
                okc = False
        checks.append(('resize', f, okc, 'resize(n) must grow the buffer to last_checkpoint + n, filling with 0'))
    for nm in ('context_memory', 'context_memory_mut'):
        f, rs = paths(nm)
        if rs:
            okc = True
            for r in rs:
                ev = [deep(e[1][1]) for e in r.events if e[0].split('::')[-1] in ('get_unchecked', 'get_unchecked_mut', 'index', 'index_mut', 'get', 'get_mut') and len(e[1]) > 1]
                if len(ev) != 1 or not (ev[0].startswith('Range::Range{start: %s, end: len(' % LC) or ev[0].startswith('RangeFrom::RangeFrom{start: %s' % LC)):
                    okc = False
            checks.append((nm, f, okc, 'the frame window is buffer[last_checkpoint..]'))
    for nm, f, okc, why in checks:
        if okc:
            rep.ok('R7-window-arithmetic', nm, why)
        else:
            rep.violation('R7-window-arithmetic', nm, 'SharedMemory::%s: %s' % (nm, why), f.where())
    rep.floor('R7-primitives', len(checks), 6)


def check_access_coverage(fx, rep):
    n = 0
    names = [SM + a for a in list(ACCESSORS) + list(RANGE_ACCESSORS)]
    for f in fx.callers_of(*names):
        if not f.crate or f.crate.endswith('-test') or f.nq.startswith(SM) or not f.nq.startswith('revm_interpreter::instructions::'):
            continue
        rep.fn(f)
        cfg = cfg_of(f)
        og = Origins(f, fx)
        for bi, t in f.calls():
            tf = t.target_fn or ''
            if not tf.startswith(SM):
                continue
            acc = tf[len(SM):]
            key = '%s:%s' % (f.nq.split('::')[-1], acc)
            if acc in RANGE_ACCESSORS:
                n += 1
                oo = og.of_operand(t.args[1])
                if all(o.root[0] == 'call' and o.root[1] == HELPER for o in oo):
                    rep.ok('R2-access-covered', key, 'range produced by call_helpers::resize_memory (verified as R2-helper)')
                else:
                    rep.violation('R2-access-covered', key, 'slice_range is given %s, not a range produced by the resizing helper' % [o.render() for o in oo], f.where(bi))
                continue
            if acc not in ACCESSORS:
                continue
            n += 1
            off_idx, size = ACCESSORS[acc]
            offs = [tuple(og.of_operand(t.args[i])) for i in off_idx]
            sz = size if size[0] == 'const' else ('arg', tuple(og.of_operand(t.args[size[1]])))
            edges = covering_edges(f, og, offs, sz)
            if not edges:
                rep.violation('R2-access-covered', key, '%s accesses memory with %s but no size test / resize for the same offset and length exists in the function' % (f.nq.split('::')[-1], acc), f.where(bi))
            elif cfg.reachable(0, bi, banned_edges=edges):
                rep.violation('R2-access-covered', key, '%s can reach SharedMemory::%s on a path that neither established offset+len <= memory.len() nor resized successfully for that range' % (f.nq.split('::')[-1], acc), f.where(bi))
            else:
                rep.ok('R2-access-covered', key, '%d covering edge(s)' % len(edges))
    rep.floor('instruction-memory-access-sites', n, 17)


def check_helper(fx, rep):
    f = fx.fns.get(HELPER)
    if f is None:
        rep.undecided('R2-helper', 'call_helpers::resize_memory', 'not found')
        return
    rep.fn(f)
    cfg = cfg_of(f)
    og = Origins(f, fx)
    # the Range aggregate returned inside Some
    sites = []
    for b in f.blocks:
        for s in b.stmts:
            if s.kind == 'assign' and s.rv.rv == 'agg' and s.rv.d.get('adt', '').endswith('range::Range'):
                sites.append((b.i, s))
    if len(sites) != 1:
        rep.undecided('R2-helper', 'range', 'expected one Range construction, found %d' % len(sites), f.where())
        return
    bi, s = sites[0]
    names = s.rv.d['names']
    start = og.of_operand(s.rv.ops[names.index('start')])
    end = og.of_operand(s.rv.ops[names.index('end')])
    # start is either the converted offset (after the covering diamond) or usize::MAX on the len == 0 path
    real = [o for o in start if not (o.root[0] == 'const' and o.root[1] == (1 << 64) - 1)]
    sentinel = [o for o in start if o.root[0] == 'const' and o.root[1] == (1 << 64) - 1]
    ok = True
    # end = start + len
    lens = None
    for o in end:
        r = o.root
        if r[0] == 'bin' and r[1].startswith('Add') and set(r[2]) == set(start):
            lens = tuple(r[3])
        else:
            ok = False
    if not ok or lens is None or not real:
        rep.violation('R2-helper', 'range-shape', 'helper does not return offset..offset+len (start %s, end %s)' % ([o.render() for o in start], [o.render() for o in end]), f.where(bi))
        return
    # the block that assigns the real offset to the `offset` variable is covered for (offset, len)
    edges = covering_edges(f, og, [tuple(real)], ('arg', lens))
    # sites where the real offset flows into the variable: the definition blocks of the start local
    def_blocks = []
    op = s.rv.ops[names.index('start')]
    if op.place is not None:
        loc = op.place.b
        # follow plain copies back to the variable that is assigned on both branches
        for _ in range(6):
            ds = og.defs.get(loc, [])
            if len(ds) == 1 and ds[0][0] == 'stmt':
                rv = f.blocks[ds[0][1]].stmts[ds[0][2]].rv
                if rv.rv == 'use' and rv.ops[0].place is not None and not rv.ops[0].place.pr:
                    loc = rv.ops[0].place.b
                    continue
            break
        for kind, dbi, si in og.defs.get(loc, []):
            if kind == 'stmt':
                rv = f.blocks[dbi].stmts[si].rv
                if not (rv.rv == 'use' and rv.ops[0].kind == 'const'):
                    def_blocks.append(dbi)
    if not edges or not def_blocks:
        rep.violation('R2-helper', 'coverage', 'helper has no size test / resize for (offset, len)', f.where())
        return
    bad = [d for d in def_blocks if cfg.reachable(0, d, banned_edges=edges)]
    # the sentinel start is used only when len == 0
    sent_ok = bool(sentinel)
    if bad:
        rep.violation('R2-helper', 'coverage', 'the helper can return a non-empty range without having resized memory for it', f.where(bad[0]))
    elif not sent_ok:
        rep.violation('R2-helper', 'empty-range', 'helper lost its usize::MAX sentinel for empty ranges', f.where())
    else:
        rep.ok('R2-helper', 'call_helpers::resize_memory', 'Some(range) => range empty (sentinel) or covered by the size test / resize')


def check_only_grows(fx, rep):
    callers = [f for f in fx.callers_of(SM + 'resize') if f.crate and not f.crate.endswith('-test')]
    names = sorted({(f.parent or f.nq) for f in callers})
    if names == [RESIZE_FN]:
        rep.ok('R3-only-grows', 'resize-callers', RESIZE_FN)
    else:
        rep.violation('R3-only-grows', 'resize-callers', 'SharedMemory::resize is called from %s; only interpreter::resize_memory may grow memory (after charging for it)' % names)
    f = fx.fns.get(RESIZE_FN)
    if f is not None:
        rep.fn(f)
        rs = Symx(fx, pure={'revm_interpreter::interpreter::shared_memory::num_words', 'revm_interpreter::gas::calc::memory_gas',
                            SM + 'current_expansion_cost'}).run(f)
        ok = True
        resized = 0
        for p in rs:
            rz = [e for e in p.events if e[0] == SM + 'resize']
            rc = [e for e in p.events if e[0].endswith('Gas::record_cost')]
            if rz:
                resized += 1
                # charged: cost = memory_gas(num_words(new_size)) - current_expansion_cost, success literal true
                if not rc:
                    ok = False
                    continue
                cost = rc[0][1][1]
                good = cost[0] == 'bin' and cost[1] == 'Sub' and cost[2][0] == 'call' and cost[2][1].endswith('memory_gas') and cost[3][0] == 'call' and cost[3][1].endswith('current_expansion_cost')
                words = cost[2][2][0] if good else None
                if not good or not (words[0] == 'call' and words[1].endswith('num_words')):
                    ok = False
                # the new length is words * 32
                ln = rz[0][1][1]
                if not (ln[0] == 'bin' and ln[1] == 'Mul' and ln[3] == ('k', 32)):
                    ok = False
                from symx import path_truth
                if path_truth(p, p.ret) is not True:
                    ok = False
            else:
                from symx import path_truth
                if path_truth(p, p.ret) is not False:
                    ok = False
        if ok and resized == 1:
            rep.ok('R3-only-grows', 'interpreter::resize_memory', 'resize(words*32) iff record_cost(memory_gas(words) - current_cost) succeeded')
        else:
            rep.violation('R3-only-grows', 'interpreter::resize_memory', 'memory is resized without the successful charge of memory_gas(new_words) - current_expansion_cost (or the length is not words*32)', f.where())
    g = fx.fns.get(SM + 'resize')
    if g is not None:
        rep.fn(g)
        og = Origins(g, fx)
        ok = False
        for bi, t in g.calls():
            if (t.callee or '').endswith('Vec::resize'):
                oo = og.of_operand(t.args[2])
                ok = all(o.root[0] == 'const' and o.root[1] == 0 for o in oo)
        if ok:
            rep.ok('R3-only-grows', 'SharedMemory::resize:zero-fill', 'Vec::resize(.., 0)')
        else:
            rep.violation('R3-only-grows', 'SharedMemory::resize:zero-fill', 'new memory is not filled with zero bytes', g.where())
    # set_len only in free_context
    shr = [f for f in fx.fns_all if f.nq.startswith(SM) and f.crate and not f.crate.endswith('-test')
           and any((t.callee or '').endswith(('Vec::set_len', 'Vec::truncate')) for _, t in f.calls())]
    nm = sorted(f.name for f in shr)
    if nm == ['free_context']:
        rep.ok('R3-only-grows', 'shrinkers', 'free_context')
    else:
        rep.violation('R3-only-grows', 'shrinkers', 'buffer is shortened in %s (only free_context may)' % nm)


def check_loop_contexts(fx, rep):
    f = fx.fns.get('revm::evm::Evm::run_the_loop')
    if f is None:
        rep.undecided('R1-context-pairing', 'run_the_loop', 'not found')
        return
    rep.fn(f)
    cfg = cfg_of(f)
    news = [bi for bi, t in f.calls() if t.target_fn == SM + 'new_context']
    frees = [bi for bi, t in f.calls() if t.target_fn == SM + 'free_context']
    pushes = [bi for bi, t in f.calls() if (t.callee or '').endswith('Vec::push')]
    pops = [bi for bi, t in f.calls() if (t.callee or '').endswith('Vec::pop')]
    ok = True
    why = []
    if len(news) != 2 or len(pushes) != 2:
        ok = False
        why.append('%d new_context / %d frame pushes (expected 2/2)' % (len(news), len(pushes)))
    else:
        # each push is preceded by its own new_context: pair them up in dominance order
        for nb in news:
            mine = [p for p in pushes if cfg.dominates(nb, p) or cfg.dominates(p, nb)]
            if not mine:
                ok = False
                why.append('a new_context is not tied to a frame push')
        # no path from one push to the next push without a new_context in between
        for p in pushes:
            for q in pushes:
                r = cfg.reach_set(p, banned_blocks=set(news)) - {p}
                if q in r and not any(cfg.dominates(nb, q) and cfg.reachable(p, nb) for nb in news) and q != p:
                    pass
    if len(frees) != 1 or len(pops) != 1:
        ok = False
        why.append('%d free_context / %d frame pops (expected 1/1)' % (len(frees), len(pops)))
    else:
        if not cfg.dominates(frees[0], pops[0]):
            ok = False
            why.append('free_context does not dominate the frame pop')
        # outcome insertion happens after the free
        ins = [bi for bi, t in f.calls() if (t.target_fn or '').endswith(('insert_call_outcome', 'insert_create_outcome', 'insert_eofcreate_outcome'))]
        for i in ins:
            if cfg.reachable(0, i, banned_blocks={frees[0]}) and not any(cfg.dominates(nb, i) for nb in news[1:]):
                # reachable without free on the first iteration only through a result that never had a frame
                pass
        # the Return arm is the only path to the pop
        # every path from a frame push to the pop passes execute_frame (the frame ran)
    # between free_context and the next loop iteration no second free
    if ok:
        rep.ok('R1-context-pairing', 'run_the_loop', 'new_context x2 tied to the two frame pushes; free_context dominates the single frame pop')
    else:
        rep.violation('R1-context-pairing', 'run_the_loop', 'memory contexts are not paired with frames: %s' % '; '.join(why), f.where())
    # new_context / free_context bodies: checkpoint push / truncate to last checkpoint
    nc = fx.fns.get(SM + 'new_context')
    fc = fx.fns.get(SM + 'free_context')
    if nc is not None and fc is not None:
        ogn = Origins(nc, fx)
        good_n = False
        for bi, t in nc.calls():
            if (t.callee or '').endswith('Vec::push'):
                recv = ogn.of_operand(t.args[0])
                arg = ogn.of_operand(t.args[1])
                if all(o.path[-1:] == ('.checkpoints',) for o in recv) and all(o.root[0] == 'call' and o.root[1].endswith('::len') for o in arg):
                    good_n = True
        ogf = Origins(fc, fx)
        good_f = False
        for bi, t in fc.calls():
            if (t.callee or '').endswith('Vec::set_len'):
                arg = ogf.of_operand(t.args[1])
                if all(o.root[0] == 'call' and o.root[1].endswith('Vec::pop') for o in arg) or all('pop' in o.render() for o in arg):
                    good_f = True
        if good_n and good_f:
            rep.ok('R1-context-pairing', 'new/free_context', 'push(buffer.len()) / set_len(pop())')
        else:
            rep.violation('R1-context-pairing', 'new/free_context', 'new_context must push buffer.len() and free_context must cut the buffer back to the popped checkpoint (new ok=%s, free ok=%s)' % (good_n, good_f), nc.where())


def check_return_window(fx, rep):
    f = fx.fns.get('revm_interpreter::interpreter::Interpreter::insert_call_outcome')
    if f is None:
        rep.undecided('R4-return-window', 'insert_call_outcome', 'not found')
        return
    rep.fn(f)
    og = Origins(f, fx)
    writes = [(bi, t) for bi, t in f.calls() if (t.target_fn or '').startswith(SM) and t.target_fn[len(SM):] in
              ('set', 'set_u256', 'set_byte', 'set_word', 'set_data', 'copy', 'slice_mut', 'resize')]
    ok = bool(writes)
    for bi, t in writes:
        if not t.target_fn.endswith('::set'):
            ok = False
            continue
        off = og.of_operand(t.args[1])
        if not all(o.path[-2:] == ('.memory_offset', '.start') for o in off):
            ok = False
        data = og.of_operand(t.args[2])
        for o in data:
            if not (o.root[0] == 'call' and o.root[1].endswith('Index::index')):
                ok = False
                continue
            ti = f.blocks[o.root[2]].term
            rng = og.of_operand(ti.args[1])
            # RangeTo { end: min(out_len, buffer.len()) }
            good = False
            for r in rng:
                if r.root[0] == 'agg' and r.root[1].endswith('RangeTo'):
                    for e in r.root[4][0]:
                        if e.root[0] == 'call' and e.root[1].endswith('::min'):
                            good = True
            if not good:
                ok = False
    if ok:
        rep.ok('R4-return-window', 'insert_call_outcome', '%d write(s): set(memory_offset.start, return_data[..min(out_len, len)])' % len(writes))
    else:
        rep.violation('R4-return-window', 'insert_call_outcome', 'the parent memory is written outside the designated return-data window', f.where())


def check_eof_call_window(fx, rep):
    """R8: the EOF call family (EXTCALL, EXTDELEGATECALL, EXTSTATICCALL) has no output window: the
    CallInputs it builds carry the empty range 0..0 as return_memory_offset, so that the outcome
    insertion copies nothing into the caller's memory (return data is read with RETURNDATACOPY)."""
    from cfg import Origins
    n = 0
    for nm in ('extcall', 'extdelegatecall', 'extstaticcall'):
        f = fx.fns.get('revm_interpreter::instructions::contract::' + nm)
        if f is None:
            rep.undecided('R8-eof-call-window', nm, 'not found')
            continue
        rep.fn(f)
        og = Origins(f, fx)
        found = False
        for b in f.blocks:
            if b.cleanup:
                continue
            for s_ in b.stmts:
                if s_.kind != 'assign' or s_.rv is None or s_.rv.rv != 'agg' or not str(s_.rv.d.get('adt', '')).endswith('CallInputs'):
                    continue
                names = s_.rv.d.get('names') or s_.rv.d.get('fields') or []
                if 'return_memory_offset' not in names:
                    continue
                found = True
                n += 1
                oo = og.of_operand(s_.rv.ops[names.index('return_memory_offset')])
                empty = bool(oo)
                for o in oo:
                    if not (o.root[0] == 'agg' and str(o.root[1]).endswith('::Range') and len(o.root[4]) == 2 and
                            all(len(x) == 1 and x[0].root[0] == 'const' and x[0].root[1] == 0 for x in o.root[4])):
                        empty = False
                if empty:
                    rep.ok('R8-eof-call-window', nm, 'return_memory_offset = 0..0')
                else:
                    rep.violation('R8-eof-call-window', nm, '%s hands the callee outcome a return window %s; EOF calls have none (0..0), otherwise return data overwrites the caller\'s memory' % (nm, [o.render() for o in oo]), f.where(b.i))
        if not found:
            rep.undecided('R8-eof-call-window', nm, 'CallInputs construction not found', f.where())
    rep.floor('R8-eof-call-sites', n, 3)
