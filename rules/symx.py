"""A3: path enumeration with symbolic (partial) evaluation over MIR — decision-table extraction.

Nothing is executed: every CFG path of a function is walked once, statements are evaluated over
symbolic values with constant folding, branch conditions that do not fold are recorded as path
literals, crate-local callees can be inlined (bounded depth), and each complete path yields
(literals, events, returned symbolic value, stores through reference parameters).
Rules then compare the resulting decision table with a reference over a finite abstract domain.

Symbolic values (hashable tuples):
  ('k', v)                      integer / bool constant (bool as 0/1 with ty 'bool' folded to int)
  ('sym', name)                 opaque input (parameter, field of a parameter, …)
  ('proj', base, path)          field path of an opaque value
  ('ref', root, path)           reference to a storage location
  ('agg', head, variant, names, fields)   struct / enum / tuple / closure value
  ('bin', op, a, b) ('un', op, a) ('cast', ty, a)
  ('discr', a)                  discriminant of an opaque value
  ('call', name, args, uid)     result of a call that was not inlined (uid None for pure callees)
  ('fn', name)                  function item
"""
from facts import strip_generics
from cfg import TRANSPARENT_CALLS, UNWRAP_CALLS, TRY_BRANCH, Origins

MASK = {'u8': 0xff, 'u16': 0xffff, 'u32': 0xffffffff, 'u64': (1 << 64) - 1, 'usize': (1 << 64) - 1,
        'u128': (1 << 128) - 1}


def K(v):
    return ('k', int(v))


def is_k(sv):
    return sv[0] == 'k'


class PathResult:
    __slots__ = ('lits', 'events', 'ret', 'stores', 'blocks', 'cut', 'locals', 'loop_init')

    def __init__(self, lits, events, ret, stores, blocks, cut, locals_=None, loop_init=None):
        self.locals = locals_ or {}     # named locals of the analysed function at the end of the path
        self.loop_init = loop_init or {}  # loop variable -> value on loop entry (loop_symbolic mode)
        self.lits = lits          # list of (sv, taken, fn, bi) ; taken = ('eq', v) | ('ne', (v1, v2, ..))
        self.events = events      # list of (name, args, fn, bi)
        self.ret = ret
        self.stores = stores      # dict (root, path) -> sv   for non-local roots
        self.blocks = blocks
        self.cut = cut


class State:
    __slots__ = ('env', 'ov', 'lits', 'events', 'known', 'cut', 'loop_init')

    def __init__(self):
        self.loop_init = {}
        self.env = {}
        self.ov = {}
        self.lits = []
        self.events = []
        self.known = {}
        self.cut = False

    def clone(self):
        s = State()
        s.env = dict(self.env)
        s.ov = dict(self.ov)
        s.lits = list(self.lits)
        s.events = list(self.events)
        s.known = dict(self.known)
        s.cut = self.cut
        s.loop_init = dict(self.loop_init)
        return s


class Budget(Exception):
    pass


FOLLOW_PRIVATE_DEFAULT = True
# private functions of the pinned tree (tools/list_private.py prints them): rules name these
# explicitly where they want to look inside; everything private that is NOT listed here is new and
# is followed automatically when it is small
KNOWN_PRIVATE = set()


def load_known_private():
    import os
    p = os.path.join(os.path.dirname(os.path.abspath(__file__)), 'reference', 'known_private.txt')
    if os.path.exists(p):
        with open(p) as fh:
            for line in fh:
                line = line.strip()
                if line and not line.startswith('#'):
                    KNOWN_PRIVATE.add(line)


load_known_private()


class Symx:
    def __init__(self, facts, inline=(), pure=(), models=None, spec=None, max_paths=20000, max_depth=5,
                 inline_all_local=False, no_inline=(), loop_symbolic=False, snapshot_refs=False,
                 follow_private=None, unroll=1):
        self.loop_symbolic = loop_symbolic
        self.unroll = unroll        # how many times a block of the entry function may be entered on one path
        self._loops = {}
        self.fx = facts
        self.inline = set(inline)
        self.pure = set(pure)
        self.models = models or {}
        self.spec = spec            # integer discriminant bound to <SPEC as Spec>::SPEC_ID
        self.max_paths = max_paths
        self.max_depth = max_depth
        self.inline_all_local = inline_all_local
        self.no_inline = set(no_inline)
        # record `&local` arguments of opaque calls by the local's current value (expression checks)
        self.snapshot_refs = snapshot_refs
        # small private functions are followed: a step moved into a private helper by a refactor is
        # still that step.  KNOWN_PRIVATE lists the private functions that exist on the pinned tree and
        # that rules treat as units of their own (they stay opaque unless a rule inlines them).
        self.follow_private = FOLLOW_PRIVATE_DEFAULT if follow_private is None else follow_private
        self.uid = 0
        self.npaths = 0
        self._frame = 0
        self._cparams = {}          # frame -> {const generic name: symbolic value}

    # ------------------------------------------------------------------ public
    def run(self, fn, args=None, store=None, cparams=None):
        """enumerate paths of fn; args: list of symbolic values for parameters 1..argc;
        store: initial contents of storage locations {(root, path): value} (for by-reference args);
        cparams: values of the function's const generic parameters {name: symbolic value}"""
        self.npaths = 0
        st = State()
        if store:
            st.ov.update(store)
        frame = self._new_frame()
        if cparams:
            self._cparams[frame] = dict(cparams)
        self._bind_args(fn, frame, st, args)
        out = []
        for st2, ret in self._explore(fn, frame, st, 0, 0, ()):
            if ret[0] == 'ref' and ret[1][0] == 'local':
                # a reference to a local of the finished body (promoted constants): keep the value
                ret = ('valref', self._read(st2, ret[1], ret[2]))
            stores = {k: v for k, v in st2.ov.items() if k[0][0] != 'local'}
            named = {}
            for i, l in enumerate(fn.locals):
                if l.get('n') and (frame, i) in st2.env:
                    named[l['n']] = self._read(st2, ('local', frame, i), ())
            out.append(PathResult(st2.lits, st2.events, ret, stores, None, st2.cut, named, st2.loop_init))
        return out

    # ------------------------------------------------------------------ internals
    def _new_frame(self):
        self._frame += 1
        return self._frame

    def _bind_args(self, fn, frame, st, args):
        for i in range(1, fn.argc + 1):
            if args is not None and i - 1 < len(args) and args[i - 1] is not None:
                st.env[(frame, i)] = args[i - 1]
            else:
                ty = fn.local_ty(i)
                if ty.startswith('&'):
                    st.env[(frame, i)] = ('ref', ('arg', i), ())
                else:
                    st.env[(frame, i)] = ('sym', 'arg%d' % i)

    def fresh(self, hint):
        self.uid += 1
        return ('sym', '%s#%d' % (hint, self.uid))

    # --- storage model -----------------------------------------------------------------
    def _resolve(self, fn, frame, st, place):
        root = ('local', frame, place.b)
        path = ()
        for p in place.pr:
            if p == '*':
                v = self._read(st, root, path, fn, frame)
                if v[0] == 'ref':
                    root, path = v[1], v[2]
                else:
                    root, path = ('deref', v), ()
            elif p.startswith('[_') and p.endswith(']') and p[2:-1].isdigit():
                # index by a local: use its value when it is a known constant
                iv = st.env.get((frame, int(p[2:-1])))
                if iv is None:
                    iv = st.ov.get((('local', frame, int(p[2:-1])), ()))
                if iv is not None and iv[0] == 'k':
                    path = path + ('[%d]' % iv[1],)
                else:
                    path = path + (p,)
            else:
                path = path + (p,)
        return root, path

    def _read(self, st, root, path, fn=None, frame=None):
        base = self._read_base(st, root, path, fn, frame)
        # field-wise updates made after the whole value was produced (`let mut s = f(); s.x += 1; s`)
        ups = [(k[1][len(path):], v) for k, v in st.ov.items()
               if k[0] == root and len(k[1]) > len(path) and k[1][:len(path)] == path]
        if ups and base[0] != 'ref':
            return ('with', base, tuple(sorted(ups, key=str)))
        return base

    def _read_base(self, st, root, path, fn=None, frame=None):
        for k in range(len(path), -1, -1):
            key = (root, path[:k])
            if key in st.ov:
                return self._select(st.ov[key], path[k:])
        if root[0] == 'local':
            v = st.env.get((root[1], root[2]))
            if v is None:
                v = ('sym', 'uninit_%d' % root[2])
            return self._select(v, path)
        if root[0] == 'arg':
            return self._select(('sym', 'arg%d' % root[1]), path)
        if root[0] == 'deref':
            if root[1][0] == 'valref':
                return self._select(root[1][1], path)     # *&value
            return self._select(('sym', 'deref', root[1]), path)
        return self._select(('sym', str(root)), path)

    def _select(self, sv, path):
        for i, p in enumerate(path):
            if sv[0] == 'with':
                rest = tuple(path[i:])
                for sub, v in sv[2]:
                    if rest[:len(sub)] == sub:
                        return self._select(v, rest[len(sub):])
                # no override for this field: read it from the base value
                inner = [(sub[len(rest):], v) for sub, v in sv[2] if sub[:len(rest)] == rest]
                basev = self._select(sv[1], rest)
                if inner:
                    return ('with', basev, tuple(inner))
                return basev
            if sv[0] == 'agg':
                head, variant, names, fields = sv[1], sv[2], sv[3], sv[4]
                if p.startswith('@'):
                    continue
                nm = p[1:]
                if nm in names:
                    sv = fields[names.index(nm)]
                    continue
                if nm.isdigit() and int(nm) < len(fields):
                    sv = fields[int(nm)]
                    continue
                return ('proj', sv, tuple(path[i:]))
            if sv[0] == 'proj':
                return ('proj', sv[1], sv[2] + tuple(path[i:]))
            return ('proj', sv, tuple(path[i:]))
        return sv

    def _write(self, st, root, path, sv):
        if root[0] == 'local' and not path:
            st.env[(root[1], root[2])] = sv
            for k in [k for k in st.ov if k[0] == root]:
                del st.ov[k]
            return
        for k in [k for k in st.ov if k[0] == root and k[1][:len(path)] == path and len(k[1]) > len(path)]:
            del st.ov[k]
        st.ov[(root, path)] = sv

    def _havoc(self, st, sv, why):
        if sv[0] == 'ref':
            root, path = sv[1], sv[2]
            self._write(st, root, path, self.fresh('havoc_' + why))

    # --- evaluation ------------------------------------------------------------------------
    def _const(self, fn, frame, st, k):
        if 'fn' in k:
            return ('fn', strip_generics(k['fn']), tuple(k.get('fargs', ())))
        if 'i' in k:
            return K(k['i'])
        un = k.get('uneval')
        if un:
            unq = strip_generics(un)
            if unq.endswith('Spec::SPEC_ID') and self.spec is not None:
                return K(self.spec)
            if 'promoted' in k:
                pf = fn.promoted(k['promoted'])
                if pf is not None:
                    r = self._eval_const_body(pf)
                    if r is not None:
                        return r
            # inline const / associated const with a MIR body
            body = self.fx.fns.get(unq)
            if body is not None and body.kind == 'InlineConst':
                r = self._eval_const_body(body)
                if r is not None:
                    return r
            cv = self.fx.consts.get(unq)
            if cv is not None and 'val' in cv:
                return self._from_constval(cv['val'])
            return ('sym', 'const:' + unq)
        s = k.get('s')
        if s == '()':
            return ('agg', 'tuple', None, (), ())
        cp = self._cparams.get(frame, {})
        if s in cp:
            return cp[s]
        return ('sym', 'const:' + str(s))

    def _from_constval(self, v):
        if isinstance(v, bool):
            return K(1 if v else 0)
        if isinstance(v, int):
            return K(v)
        if isinstance(v, dict):
            if 'variant' in v and 'fields' not in v:
                return ('agg', v.get('adt', '?'), v['variant'], (), ())
            if 'fields' in v:
                names = tuple(v.get('names', ()))
                return ('agg', strip_generics(v.get('adt', 'tuple')), v.get('variant'), names,
                        tuple(self._from_constval(x) for x in v['fields']))
            if 'fn' in v:
                return ('fn', strip_generics(v['fn']), ())
        return ('sym', 'constval')

    def _eval_const_body(self, body):
        sub = Symx(self.fx, inline=self.inline, pure=self.pure, models=self.models, spec=self.spec,
                   max_paths=200, max_depth=self.max_depth, inline_all_local=True)
        try:
            rs = sub.run(body, [])
        except Budget:
            return None
        vals = {r.ret for r in rs}
        if len(vals) == 1:
            v = list(vals)[0]
            return v
        return None

    def _operand(self, fn, frame, st, op):
        if op.kind == 'const':
            return self._const(fn, frame, st, op.k)
        if op.place is None:
            return ('sym', 'other')
        root, path = self._resolve(fn, frame, st, op.place)
        return self._read(st, root, path, fn, frame)

    def _ty_of_operand(self, fn, op):
        if op.kind == 'const':
            return op.k.get('ty')
        if op.place is not None and not op.place.pr:
            return fn.local_ty(op.place.b)
        return None

    def _bin(self, op, a, b, ty=None):
        if is_k(a) and is_k(b):
            x, y = a[1], b[1]
            m = MASK.get(ty)
            try:
                if op in ('Add', 'AddUnchecked'):
                    r = x + y
                elif op in ('Sub', 'SubUnchecked'):
                    r = x - y
                elif op in ('Mul', 'MulUnchecked'):
                    r = x * y
                elif op == 'Div':
                    r = x // y if y else None
                elif op == 'Rem':
                    r = x % y if y else None
                elif op == 'Eq':
                    return K(x == y)
                elif op == 'Ne':
                    return K(x != y)
                elif op == 'Lt':
                    return K(x < y)
                elif op == 'Le':
                    return K(x <= y)
                elif op == 'Gt':
                    return K(x > y)
                elif op == 'Ge':
                    return K(x >= y)
                elif op == 'BitAnd':
                    r = x & y
                elif op == 'BitOr':
                    r = x | y
                elif op == 'BitXor':
                    r = x ^ y
                elif op in ('Shl', 'ShlUnchecked'):
                    r = x << y
                elif op in ('Shr', 'ShrUnchecked'):
                    r = x >> y
                elif op.endswith('WithOverflow'):
                    base = op[:-len('WithOverflow')]
                    r = self._bin(base, a, b, None)
                    ovf = 0
                    if m is not None and is_k(r) and (r[1] < 0 or r[1] > m):
                        ovf = 1
                        r = K(r[1] & m)
                    return ('agg', 'tuple', None, (), (r, K(ovf)))
                else:
                    r = None
                if r is not None:
                    if m is not None:
                        r &= m
                    return K(r)
            except Exception:
                pass
        if op.endswith('WithOverflow'):
            base = op[:-len('WithOverflow')]
            return ('agg', 'tuple', None, (), (self._bin(base, a, b, ty), ('ovf', base, a, b)))
        # boolean simplifications
        if op in ('Eq', 'Ne') and a == b:
            return K(op == 'Eq')
        if op in ('BitAnd',) and (a == K(0) or b == K(0)):
            return K(0)
        return ('bin', op, a, b)

    def _rvalue(self, fn, frame, st, rv):
        k = rv.rv
        if k == 'use':
            return self._operand(fn, frame, st, rv.ops[0])
        if k in ('ref', 'rawptr'):
            root, path = self._resolve(fn, frame, st, rv.place)
            return ('ref', root, path)
        if k == 'cast':
            a = self._operand(fn, frame, st, rv.ops[0])
            kind = rv.d['kind']
            ty = rv.d['ty']
            if is_k(a):
                m = MASK.get(ty)
                return K(a[1] & m) if m is not None and a[1] >= 0 else a
            if a[0] == 'agg' and a[1] != 'tuple' and not a[4] and ('IntToInt' in kind or 'Misc' in kind):
                # fieldless enum to integer
                d = self.fx.discr_of(a[1], a[2])
                if d is not None:
                    return K(d)
            if kind.startswith(('PtrToPtr', 'PointerCoercion')) or 'Transmute' in kind:
                return a
            return ('cast', ty, a)
        if k == 'bin':
            a = self._operand(fn, frame, st, rv.ops[0])
            b = self._operand(fn, frame, st, rv.ops[1])
            return self._bin(rv.op, a, b, self._ty_of_operand(fn, rv.ops[0]))
        if k == 'un':
            a = self._operand(fn, frame, st, rv.ops[0])
            if is_k(a):
                if rv.op == 'Not':
                    ty = self._ty_of_operand(fn, rv.ops[0])
                    if ty == 'bool':
                        return K(0 if a[1] else 1)
                    m = MASK.get(ty)
                    if m is not None:
                        return K((~a[1]) & m)
                if rv.op == 'Neg':
                    return K(-a[1])
            if rv.op == 'Not' and a[0] == 'un' and a[1] == 'Not':
                return a[2]
            return ('un', rv.op, a)
        if k == 'discr':
            root, path = self._resolve(fn, frame, st, rv.place)
            v = self._read(st, root, path, fn, frame)
            if v[0] == 'agg' and v[2] is not None:
                d = self.fx.discr_of(rv.d['adt'], v[2])
                if d is not None:
                    return K(d)
            if is_k(v):
                return v
            return ('discr', v, strip_generics(rv.d.get('adt', '?')))
        if k == 'agg':
            d = rv.d
            ops = tuple(self._operand(fn, frame, st, o) for o in rv.ops)
            kind = d['agg']
            if kind == 'adt':
                return ('agg', strip_generics(d['adt']), d['variant'], tuple(d.get('names', ())), ops)
            if kind == 'tuple':
                return ('agg', 'tuple', None, (), ops)
            if kind == 'closure':
                return ('agg', 'closure:' + strip_generics(d['closure']), None, tuple(d.get('names', ())), ops)
            return ('agg', kind, None, (), ops)
        if k == 'repeat':
            return ('repeat', self._operand(fn, frame, st, rv.ops[0]), rv.d.get('n'))
        return self.fresh('rv_' + k)

    # --- exploration -----------------------------------------------------------------------
    def _explore(self, fn, frame, st, bi, depth, visited):
        """generator of (state, return value) for every path from block bi to a return"""
        work = [(st, bi, visited)]
        while work:
            st, bi, visited = work.pop()
            while True:
                if visited.count(bi) >= (self.unroll if depth == 0 else 1):
                    # back edge: the path is reported up to here (loop bodies are walked once, or
                    # `unroll` times in the entry function when asked)
                    st.cut = True
                    self.npaths += 1
                    if self.npaths > self.max_paths:
                        raise Budget('too many paths in %s' % fn.nq)
                    yield st, ('sym', '<loop-cut>')
                    break
                visited = visited + (bi,)
                b = fn.blocks[bi]
                if self.loop_symbolic and depth == 0:
                    hv = self._loop_info(fn).get(bi)
                    if hv:
                        # loop header: the loop-carried locals become symbols, so that the body is
                        # read as a function of the loop variables (not of their initial values)
                        st.env = dict(st.env)
                        for l in hv:
                            nm = fn.local_name(l) or ('_%d' % l)
                            init = st.env.get((frame, l))
                            st.loop_init.setdefault(nm, init)
                            st.env[(frame, l)] = ('sym', 'loop:' + nm)
                            for k in [k for k in st.ov if k[0] == ('local', frame, l)]:
                                del st.ov[k]
                for s in b.stmts:
                    if s.kind == 'assign':
                        v = self._rvalue(fn, frame, st, s.rv)
                        root, path = self._resolve(fn, frame, st, s.place)
                        self._write(st, root, path, v)
                    elif s.kind == 'setdiscr':
                        root, path = self._resolve(fn, frame, st, s.place)
                        self._write(st, root, path, ('agg', '?', s.d['variant'], (), ()))
                t = b.term
                k = t.kind
                if k == 'goto':
                    bi = t.d['target']
                    continue
                if k == 'return':
                    self.npaths += 1
                    if self.npaths > self.max_paths:
                        raise Budget('too many paths in %s' % fn.nq)
                    yield st, self._read(st, ('local', frame, 0), ())
                    break
                if k in ('unreachable', 'resume', 'terminate'):
                    break
                if k in ('drop', 'assert'):
                    bi = t.d['target']
                    continue
                if k == 'switch':
                    dv = self._operand(fn, frame, st, t.switch_discr())
                    arms = t.d['arms']
                    other = t.d['otherwise']
                    if is_k(dv):
                        tg = other
                        for v, a in arms:
                            if v == dv[1]:
                                tg = a
                        bi = tg
                        continue
                    if dv in st.known:
                        kn = st.known[dv]
                        if kn[0] == 'eq':
                            tg = other
                            for v, a in arms:
                                if v == kn[1]:
                                    tg = a
                            bi = tg
                            continue
                    # branch
                    by_target = {}
                    for v, a in arms:
                        by_target.setdefault(a, []).append(v)
                    listed = tuple(v for v, _ in arms)
                    succs = []
                    for a, vals in by_target.items():
                        for v in vals:
                            succs.append((a, ('eq', v)))
                    if not self._unreachable_block(fn, other):
                        succs.append((other, ('ne', listed)))
                    excluded = st.known.get(dv)
                    first = True
                    for a, lit in reversed(succs):
                        if excluded and excluded[0] == 'ne' and lit[0] == 'eq' and lit[1] in excluded[1]:
                            continue
                        st2 = st.clone()
                        st2.lits.append((dv, lit, fn.nq, bi))
                        # a two-way boolean branch: `ne (0,)` means value 1
                        if lit[0] == 'ne' and t.d.get('dty') == 'bool' and len(lit[1]) == 1:
                            st2.known[dv] = ('eq', 1 - lit[1][0])
                        else:
                            st2.known[dv] = lit
                        work.append((st2, a, visited))
                    break
                if k == 'call':
                    conts = self._call(fn, frame, st, b, t, depth)
                    if conts is None:
                        break
                    tgt = t.d.get('target')
                    if tgt is None:
                        break
                    if len(conts) == 1:
                        st = conts[0]
                        bi = tgt
                        continue
                    for st2 in conts:
                        work.append((st2, tgt, visited))
                    break
                # other terminators: follow successors
                succ = t.succs()
                if not succ:
                    break
                bi = succ[0]
        return

    def _loop_info(self, fn):
        """header block -> locals assigned inside its natural loop"""
        key = fn.nq
        if key in self._loops:
            return self._loops[key]
        from cfg import cfg_of
        cfg = cfg_of(fn)
        info = {}
        for u in range(cfg.n):
            for h in cfg.succ[u]:
                if cfg.dominates(h, u):
                    # natural loop of back edge u -> h
                    body = {h, u}
                    work = [u]
                    while work:
                        x = work.pop()
                        if x == h:
                            continue
                        for p in cfg.pred[x]:
                            if p not in body:
                                body.add(p)
                                work.append(p)
                    locs = info.setdefault(h, set())
                    for bidx in body:
                        blk = fn.blocks[bidx]
                        for s in blk.stmts:
                            if s.kind == 'assign' and not s.place.pr and fn.local_name(s.place.b):
                                locs.add(s.place.b)
                        t = blk.term
                        if t.kind == 'call' and t.dest is not None and not t.dest.pr and fn.local_name(t.dest.b):
                            locs.add(t.dest.b)
        self._loops[key] = info
        return info

    def _unreachable_block(self, fn, bi):
        b = fn.blocks[bi]
        return b.term.kind == 'unreachable' and not b.stmts

    def _call(self, fn, frame, st, b, t, depth):
        """returns list of continuation states (dest written)"""
        args = [self._operand(fn, frame, st, a) for a in t.args]
        names = t.names()
        name = t.target_fn or (names[0] if names else '?')
        dest_root, dest_path = self._resolve(fn, frame, st, t.dest)

        def done(v, st=st):
            self._write(st, dest_root, dest_path, v)
            return [st]

        # models supplied by the rule
        margs = self._shown(fn, st, t, args) if self.snapshot_refs else args
        for nm in [name] + names:
            if nm in self.models:
                self.cur_state = st            # models may read places: self.read_ref(ref)
                r = self.models[nm](self, margs, t)
                if r is not None:
                    if r[0] == '__effects__':
                        # ('__effects__', [(ref value, new value), ...], returned value)
                        for rf, val in r[1]:
                            if rf[0] == 'ref':
                                self._write(st, rf[1], tuple(rf[2]), val)
                        r = r[2]
                    return done(r)
        # Option::is_some / is_none of a known variant
        if names and names[0] in ('core::option::Option::is_some', 'core::option::Option::is_none') and len(args) == 1:
            a0 = args[0]
            for _ in range(3):
                if a0[0] == 'valref':
                    a0 = a0[1]
                elif a0[0] == 'ref':
                    a0 = self._read(st, a0[1], a0[2])
            if a0[0] == 'agg' and a0[2] in ('Some', 'None'):
                return done(K(int((a0[2] == 'Some') == names[0].endswith('is_some'))))
        # derive(PartialEq) / primitive equality of two constants
        if names and names[0] in ('core::cmp::PartialEq::eq', 'core::cmp::PartialEq::ne') and len(args) == 2:
            impl = self.fx.fns.get(names[-1]) if len(names) > 1 else None
            derived = (impl is not None and impl.d.get('exp')) or (len(names) == 1 and (t.cargs() or ['?'])[0] in MASK)
            if derived:
                cv = [self._const_view(st, a) for a in args]
                if cv[0] is not None and cv[1] is not None:
                    same = self._const_eq(cv[0], cv[1])
                    if same is not None:
                        return done(K(int(same if names[0].endswith('::eq') else not same)))
        # Default::default() of primitive integers / bool
        if 'core::default::Default::default' in names and not args:
            ty = (t.cargs() or ['?'])[0]
            if ty in MASK or ty in ('bool', 'i8', 'i16', 'i32', 'i64', 'i128', 'isize'):
                return done(K(0))
        # the `?` operator: Try::branch splits on the variant, from_residual rebuilds the failure
        CF = 'core::ops::control_flow::ControlFlow'
        if TRY_BRANCH in names and args:
            a0 = args[0]
            ty = (t.cargs() or ['?'])[0]
            is_opt = ty.startswith('core::option::Option')
            good_name = 'Some' if is_opt else 'Ok'
            if a0[0] == 'agg' and a0[2] in ('Some', 'Ok'):
                return done(('agg', CF, 'Continue', ('0',), (a0[4][0] if a0[4] else ('sym', 'unit'),)))
            if a0[0] == 'agg' and a0[2] in ('None', 'Err'):
                return done(('agg', CF, 'Break', ('0',), (a0,)))
            adt = 'core::option::Option' if is_opt else 'core::result::Result'
            good = 1 if is_opt else 0
            dsv = ('discr', a0, adt)
            kn = st.known.get(dsv)
            outs = []
            if not (kn and ((kn[0] == 'eq' and kn[1] != good) or (kn[0] == 'ne' and good in kn[1]))):
                s1 = st.clone() if not kn else st
                if not kn:
                    s1.lits.append((dsv, ('eq', good), fn.nq, b.i))
                    s1.known[dsv] = ('eq', good)
                self._write(s1, dest_root, dest_path, ('agg', CF, 'Continue', ('0',), (self._select(a0, ('@' + good_name, '.0')),)))
                outs.append(s1)
            if not (kn and kn[0] == 'eq' and kn[1] == good):
                s2 = st.clone() if not kn else st
                if not kn:
                    s2.lits.append((dsv, ('ne', (good,)), fn.nq, b.i))
                    s2.known[dsv] = ('ne', (good,))
                self._write(s2, dest_root, dest_path, ('agg', CF, 'Break', ('0',), (a0,)))
                outs.append(s2)
            return outs
        if 'core::ops::try_trait::FromResidual::from_residual' in names and args:
            ty = (t.cargs() or ['?'])[0]
            if ty.startswith('core::option::Option'):
                return done(('agg', 'core::option::Option', 'None', (), ()))
            return done(('agg', 'core::result::Result', 'Err', ('0',), (self._select(args[0], ('@Err', '.0')),)))
        # transparent / unwrap
        for nm in names:
            if nm in TRANSPARENT_CALLS and args:
                a0 = args[0]
                og = Origins(fn, self.fx)
                summ = og._getter_summary(t)
                if summ is not None and a0[0] == 'ref':
                    return done(('ref', a0[1], a0[2] + tuple(summ)))
                if nm.endswith(('Clone::clone',)) and a0[0] == 'ref':
                    return done(self._read(st, a0[1], a0[2]))
                return done(a0)
            if nm in UNWRAP_CALLS and args:
                a0 = args[0]
                if a0[0] == 'agg' and a0[4]:
                    return done(a0[4][0])
                return done(('proj', a0, (UNWRAP_CALLS[nm], '.0')))
        # closure call through Fn*/FnOnce
        callee = None
        call_args = args
        if t.res and '{closure#' in t.res:
            callee = self.fx.fns.get(t.res)
            # args = (closure env, (tuple of args))
            if callee is not None and len(args) == 2 and args[1][0] == 'agg':
                call_args = [args[0]] + list(args[1][4])
        elif name in self.fx.fns:
            callee = self.fx.fns[name]
        do_inline = False
        if callee is not None and depth < self.max_depth and name not in self.no_inline:
            if name in self.inline or (t.res and '{closure#' in t.res) or self.inline_all_local:
                do_inline = True
            elif self.follow_private and name not in self.pure and name not in self.models \
                    and str(callee.d.get('vis', '')).startswith('Restricted') and len(callee.blocks) <= 40 \
                    and name not in KNOWN_PRIVATE and callee.kind in ('Fn', 'AssocFn') and name != fn.nq:
                do_inline = True
        if do_inline:
            # bind trait-level SPEC parameter through: nothing to do, spec is global
            f2 = self._new_frame()
            # const generic parameters of the callee, from the call's generic arguments
            cp = {}
            for gname, garg in zip(callee.generics, t.cargs()):
                if isinstance(garg, str) and garg.startswith('const '):
                    raw = garg[6:].strip()
                    if raw in ('true', 'false'):
                        cp[gname] = K(raw == 'true')
                    else:
                        digits = raw.split('_')[0]
                        if digits.lstrip('-').isdigit():
                            cp[gname] = K(int(digits))
                        else:
                            up = self._cparams.get(frame, {}).get(raw)
                            if up is not None:
                                cp[gname] = up
            self._cparams[f2] = cp
            st.env = dict(st.env)
            for i in range(1, callee.argc + 1):
                if i - 1 < len(call_args):
                    st.env[(f2, i)] = call_args[i - 1]
                else:
                    st.env[(f2, i)] = ('sym', 'arg?')
            outs = []
            for st2, ret in self._explore(callee, f2, st, 0, depth + 1, ()):
                self._write(st2, dest_root, dest_path, ret)
                outs.append(st2)
            return outs
        # not inlined: record an event; pure callees give a deterministic application.
        # References to plain locals holding a known aggregate/constant are recorded by value
        # (`&InstructionResult::SelfDestruct`), so that comparisons against constants stay readable.
        shown = self._shown(fn, st, t, args)
        st.events.append((name, tuple(shown), fn.nq, b.i))
        if name in self.pure or any(n in self.pure for n in names):
            return done(('call', name, tuple(shown), None))
        for a in args:
            if a[0] == 'ref' and (a[1][0] != 'local' or True):
                # conservatively assume a callee may write through any reference it receives,
                # unless the parameter type is a shared reference
                pass
        self._havoc_mut_args(fn, st, t, args)
        self.uid += 1
        return done(('call', name, tuple(shown), self.uid))

    def read_ref(self, rf):
        """for models: the current value behind a reference value"""
        if rf[0] == 'valref':
            return rf[1]
        if rf[0] == 'ref':
            return self._read(self.cur_state, rf[1], tuple(rf[2]))
        return rf

    def _const_view(self, st, a):
        """the constant a (reference to a) value denotes, or None"""
        for _ in range(4):
            if a[0] == 'valref':
                a = a[1]
            elif a[0] == 'ref':
                a = self._read(st, a[1], a[2])
            else:
                break
        if a[0] == 'k':
            return a
        if a[0] == 'agg' and all(self._const_view(st, x) is not None for x in a[4]):
            return a
        return None

    def _const_eq(self, x, y):
        if x[0] == 'k' and y[0] == 'k':
            return x[1] == y[1]
        if x[0] == 'agg' and y[0] == 'agg':
            if x[1] != y[1]:
                return None
            if x[2] != y[2]:
                return False
            if len(x[4]) != len(y[4]):
                return None
            for p, q in zip(x[4], y[4]):
                r = self._const_eq(p if p[0] != 'valref' else p[1], q if q[0] != 'valref' else q[1])
                if r is None:
                    return None
                if not r:
                    return False
            return True
        # a fieldless enum value seen once as its discriminant and once as a variant
        if x[0] == 'k' and y[0] == 'agg':
            x, y = y, x
        if x[0] == 'agg' and y[0] == 'k' and not x[4] and x[2]:
            d = self.fx.discr_of(x[1], x[2])
            if d is not None:
                return int(d) == int(y[1])
        return None

    def _shown(self, fn, st, t, args):
        shown = []
        for op, a in zip(t.args, args):
            shared = False
            if self.snapshot_refs and a[0] == 'ref' and op.place is not None and not op.place.pr:
                shared = not (fn.local_ty(op.place.b) or '&mut').startswith('&mut')
            if a[0] == 'ref' and a[1][0] == 'local':
                v = self._read(st, a[1], a[2])
                if v[0] in ('k', 'agg') and (v[0] == 'k' or not v[4] or all(x[0] == 'k' for x in v[4])):
                    shown.append(('valref', v))
                    continue
                if shared and v[0] != 'ref' and not (v[0] == 'sym' and str(v[1]).startswith('uninit')):
                    shown.append(('valref', v))
                    continue
            elif shared and a[1][0] in ('deref', 'arg'):
                shown.append(('valref', self._read(st, a[1], a[2])))
                continue
            shown.append(a)
        return shown

    def _havoc_mut_args(self, fn, st, t, args):
        for op, a in zip(t.args, args):
            if a[0] != 'ref':
                continue
            ty = None
            if op.place is not None and not op.place.pr:
                ty = fn.local_ty(op.place.b)
            if ty is not None and ty.startswith('&mut'):
                self._havoc(st, a, 'call')


# ------------------------------------------------------------------------------- helpers

def lit_truth(lit):
    """for a boolean branch literal: True/False taken"""
    kind, v = lit
    if kind == 'eq':
        return bool(v)
    if kind == 'ne' and len(v) == 1:
        return not bool(v[0])
    return None


def render(sv, depth=0):
    k = sv[0]
    if depth > 6:
        return '…'
    if k == 'k':
        return str(sv[1])
    if k == 'sym':
        return str(sv[1]) if len(sv) == 2 else 'deref(%s)' % render(sv[2], depth + 1)
    if k == 'proj':
        return render(sv[1], depth + 1) + ''.join(sv[2])
    if k == 'ref':
        return '&%s%s' % (sv[1], ''.join(sv[2]))
    if k == 'agg':
        head = sv[1].split('::')[-1]
        if sv[2]:
            head += '::' + sv[2]
        if sv[3] and len(sv[3]) == len(sv[4]):
            return '%s{%s}' % (head, ', '.join('%s: %s' % (n, render(f, depth + 1)) for n, f in zip(sv[3], sv[4])))
        return '%s(%s)' % (head, ', '.join(render(f, depth + 1) for f in sv[4]))
    if k == 'bin':
        return '%s(%s, %s)' % (sv[1], render(sv[2], depth + 1), render(sv[3], depth + 1))
    if k == 'un':
        return '%s(%s)' % (sv[1], render(sv[2], depth + 1))
    if k == 'cast':
        return '(%s as %s)' % (render(sv[2], depth + 1), sv[1])
    if k == 'discr':
        return 'discr(%s)' % render(sv[1], depth + 1)
    if k == 'call':
        return '%s(%s)' % (sv[1].split('::')[-1], ', '.join(render(a, depth + 1) for a in sv[2]))
    if k == 'fn':
        return 'fn:' + sv[1].split('::')[-1]
    if k == 'valref':
        return '&' + render(sv[1], depth + 1)
    if k == 'with':
        return '%s with {%s}' % (render(sv[1], depth + 1), ', '.join('%s: %s' % (''.join(p), render(v, depth + 1)) for p, v in sv[2]))
    return str(sv)


# ------------------------------------------------------------------------------- path queries

def path_truth(path, sv):
    """truth value of boolean symbolic value `sv` implied by the literals of `path` (None if open)"""
    if sv[0] == 'k':
        return bool(sv[1])
    for (lsv, lit, _fn, _bi) in path.lits:
        if lsv == sv:
            t = lit_truth(lit)
            if t is not None:
                return t
    if sv[0] == 'un' and sv[1] == 'Not':
        t = path_truth(path, sv[2])
        return None if t is None else (not t)
    for (lsv, lit, _fn, _bi) in path.lits:
        if lsv[0] == 'un' and lsv[1] == 'Not' and lsv[2] == sv:
            t = lit_truth(lit)
            if t is not None:
                return not t
    return None


def lit_variant(fx, path, sv_inner):
    """for a literal on discr(x): the variant name chosen on this path (or None)"""
    for (lsv, lit, _fn, _bi) in path.lits:
        if lsv[0] == 'discr' and lsv[1] == sv_inner and lit[0] == 'eq':
            return fx.variant_by_discr(lsv[2], lit[1])
    return None


def P(base, *path):
    """shorthand for a field of parameter n: P(1, '.remaining')"""
    b = ('sym', 'arg%d' % base) if isinstance(base, int) else base
    return ('proj', b, tuple(path)) if path else b


def stores_to(path, field_suffix):
    """stores of a path whose location path ends with the given field names"""
    fs = tuple(field_suffix)
    return {k: v for k, v in path.stores.items() if k[1][-len(fs):] == fs}
