"""C30 — the self-destruct notification names the destroyed contract and its beneficiary.

Sibling rule on the instruction wrappers that infer an event from journaled state after running the
wrapped instruction (SELFDESTRUCT; LOG is decided under C29):
R1 completion evidence: Inspector::selfdestruct is called only on paths on which
   `interpreter.instruction_result == SelfDestruct` is established after the wrapped instruction, and
   on every such path exactly once (a completed SELFDESTRUCT is always reported, nothing else is);
R2 argument origins: the contract is interpreter.contract.target_address, the beneficiary is the
   word peeked from the top of the stack BEFORE the wrapped instruction ran, and the value is either
   zero or a field of a journal entry used under the evidence that the entry is new (journal length
   after > length read before the instruction);
R3 the wrapped instruction runs exactly once on every path;
R4 the instruction itself sets SelfDestruct only after the host call succeeded and gas was charged.
"""
import insp
from symx import render, path_truth
from tables import blocks_setting_result
from cfg import cfg_of

META = {
    'level': 'other',
    'decides': 'that the notification is control-dependent on the instruction having completed, is sent exactly once per completed SELFDESTRUCT, and takes its arguments from the interpreter, the pre-read stack top and (under freshness evidence) the new journal entry; that JournaledState::selfdestruct journals an entry carrying the balance exactly when balance leaves the contract, and journals nothing after it',
    'does_not_decide': 'inspector-internal bookkeeping; the balance recorded by JournaledState::selfdestruct itself (C06/C08)',
    'explanation': 'Path enumeration of the wrapper closure; literals on instruction_result and on journal lengths; order of events relative to the wrapped instruction; origins of the hook arguments.',
}


def check_journal_contract(fx, rep):
    """R3: the wrapper reads the value off the journal entry the instruction pushed, so the entry must
    exist exactly when balance left the contract: JournaledState::selfdestruct pushes AccountDestroyed
    (had_balance) when the account is destroyed (before Cancun, or created in this transaction),
    BalanceTransfer(balance) when, from Cancun, a surviving contract names ANOTHER beneficiary, and
    nothing when it names itself (EIP-6780: the balance stays)."""
    from symx import Symx, Budget, render, lit_truth
    import c15
    f = fx.fns.get('revm::journaled_state::JournaledState::selfdestruct')
    if f is None:
        rep.undecided('R3-journal-contract', 'selfdestruct', 'JournaledState::selfdestruct not found')
        return
    rep.fn(f)
    try:
        rs = Symx(fx, max_paths=8000, snapshot_refs=True, pure={
            'revm_primitives::specification::SpecId::enabled', 'revm_primitives::state::Account::is_created',
            'core::cmp::PartialEq::ne', 'core::cmp::PartialEq::eq'}).run(f)
    except Budget:
        rep.undecided('R3-journal-contract', 'selfdestruct', 'path budget', f.where())
        return
    cells = {}
    for r in rs:
        if r.ret[0] == 'agg' and r.ret[2] == 'Err':
            continue
        a = {}
        for (sv, lit, _f, _b) in r.lits:
            txt = render(sv)
            tv = lit_truth(lit)
            if tv is None:
                continue
            if txt.startswith('ne(&arg2, &arg3)') or txt.startswith('ne(&arg3, &arg2)'):
                a['other'] = tv
            elif txt.startswith('eq(&arg2, &arg3)') or txt.startswith('eq(&arg3, &arg2)'):
                a['other'] = not tv
            elif txt.startswith('is_created('):
                a['created'] = tv
            elif txt.startswith('enabled(') and 'CANCUN' in txt:
                a['cancun'] = tv
        kinds = []
        after = []           # journaling that happens after the entry the wrapper will read
        for e in r.events:
            if e[0].endswith('Vec::push') and len(e[1]) > 1 and e[1][1][0] == 'agg' and e[1][1][1].endswith('JournalEntry'):
                v = e[1][1][2]
                if v in ('AccountDestroyed', 'BalanceTransfer'):
                    kinds.append((v, c15.render_deep(e[1][1])))
                elif kinds:
                    after.append(v)
            elif kinds and e[0].endswith(('JournaledState::touch_account', 'JournaledState::touch', 'JournaledState::load_account',
                                          'JournaledState::transfer', 'JournaledState::load_code')):
                after.append(e[0].split('::')[-1])
        if after:
            rep.violation('R3-journal-contract', 'selfdestruct:entry-is-last', 'JournaledState::selfdestruct journals %s after the %s entry: the inspector wrapper reads the LAST entry of the journal and would report 0 instead of the balance that left' % (
                sorted(set(after)), kinds[0][0]), f.where())
            return
        for other in ([a['other']] if 'other' in a else [True, False]):
            for created in ([a['created']] if 'created' in a else [True, False]):
                for cancun in ([a['cancun']] if 'cancun' in a else [True, False]):
                    cells.setdefault((other, created, cancun), set()).add(tuple(k for k, _t in kinds))
        for k, t in kinds:
            amount = 'had_balance: ' if k == 'AccountDestroyed' else 'balance: '
            if amount not in t or '.info.balance' not in t.split(amount, 1)[1][:120]:
                rep.violation('R3-journal-contract', 'selfdestruct:%s:amount' % k, 'the %s entry does not carry the contract\'s balance: %s' % (k, t[:120]), f.where())
                return
    bad = None
    n = 0
    for (other, created, cancun), got in sorted(cells.items()):
        if cancun and not created:
            want = ('BalanceTransfer',) if other else ()
        else:
            want = ('AccountDestroyed',)
        n += 1
        if got != {want}:
            bad = 'with beneficiary %s the contract, created-in-tx=%s, Cancun=%s it journals %s, expected %s (the inspector reports the amount of that entry as the value that left the contract)' % (
                'other than' if other else 'equal to', created, cancun, sorted(got), list(want) or 'no entry')
            break
    if bad or n < 8:
        rep.violation('R3-journal-contract', 'selfdestruct', 'JournaledState::selfdestruct: %s' % (bad or 'only %d of 8 cells recognised' % n), f.where())
    else:
        rep.ok('R3-journal-contract', 'selfdestruct', 'entry kind per (beneficiary, created, Cancun): 8 cells')


def run(ctx, rep):
    fx = ctx.facts('default')
    check_journal_contract(fx, rep)
    r = insp.load(fx, rep)
    if r is None:
        return
    parent, cls = r
    sd = [c for c in cls if c.role == 'selfdestruct']
    if len(sd) != 1:
        rep.violation('R1-completion-evidence', 'wrapper', 'expected one SELFDESTRUCT wrapper, found %d' % len(sd), parent.where())
        return
    c = sd[0]
    rep.fn(c.fn)
    paths = c.run(fx)
    if paths is None:
        rep.undecided('R1-completion-evidence', 'paths', 'budget', c.fn.where())
        return
    sd_discr = fx.discr_of('revm_interpreter::instruction_result::InstructionResult', 'SelfDestruct')
    n_notify = 0
    ok1 = ok2 = ok3 = True
    for p in paths:
        names = [e[0] for e in p.events]
        prev_idx = [i for i, e in enumerate(p.events) if e[0] in ('core::ops::function::Fn::call', 'core::ops::function::FnMut::call_mut')]
        hooks = [(i, e) for i, e in enumerate(p.events) if e[0] == insp.INSPECTOR + 'selfdestruct']
        if len(prev_idx) != 1:
            ok3 = False
            rep.violation('R3-instruction-once', 'selfdestruct-wrapper', 'the wrapped SELFDESTRUCT instruction runs %d times on a path' % len(prev_idx), c.fn.where())
            continue
        pi = prev_idx[0]
        # completion evidence on this path
        completed = None
        for (sv, lit, _f, _b) in p.lits:
            r_ = render(sv)
            if 'instruction_result' in r_:
                if sv[0] == 'discr':
                    if lit == ('eq', sd_discr):
                        completed = True
                    elif lit[0] == 'ne' and sd_discr in lit[1]:
                        completed = False
                    elif lit[0] == 'eq':
                        completed = False
                elif sv[0] == 'call' and sv[1].endswith(('PartialEq::ne', 'PartialEq::eq')) and 'SelfDestruct' in r_:
                    t = path_truth(p, sv)
                    if t is not None:
                        completed = (not t) if sv[1].endswith('ne') else t
        if hooks and completed is not True:
            ok1 = False
            rep.violation('R1-completion-evidence', 'notify-without-completion',
                          'Inspector::selfdestruct is called on a path where instruction_result == SelfDestruct is not established: a failed SELFDESTRUCT (or an older journal entry) is reported', c.fn.where())
            continue
        if completed is True and len(hooks) != 1:
            # a path may still bail out when the stack top could not be read (then the instruction cannot have completed either)
            peek_failed = any(sv[0] == 'discr' and 'peek' in render(sv) and lit[0] == 'eq' and lit[1] != 0 for (sv, lit, _f, _b) in p.lits) or \
                any(sv[0] == 'discr' and ('peek' in render(sv) or 'ok(' in render(sv)) and lit in (('eq', 0), ('ne', (1,))) for (sv, lit, _f, _b) in p.lits)
            if not peek_failed:
                ok1 = False
                rep.violation('R1-completion-evidence', 'completed-not-reported', 'a completed SELFDESTRUCT is reported %d times on a path' % len(hooks), c.fn.where())
            continue
        for hi, e in hooks:
            n_notify += 1
            if hi < pi:
                ok1 = False
                rep.violation('R1-completion-evidence', 'order', 'the notification precedes the instruction', c.fn.where())
            args = e[1]
            contract, target, value = render(args[1]), render(args[2]), args[3]
            # exactly the executing contract: in a DELEGATECALL / CALLCODE frame the code's own address
            # (bytecode_address) is another account than the one that is destroyed
            if not contract.replace(' ', '').endswith('.contract.target_address') or 'bytecode_address' in contract or 'unwrap_or' in contract:
                ok2 = False
                rep.violation('R2-argument-origins', 'contract', 'the destroyed contract is reported as %s, expected interpreter.contract.target_address' % contract[:100], c.fn.where())
            # beneficiary: from a peek performed before the instruction
            peeks = [i for i, ev in enumerate(p.events) if ev[0].endswith('Stack::peek')]
            if not ('peek' in target and peeks and min(peeks) < pi):
                ok2 = False
                rep.violation('R2-argument-origins', 'beneficiary', 'the beneficiary is reported as %s, expected the stack top read before the instruction' % target[:100], c.fn.where())
            rv = render(value)
            if value == ('k', 0) or rv.endswith('ZERO') or 'ZERO' in rv and 'journal' not in rv:
                pass
            elif 'had_balance' in rv or '.balance' in rv:
                # freshness evidence: journal.len() after > len read before the instruction
                fresh = False
                for (sv, lit, _f, _b) in p.lits:
                    if sv[0] == 'bin' and sv[1] in ('Gt', 'Lt', 'Ge', 'Le') and 'len' in render(sv) and path_truth(p, sv) is not None:
                        # one operand was computed before prev: its call event index < pi
                        before = [i for i, ev in enumerate(p.events) if (ev[0].endswith('Option::map_or') or ev[0].endswith('::len')) and i < pi]
                        if before:
                            t = path_truth(p, sv)
                            if (sv[1] in ('Gt', 'Ge') and t) or (sv[1] in ('Lt', 'Le') and t):
                                fresh = True
                if not fresh:
                    ok2 = False
                    rep.violation('R2-argument-origins', 'value-freshness', 'the reported balance is taken from the last journal entry without evidence that this instruction added it', c.fn.where())
            else:
                ok2 = False
                rep.violation('R2-argument-origins', 'value', 'the reported balance is %s' % rv[:100], c.fn.where())
    if ok1 and n_notify:
        rep.ok('R1-completion-evidence', 'selfdestruct-wrapper', '%d notifying path(s), all under instruction_result == SelfDestruct; completed paths notify once' % n_notify)
    elif not n_notify:
        rep.violation('R1-completion-evidence', 'never-notified', 'no path of the wrapper reports a completed SELFDESTRUCT', c.fn.where())
    if ok2 and n_notify:
        rep.ok('R2-argument-origins', 'selfdestruct-wrapper', 'contract = interpreter.contract.target_address; beneficiary = pre-read stack top; value = 0 or fresh journal entry')
    if ok3:
        rep.ok('R3-instruction-once', 'selfdestruct-wrapper', 'wrapped instruction x1 on every path')
    rep.floor('notifying-paths', n_notify, 2)
    # R4: the instruction
    f = fx.fns.get('revm_interpreter::instructions::host::selfdestruct')
    if f is None:
        rep.undecided('R4-instruction-result', 'selfdestruct', 'not found')
        return
    rep.fn(f)
    cfg = cfg_of(f)
    setb = blocks_setting_result(f, 'SelfDestruct')
    host = [bi for bi, t in f.calls() if (t.callee or '').endswith('Host::selfdestruct')]
    gas = [bi for bi, t in f.calls() if (t.target_fn or '').endswith('Gas::record_cost')]
    good = len(setb) == 1 and len(host) == 1 and gas and cfg.dominates(host[0], setb[0]) and all(cfg.dominates(g, setb[0]) for g in gas)
    if good:
        rep.ok('R4-instruction-result', 'selfdestruct', 'SelfDestruct is set only after Host::selfdestruct and the gas charge')
    else:
        rep.violation('R4-instruction-result', 'selfdestruct', 'instruction_result = SelfDestruct is not dominated by the host call and the gas charge', f.where())
