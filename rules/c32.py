"""C32 — blob fee functions match the EIP-4844 integer definitions (structural clauses).

R1 constants by value: MIN_BLOB_GASPRICE = 1, update fractions 3338477 (Cancun) / 5007716 (Electra,
   EIP-7691), GAS_PER_BLOB = 2^17;
R2 calc_blob_gasprice = fake_exponential(MIN_BLOB_GASPRICE, excess, is_prague ? ELECTRA : CANCUN);
R3 fake_exponential is the EIP-4844 pseudo-code, read with symbolic loop variables:
      i = 1; output = 0; accum = factor * denominator
      while accum > 0: output += accum; accum = accum * numerator / (denominator * i); i += 1
      return output / denominator
R4 calc_excess_blob_gas computes (excess + used) saturating-minus target without wrapping;
R5 "never silently returns a wrapped value": every `+`/`*` of these functions on non-constant
   operands is classified; source-level operations that can wrap in release builds are findings
   unless they carry a bound argument.
"""
from symx import Symx, render, K, path_truth
from cfg import Origins

META = {
    'level': 'other',
    'decides': 'the constants, the argument routing of calc_blob_gasprice, the identity of fake_exponential\'s loop with the EIP-4844 pseudo-code (as symbolic update equations), the expression of calc_excess_blob_gas, and which arithmetic in these functions can wrap',
    'does_not_decide': 'numerical equality with the unbounded-integer definition for particular values',
    'explanation': 'Path enumeration with symbolic loop variables (update equations of the loop body), const evaluation, arithmetic-form classification of MIR binary operations.',
}

U = 'revm_primitives::utilities::'
C = 'revm_primitives::constants::'


def run(ctx, rep):
    fx = ctx.facts('default')
    for name, want in (('MIN_BLOB_GASPRICE', 1), ('BLOB_BASE_FEE_UPDATE_FRACTION_CANCUN', 3338477),
                       ('BLOB_BASE_FEE_UPDATE_FRACTION_ELECTRA', 5007716), ('GAS_PER_BLOB', 1 << 17)):
        got = fx.const_val(C + name)
        if got is None:
            got = fx.const_val(name)
        if got == want:
            rep.ok('R1-constants', name, want)
        elif got is None:
            rep.violation('R1-constants', name + ':missing', 'constant %s not found' % name)
        else:
            rep.violation('R1-constants', name, '%s = %s, EIP-4844/7691 say %s' % (name, got, want))
    check_gasprice(fx, rep)
    check_fake_exponential(fx, rep)
    check_excess(fx, rep)
    check_arith(fx, rep)
    check_env_setter(fx, rep)
    rep.assume('u128 intermediate width is the implementation\'s choice; values that do not fit are the subject of R5')


def check_gasprice(fx, rep):
    f = fx.fns.get(U + 'calc_blob_gasprice')
    if f is None:
        rep.undecided('R2-gasprice', 'calc_blob_gasprice', 'not found')
        return
    rep.fn(f)
    rs = Symx(fx).run(f)
    table = {}
    for p in rs:
        prague = path_truth(p, ('sym', 'arg2'))
        ev = [e for e in p.events if e[0] == U + 'fake_exponential']
        if prague is None or len(ev) != 1 or p.ret[0] != 'call':
            rep.undecided('R2-gasprice', 'shape', 'not a two-way table on is_prague', f.where())
            return
        table[prague] = ev[0][1]
    want = {True: (K(1), ('sym', 'arg1'), K(5007716)), False: (K(1), ('sym', 'arg1'), K(3338477))}
    for k, w in want.items():
        if table.get(k) == w:
            rep.ok('R2-gasprice', 'is_prague=%s' % k, 'fake_exponential(1, excess, %d)' % w[2][1])
        else:
            rep.violation('R2-gasprice', 'is_prague=%s' % k, 'calc_blob_gasprice(is_prague=%s) calls fake_exponential%s, expected (1, excess, %d)' % (k, tuple(render(a) for a in table.get(k, ())), w[2][1]), f.where())


def check_fake_exponential(fx, rep):
    f = fx.fns.get(U + 'fake_exponential')
    if f is None:
        rep.undecided('R3-fake-exponential', 'fake_exponential', 'not found')
        return
    rep.fn(f)
    rs = Symx(fx, loop_symbolic=True).run(f)
    F, N, D = ('cast', 'u128', ('sym', 'arg1')), ('cast', 'u128', ('sym', 'arg2')), ('cast', 'u128', ('sym', 'arg3'))
    body = [p for p in rs if p.cut]
    exits = [p for p in rs if not p.cut]
    if len(body) != 1 or len(exits) != 1:
        rep.undecided('R3-fake-exponential', 'shape', '%d body / %d exit paths' % (len(body), len(exits)), f.where())
        return
    b, e = body[0], exits[0]
    # loop variables by role (names are the source's; matched by their update equations)
    init = b.loop_init
    loc = b.locals
    roles = {}
    for nm, v in loc.items():
        if v[0] == 'bin' and v[1] == 'Add' and v[3] == K(1) and v[2] == ('sym', 'loop:' + nm) and init.get(nm) == K(1):
            roles['i'] = nm
    for nm, v in loc.items():
        if v[0] == 'bin' and v[1] == 'Div' and v[2][0] == 'bin' and v[2][1] == 'Mul' and v[2][2] == ('sym', 'loop:' + nm):
            roles['accum'] = nm
    for nm, v in loc.items():
        if v[0] == 'bin' and v[1] == 'Add' and v[2] == ('sym', 'loop:' + nm) and 'accum' in roles and v[3] == ('sym', 'loop:' + roles['accum']):
            roles['output'] = nm
    missing = [r for r in ('i', 'accum', 'output') if r not in roles]
    if missing:
        rep.violation('R3-fake-exponential', 'update-equations', 'loop variables with the EIP update equations not found: %s; body updates: %s' % (missing, {k: render(v) for k, v in loc.items() if 'loop:' in render(v)}), f.where())
        return
    I, A, O = (('sym', 'loop:' + roles[x]) for x in ('i', 'accum', 'output'))
    want_accum = ('bin', 'Div', ('bin', 'Mul', A, N), ('bin', 'Mul', D, I))
    checks = [
        ('accum-update', loc[roles['accum']] == want_accum, 'accum = accum * numerator / (denominator * i)'),
        ('accum-init', init.get(roles['accum']) == ('bin', 'Mul', F, D), 'accum0 = factor * denominator'),
        ('output-init', init.get(roles['output']) == K(0), 'output0 = 0'),
        ('loop-condition', any(l[0] == ('bin', 'Gt', A, K(0)) for l in b.lits), 'while accum > 0'),
        ('result', e.ret == ('bin', 'Div', O, D), 'return output / denominator'),
    ]
    ROLE_OF.clear()
    ROLE_OF.update({v: k for k, v in roles.items()})
    for key, ok, descr in checks:
        if ok:
            rep.ok('R3-fake-exponential', key, descr)
        else:
            rep.violation('R3-fake-exponential', key, 'fake_exponential deviates from the EIP-4844 pseudo-code: expected `%s`' % descr, f.where())


def check_excess(fx, rep):
    f = fx.fns.get(U + 'calc_excess_blob_gas')
    if f is None:
        rep.undecided('R4-excess', 'calc_excess_blob_gas', 'not found')
        return
    rep.fn(f)
    rs = Symx(fx, pure={'core::num::<impl u64>::saturating_sub', 'core::num::<impl u128>::saturating_sub', 'core::cmp::Ord::min',
                        'core::num::<impl u64>::saturating_add', 'core::num::<impl u64>::checked_add'}).run(f)
    a1, a2, a3 = ('sym', 'arg1'), ('sym', 'arg2'), ('sym', 'arg3')
    ok = False
    wraps = False
    shape = [render(p.ret) for p in rs]
    if len(rs) == 1:
        r = rs[0].ret
        # accepted forms: saturating_sub(excess + used, target) in a width that cannot wrap
        def strip(v):
            while v[0] == 'cast':
                v = v[2]
            return v
        core = strip(r)
        if core[0] == 'call' and core[1].endswith('::min'):
            core = strip(core[2][0])
        if core[0] == 'call' and core[1].endswith('saturating_sub'):
            s, t = core[2]
            if strip(t) == a3:
                if s == ('bin', 'Add', a1, a2):
                    ok = True
                    wraps = True          # u64 + u64 in u64
                elif s[0] == 'bin' and s[1] == 'Add' and {strip(s[2]), strip(s[3])} == {a1, a2} and s[2][0] == 'cast' and s[3][0] == 'cast':
                    ok = True             # widened before adding
                elif s[0] == 'call' and s[1].endswith('saturating_add') and set(s[2]) == {a1, a2}:
                    # clamping the sum to 2^64-1 BEFORE subtracting is not the definition: for
                    # excess + used > 2^64-1 and target > 0 it yields 2^64-1-target although
                    # excess + used - target may still fit
                    rep.violation('R4-excess', 'expression', 'calc_excess_blob_gas clamps excess + used to u64::MAX before subtracting the target: for (2^64-6, 10, 20) it returns 2^64-21, the definition gives 2^64-16', f.where())
                    return
    if ok:
        rep.ok('R4-excess', 'expression', 'max(0, excess + used - target)')
    else:
        rep.violation('R4-excess', 'expression', 'calc_excess_blob_gas computes %s, expected (excess + used).saturating_sub(target)' % shape, f.where())
    if ok and wraps:
        rep.violation('R5-no-silent-wrap', 'calc_excess_blob_gas:Add',
                      'calc_excess_blob_gas adds parent_excess + parent_used in u64 with the wrapping-in-release `+`: for excess = 2^64-1, used = 1, target = 2 it returns 0 in a release build (panics in debug), the definition gives 2^64-2', f.where())
    elif ok:
        rep.ok('R5-no-silent-wrap', 'calc_excess_blob_gas', 'sum formed without wrapping')


# source-level operations accepted with a bound argument
ARITH_OK = {
    ('fake_exponential', 'Mul', 'init'): 'factor * denominator: both are u64 values widened to u128, product < 2^128',
    ('fake_exponential', 'Add', 'i'): 'i += 1: at most a few thousand iterations before accum reaches 0',
}


ROLE_OF = {}      # source variable name -> role in the EIP pseudo-code (filled by check_fake_exponential)


def check_arith(fx, rep):
    f = fx.fns.get(U + 'fake_exponential')
    if f is None:
        return
    og = Origins(f, fx)
    n = 0
    for b in f.blocks:
        if b.cleanup:
            continue
        for s in b.stmts:
            if s.kind != 'assign' or s.rv.rv != 'bin':
                continue
            op = s.rv.op.replace('WithOverflow', '')
            if op not in ('Add', 'Mul', 'Sub') or not s.rv.op.endswith('WithOverflow'):
                continue
            ops = [og.of_operand(o) for o in s.rv.ops]
            names = []
            for o in s.rv.ops:
                if o.place is not None and not o.place.pr:
                    loc = o.place.b
                    for _ in range(4):       # follow plain copies back to a named variable
                        if f.local_name(loc):
                            break
                        ds = og.defs.get(loc, [])
                        if len(ds) == 1 and ds[0][0] == 'stmt':
                            rv = f.blocks[ds[0][1]].stmts[ds[0][2]].rv
                            if rv.rv == 'use' and rv.ops[0].place is not None and not rv.ops[0].place.pr:
                                loc = rv.ops[0].place.b
                                continue
                        break
                    names.append(f.local_name(loc) or '_')
                else:
                    names.append('const' if o.kind == 'const' else '_')
            n += 1
            # classify by operand roles
            all_widened_params = all(all(x.root[0] == 'cast' and all(y.root[0] == 'param' for y in x.root[2]) for x in oo) for oo in ops)
            inc = any(all(x.root[0] == 'const' and x.root[1] == 1 for x in oo) for oo in ops) and op == 'Add'
            def is_counter(oo):
                # a variable initialised to 1 and only ever incremented by 1
                roots = [x.root for x in oo]
                has_one = any(r[0] == 'const' and r[1] == 1 for r in roots)
                has_inc = any(r[0] == 'bin' and r[1].startswith('Add') and all(y.root[0] == 'const' and y.root[1] == 1 for y in r[3]) for r in roots)
                return has_one and has_inc and len(roots) == 2
            if op == 'Mul' and any(is_counter(oo) for oo in ops) and any(all(x.root[0] == 'cast' for x in oo) for oo in ops):
                rep.ok('R5-no-silent-wrap', 'fake_exponential:Mul:denominator*counter',
                       'denominator (< 2^64) times the iteration counter: the loop ends after at most a few thousand iterations', nontrivial=False)
            elif op == 'Mul' and all_widened_params:
                rep.ok('R5-no-silent-wrap', 'fake_exponential:Mul:factor*denominator', ARITH_OK[('fake_exponential', 'Mul', 'init')], nontrivial=False)
            elif inc:
                rep.ok('R5-no-silent-wrap', 'fake_exponential:Add:i+1', ARITH_OK[('fake_exponential', 'Add', 'i')], nontrivial=False)
            else:
                # does the expression involve the accumulators?
                what = '%s(%s)' % (op, ','.join(names))
                # keys use the role a variable plays in the EIP pseudo-code, not its source name
                argpos = {'factor': 'factor', 'numerator': 'numerator', 'denominator': 'denominator'}
                for i in range(1, f.argc + 1):
                    argpos[f.local_name(i) or ''] = ('factor', 'numerator', 'denominator')[i - 1] if i <= 3 else 'arg'
                rn = sorted({ROLE_OF.get(n_, argpos.get(n_, n_)) for n_ in names})
                key = 'fake_exponential:%s:%s' % (op, '*'.join(rn))
                rep.violation('R5-no-silent-wrap', key,
                              'fake_exponential performs the source-level `%s` in u128, which wraps in release builds: for numerator near 2^64 the second Taylor term already exceeds 2^128 and a wrapped blob gas price is returned silently' % what, f.where(b.i, s.ln))
    rep.floor('fake_exponential-arithmetic-sites', n, 4)


def check_env_setter(fx, rep):
    """R6: BlockEnv::set_blob_excess_gas_and_price stores, on every path, the pair computed from BOTH
    of its arguments (the price depends on the excess and on the fork's update fraction); a path that
    returns without storing keeps a price computed for another fork or excess."""
    from symx import Symx, Budget, render
    f = fx.fns.get('revm_primitives::env::BlockEnv::set_blob_excess_gas_and_price')
    if f is None:
        rep.undecided('R6-env-setter', 'set_blob_excess_gas_and_price', 'not found')
        return
    rep.fn(f)
    try:
        rs = Symx(fx, max_paths=200).run(f)
    except Budget:
        rep.undecided('R6-env-setter', 'set_blob_excess_gas_and_price', 'path budget', f.where())
        return
    bad = None
    for r in rs:
        st = {''.join(p): render(v).replace(' ', '') for (root, p), v in r.stores.items() if root == ('arg', 1)}
        v = st.get('.blob_excess_gas_and_price')
        if v is None:
            bad = 'a path returns without storing a new excess / price pair (guards: %s)' % [render(l[0])[:50] for l in r.lits]
        elif v != 'Option::Some{0:new(arg2,arg3)}':
            bad = 'stores %s, expected Some(BlobExcessGasAndPrice::new(excess_blob_gas, is_prague))' % v[:80]
    if bad or not rs:
        rep.violation('R6-env-setter', 'set_blob_excess_gas_and_price', 'BlockEnv::set_blob_excess_gas_and_price: %s' % (bad or 'no path'), f.where())
    else:
        rep.ok('R6-env-setter', 'set_blob_excess_gas_and_price', 'always Some(new(excess, is_prague))')
