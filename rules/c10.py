"""C10 — a static call cannot change state.

R1 mutator set derived from the code: Host methods whose `Context` implementation reaches a
   JournaledState method that writes state (anything but loads / warming reads);
R2 in every instruction handler (and its interpreter-crate helpers) each call of a Host mutator
   and each construction of a Create / EOFCreate action is unreachable unless a branch edge
   `is_static == false` was taken (cut formulation: with all such edges removed the site is
   unreachable from the function entry), and the `is_static == true` side sets
   StateChangeDuringStaticCall;
R3 value guard: a CallInputs carrying CallValue::Transfer(v) is unreachable unless an edge
   `is_static == false` or `v.is_zero()` (no transfer) was taken - CALL and EXTCALL; CALLCODE is the
   listed exemption (EIP-214: the transfer is from the frame to itself);
R4 propagation: every CallInputs built by an instruction has is_static = const true (STATICCALL,
   EXTSTATICCALL) or a copy of interpreter.is_static;
R5 frame creation: make_call_frame passes inputs.is_static to Interpreter::new; create frames pass
   false (and are unreachable from static frames by R2); nothing but Interpreter::new assigns is_static.
"""
from cfg import cfg_of, Origins
from tables import blocks_setting_result

META = {
    'level': 'proof',
    'decides': 'that every state-mutating host call, every create action and every value-bearing call built by an instruction handler is cut off by the is_static test on all CFG paths, and that the static flag propagates unchanged into every child call frame',
    'does_not_decide': 'custom instructions registered by users; equality of world state before/after (follows from the guards plus C06)',
    'explanation': 'Edge-cut reachability on MIR CFGs (site unreachable once all `is_static == false` / `no transfer` edges are removed), mutator set derived from the call graph, value-origin analysis of the is_static field of every CallInputs aggregate.',
}

HOST = 'revm_interpreter::host::Host::'
JS = 'revm::journaled_state::JournaledState::'
# JournaledState methods that only read or warm (allowed under a static call)
JS_READERS = {'load_account', 'load_account_delegated', 'load_code', 'load_account_optional', 'sload', 'tload',
              'depth', 'account', 'state', 'initial_account_load', 'set_spec_id', 'warm_preloaded_addresses',
              'load_account_exist', 'code', 'code_hash'}


def derive_mutators(fx, rep):
    """Host method name -> set of JournaledState methods reached from Context's implementation"""
    res = {}
    impl_fns = [f for f in fx.fns_all if f.impl_trait == 'revm_interpreter::host::Host' and f.impl_self and f.impl_self.startswith('revm::context::Context')]
    for f in impl_fns:
        rep.fn(f)
        seen = set()
        reached = set()
        work = [(f, 0)]
        while work:
            g, d = work.pop()
            if g.nq in seen or d > 5:
                continue
            seen.add(g.nq)
            for bi, t in g.calls():
                tf = t.target_fn or ''
                if tf.startswith(JS):
                    reached.add(tf[len(JS):])
                elif tf.startswith('revm::context') or tf.startswith('<revm::context'):
                    h = fx.fns.get(tf)
                    if h is not None:
                        work.append((h, d + 1))
        res[f.name] = reached
    return res


def static_safe_edges(f, og, value_origins=None):
    """edges (block, target) on which `is_static == false` - or, if value_origins is given, also
    `value.is_zero() == true` / `has_transfer == false` - is known"""
    edges = set()
    static_switches = []
    for b in f.blocks:
        if b.cleanup or b.term.kind != 'switch':
            continue
        t = b.term
        d = og.of_operand(t.switch_discr())
        if len(d) != 1:
            continue
        o = d[0]
        arms = dict(t.d['arms'])
        if o.root == ('param', 1) and o.path == ('.is_static',):
            if 0 in arms:
                edges.add((b.i, arms[0]))
                static_switches.append(b.i)
            continue
        if value_origins is not None:
            neg = False
            r = o.root
            if r[0] == 'un' and r[1] == 'Not' and len(r[2]) == 1 and not o.path:
                neg = True
                o2 = r[2][0]
            else:
                o2 = o
            if o2.root[0] == 'call' and o2.root[1].endswith('::is_zero') and not o2.path:
                tb = f.blocks[o2.root[2]].term
                vo = set(og.of_operand(tb.args[0]))
                if vo & set(value_origins):
                    # is_zero(v) true  <=> no transfer
                    if neg:
                        # switch on has_transfer = !is_zero: safe edge is value 0
                        if 0 in arms:
                            edges.add((b.i, arms[0]))
                    else:
                        # switch on is_zero: safe edge is the non-zero ("otherwise") edge
                        if 0 in arms:
                            edges.add((b.i, t.d['otherwise']))
    return edges, static_switches


def handler_universe(fx):
    """instruction handlers and the interpreter-crate helper functions they call"""
    fns = {}
    for f in fx.fns_all:
        if f.nq.startswith('revm_interpreter::instructions::') and f.kind in ('Fn', 'AssocFn') and '::test' not in f.nq:
            fns[f.nq] = f
    return fns


def run(ctx, rep):
    fx = ctx.facts('default')
    muts = derive_mutators(fx, rep)
    if not muts:
        rep.undecided('R1-mutators', 'derive', 'impl Host for Context not found')
        return
    mutators = set()
    for m, reached in sorted(muts.items()):
        writers = {x for x in reached if x not in JS_READERS}
        if writers:
            mutators.add(m)
        rep.ok('R1-mutators', m, 'writers reached: %s' % sorted(writers) if writers else 'read/warm only', nontrivial=bool(writers))
    expected = {'sstore', 'tstore', 'log', 'selfdestruct'}
    if mutators != expected:
        extra = mutators - expected
        missing = expected - mutators
        for m in extra:
            rep.ok('R1-mutators', m + ':new-mutator', 'additional state-writing Host method: guarded sites are required for it too')
        for m in missing:
            rep.violation('R1-mutators', m + ':not-a-writer', 'Host::%s no longer reaches a JournaledState writer (derivation changed)' % m)
    rep.sample({'derived_mutators': sorted(mutators)})

    fns = handler_universe(fx)
    n_guard = 0
    n_value = 0
    n_prop = 0
    for nq, f in sorted(fns.items()):
        og = None
        cfg = None
        # R2: mutator call sites
        sites = []
        for bi, t in f.calls():
            cal = t.callee or ''
            if cal.startswith(HOST) and cal[len(HOST):] in mutators:
                sites.append((bi, 'Host::' + cal[len(HOST):]))
        # create / eofcreate action construction
        for b in f.blocks:
            if b.cleanup:
                continue
            for s in b.stmts:
                if s.kind == 'assign' and s.rv.rv == 'agg' and s.rv.d.get('adt', '').endswith('InterpreterAction') and s.rv.d.get('variant') in ('Create', 'EOFCreate'):
                    sites.append((b.i, 'action:' + s.rv.d['variant']))
        if sites:
            rep.fn(f)
            og = Origins(f, fx)
            cfg = cfg_of(f)
            safe, sw = static_safe_edges(f, og)
            for bi, what in sites:
                n_guard += 1
                key = '%s:%s' % (f.name, what)
                if not sw:
                    rep.violation('R2-static-guard', key, '%s performs %s with no is_static test in the function' % (f.name, what), f.where(bi))
                    continue
                if cfg.reachable(0, bi, banned_edges=safe):
                    rep.violation('R2-static-guard', key, '%s can reach %s on a path that never takes an `is_static == false` edge' % (f.name, what), f.where(bi))
                    continue
                # the static side reports StateChangeDuringStaticCall
                bad = blocks_setting_result(f, 'StateChangeDuringStaticCall')
                static_side_ok = False
                for sb in sw:
                    tt = f.blocks[sb].term
                    true_t = tt.d['otherwise']
                    if any(x == true_t or x in cfg.reach_set(true_t, banned_edges=safe) for x in bad):
                        static_side_ok = True
                if static_side_ok:
                    rep.ok('R2-static-guard', key, 'cut by is_static == false; static side -> StateChangeDuringStaticCall')
                else:
                    rep.violation('R2-static-guard', key + ':result', 'the static branch does not set StateChangeDuringStaticCall', f.where(bi))
        # R3 / R4: CallInputs aggregates
        for b in f.blocks:
            if b.cleanup:
                continue
            for si, s in enumerate(b.stmts):
                if not (s.kind == 'assign' and s.rv.rv == 'agg' and s.rv.d.get('adt', '').endswith('call_inputs::CallInputs')):
                    continue
                rep.fn(f)
                og = og or Origins(f, fx)
                cfg = cfg or cfg_of(f)
                names = s.rv.d['names']
                ops = dict(zip(names, s.rv.ops))
                # R4 propagation
                n_prop += 1
                so = og.of_operand(ops['is_static'])
                key = '%s:CallInputs.is_static' % f.name
                want_true = f.name in ('static_call', 'extstaticcall')
                if want_true:
                    if all(o.root[0] == 'const' and o.root[1] == 1 for o in so):
                        rep.ok('R4-propagation', key, 'const true')
                    else:
                        rep.violation('R4-propagation', key, '%s builds CallInputs with is_static = %s, expected the constant true' % (f.name, so), f.where(b.i))
                else:
                    if all(o.root == ('param', 1) and o.path == ('.is_static',) for o in so):
                        rep.ok('R4-propagation', key, 'copy of interpreter.is_static')
                    elif all(o.root[0] == 'const' and o.root[1] == 1 for o in so):
                        rep.ok('R4-propagation', key, 'const true (stricter than required)')
                    else:
                        rep.violation('R4-propagation', key, '%s builds CallInputs with is_static = %s: the static flag of the current frame is not inherited by the child' % (f.name, [o.render() for o in so]), f.where(b.i))
                # R3 value guard
                vo = og.of_operand(ops['value'])
                transfers = []
                for o in vo:
                    if o.root[0] == 'agg' and o.root[2] == 'Transfer':
                        for sub in o.root[4][0]:
                            # the constant U256::ZERO transfers nothing
                            if sub.root[0] == 'const' and str(sub.root[2]).endswith('::ZERO') and 'ruint' in str(sub.root[2]):
                                continue
                            transfers.append(sub)
                    elif o.root[0] == 'agg' and o.root[2] == 'Apparent':
                        pass
                    else:
                        transfers.append(o)
                if transfers:
                    n_value += 1
                    key = '%s:value-transfer' % f.name
                    if f.name == 'call_code':
                        rep.ok('R3-value-guard', key, 'exempt: CALLCODE transfers from the frame to itself (EIP-214 does not forbid it)', nontrivial=False)
                    else:
                        safe, sw = static_safe_edges(f, og, transfers)
                        if cfg.reachable(0, b.i, banned_edges=safe):
                            rep.violation('R3-value-guard', key, '%s can build a value-bearing call on a path with neither `is_static == false` nor `value == 0` established' % f.name, f.where(b.i))
                        else:
                            rep.ok('R3-value-guard', key, 'cut by is_static == false or value.is_zero()')
    rep.floor('guarded-mutation-sites', n_guard, 6)   # sstore, tstore, log<N>, selfdestruct, create<>, eofcreate
    rep.floor('value-bearing-call-sites', n_value, 3)
    rep.floor('CallInputs-sites', n_prop, 7)

    # R5 frame creation and writers of is_static
    check_frames(fx, rep)
    rep.assume('custom instructions registered by users are not analysed')
    rep.assume('CALLCODE with value in a static frame is allowed by EIP-214 (listed exemption)')


def check_frames(fx, rep):
    EC = 'revm::context::evm_context::EvmContext::'
    NEW = 'revm_interpreter::interpreter::Interpreter::new'
    for name, want in (('make_call_frame', 'inherit'), ('make_create_frame', 'false'), ('make_eofcreate_frame', 'false')):
        f = fx.fns.get(EC + name)
        if f is None:
            rep.undecided('R5-frame-flag', name, 'anchor not found')
            continue
        rep.fn(f)
        og = Origins(f, fx)
        sites = [(bi, t) for bi, t in f.calls() if t.target_fn == NEW]
        if not sites:
            rep.undecided('R5-frame-flag', name, 'Interpreter::new call not found', f.where())
            continue
        for bi, t in sites:
            oo = og.of_operand(t.args[2])
            if want == 'inherit':
                good = all(o.root == ('param', 2) and o.path == ('.is_static',) for o in oo)
                msg = 'inputs.is_static'
            else:
                good = all(o.root[0] == 'const' and o.root[1] == 0 for o in oo)
                msg = 'false'
            if good:
                rep.ok('R5-frame-flag', name, 'Interpreter::new(.., %s)' % msg)
            else:
                rep.violation('R5-frame-flag', name, '%s creates the interpreter with is_static = %s, expected %s' % (name, [o.render() for o in oo], msg), f.where(bi))
    # Interpreter::new stores its parameter; nobody else writes the flag
    writers = {}
    for f in fx.fns_all:
        if not f.crate or f.crate.endswith('-test'):
            continue
        for b in f.blocks:
            if b.cleanup:
                continue
            for s in b.stmts:
                if s.kind == 'assign' and s.place.pr and s.place.pr[-1] == '.is_static' and 'Interpreter' in f.local_ty(s.place.b):
                    writers.setdefault(f.nq, b.i)
                if s.kind == 'assign' and s.rv.rv == 'agg' and s.rv.d.get('adt', '').endswith('interpreter::Interpreter') and 'is_static' in s.rv.d.get('names', []):
                    writers.setdefault(f.nq, b.i)
    allowed = {NEW, '<revm_interpreter::interpreter::Interpreter as core::default::Default>::default',
               '<revm_interpreter::interpreter::Interpreter as core::clone::Clone>::clone'}
    for w, bi in writers.items():
        f = fx.fns[w]
        if w in allowed or 'serde' in w:
            rep.ok('R5-flag-writers', f.name, 'constructor', nontrivial=False)
        else:
            rep.violation('R5-flag-writers', w.split('::')[-1], 'unexpected writer of Interpreter.is_static: %s' % w, f.where(bi))
    f = fx.fns.get(NEW)
    if f is not None:
        og = Origins(f, fx)
        ok = False
        for b in f.blocks:
            for s in b.stmts:
                if s.kind == 'assign' and s.rv.rv == 'agg' and 'is_static' in s.rv.d.get('names', []):
                    op = s.rv.ops[s.rv.d['names'].index('is_static')]
                    oo = og.of_operand(op)
                    ok = all(o.root == ('param', 3) and not o.path for o in oo)
        if ok:
            rep.ok('R5-flag-writers', 'Interpreter::new', 'is_static field = parameter')
        else:
            rep.violation('R5-flag-writers', 'Interpreter::new:field', 'Interpreter::new does not store its is_static parameter into the field', f.where())
