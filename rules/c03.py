"""C03 — arithmetic, comparison, bitwise and shift opcodes compute exact 256-bit results.

The numerical results of ruint's primitives (wrapping_add, mul_mod, pow, <<, arithmetic_shr ...) are
outside the repository and are taken as axioms (listed in PRIMS).  Decided on the repository's code:
R1 gas and arity of the 25 opcodes: constant gas against the fee schedule, (delta, alpha) = the
   specification's on every success path, SHL/SHR/SAR halt with NotActivated before CONSTANTINOPLE
   and run from it on, EXP charges exp_cost(spec, exponent) (formula: C14);
R2 operand routing and operation identity: the value left on the stack, as a symbolic expression of
   the popped operands a (top), b, c, per truth assignment of the handler's guards, equals the
   reference expression (mu_s[0] op mu_s[1] in that order, zero-divisor and shift/byte bounds,
   SIGNEXTEND's mask);
R3 the signed helpers, by exhaustive abstract cells: i256_sign over (bit 255, zero); i256_cmp over
   sign x sign; i256_div over sign x sign x (|a| = 2^255) x (|b| = 1); i256_mod over sign x sign:
   the partially evaluated result of each cell equals two's-complement signed arithmetic expressed
   over magnitudes.
"""
import itertools
import os
import sys

sys.path.insert(0, os.path.join(os.path.dirname(os.path.abspath(__file__)), 'reference'))
import opcodes as REF       # noqa: E402
import c05                   # noqa: E402
import isummary              # noqa: E402
from symx import Symx, Budget, K, render, lit_truth   # noqa: E402

META = {
    'level': 'other',
    'decides': 'for ADD..SAR: constant gas, stack arity, fork gate, which ruint primitive is applied to which operands in which order under which guard (per guard assignment), and the sign logic of i256_sign / i256_cmp / i256_div / i256_mod over every abstract sign cell; the gas EXP charges (exp_cost table per fork and log2floor, C14)',
    'does_not_decide': 'the numerical correctness of the ruint primitives themselves (external crate, taken as axioms); equality with unbounded-integer arithmetic is derived from those axioms, not computed',
    'explanation': 'Path enumeration with partial evaluation of each handler; canonical terms over the popped operands; truth-table comparison against reference expressions; abstract-cell evaluation of the signed helpers with models for sign tests.',
}

A = 'revm_interpreter::instructions::'
I = A + 'i256::'
STK = isummary.STACK
M256 = (1 << 256) - 1
MIN = 1 << 255

# opcode byte -> reference (atoms builder, expected builder); a = mu_s[0] (top), b = mu_s[1], c = mu_s[2]
COMM = {'add', 'mul', 'and', 'or', 'xor', 'eq'}
PRIMS = {
    'wrapping_add': 'add', 'Add::add': 'add', 'wrapping_mul': 'mul', 'Mul::mul': 'mul', 'wrapping_sub': 'sub', 'Sub::sub': 'sub',
    'wrapping_div': 'div', 'Div::div': 'div', 'wrapping_rem': 'rem', 'Rem::rem': 'rem', 'add_mod': 'addmod', 'mul_mod': 'mulmod',
    'pow': 'pow', 'wrapping_pow': 'pow', 'PartialOrd::lt': 'lt', 'PartialOrd::gt': 'gt', 'PartialOrd::le': 'le', 'PartialOrd::ge': 'ge',
    'PartialEq::eq': 'eq', 'PartialEq::ne': 'ne', 'is_zero': 'iszero', 'BitAnd::bitand': 'and', 'BitOr::bitor': 'or', 'BitXor::bitxor': 'xor',
    'Not::not': 'not', 'Shl::shl': 'shl', 'Shr::shr': 'shr', 'arithmetic_shr': 'sar', 'bit': 'bit', 'byte': 'byte_le',
    'wrapping_neg': 'neg', 'Neg::neg': 'neg', 'Ord::cmp': 'ucmp',
    'i256_div': 'i256_div', 'i256_mod': 'i256_mod', 'i256_cmp': 'i256_cmp', 'i256_sign': 'i256_sign',
}
BIN = {'Add': 'add', 'Sub': 'sub', 'Mul': 'mul', 'BitAnd': 'and', 'BitOr': 'or', 'BitXor': 'xor', 'Shl': 'shl', 'Shr': 'shr',
       'Lt': 'lt', 'Le': 'le', 'Gt': 'gt', 'Ge': 'ge', 'Eq': 'eq', 'Ne': 'ne', 'Div': 'div', 'Rem': 'rem'}


def k(n):
    return ('k', n)


def mk(op, *args):
    """canonical term constructor with the normalisations shared by extraction and reference"""
    args = list(args)
    if op == 'gt':
        return mk('lt', args[1], args[0])
    if op == 'ge':
        return mk('le', args[1], args[0])
    if op == 'le' and args[1][0] == 'k':
        return mk('lt', args[0], k(args[1][1] + 1))
    if op == 'ne':
        return mk('not', mk('eq', *args))
    if op in COMM:
        args.sort(key=repr)
    if all(a[0] == 'k' for a in args):
        v = [a[1] for a in args]
        if op == 'lt':
            return k(int(v[0] < v[1]))
        if op == 'eq':
            return k(int(v[0] == v[1]))
        if op == 'add':
            return k(v[0] + v[1])
        if op == 'mul':
            return k(v[0] * v[1])
        if op == 'sub' and v[0] >= v[1]:
            return k(v[0] - v[1])
        if op == 'not' and v[0] in (0, 1):
            return k(1 - v[0])
        if op == 'neg':
            return k((-v[0]) & M256)
    if op == 'not' and args[0][0] == 'op' and args[0][1] == 'not':
        return args[0][2]
    if op == 'and':
        # hi0(x): limbs 1..3 of x are all zero (as_u64_saturated / as_usize_saturated)
        flat = []
        for a in args:
            if a[0] == 'op' and a[1] == 'andlist':
                flat += list(a[2:])
            else:
                flat.append(a)
        if all(f[0] == 'op' and f[1] == 'eq' and k(0) in f[2:] for f in flat):
            limbs = {}
            for f in flat:
                o = [x for x in f[2:] if x != k(0)]
                if len(o) == 1 and o[0][0] == 'op' and o[0][1] == 'limb':
                    limbs.setdefault(o[0][3], set()).add(o[0][2])
            if len(limbs) == 1:
                x, idx = list(limbs.items())[0]
                if idx == {1, 2, 3}:
                    return ('op', 'hi0', x)
                if idx <= {1, 2, 3} and len(flat) == len(idx):
                    return ('op', 'andlist') + tuple(sorted(flat, key=repr))
    return ('op', op) + tuple(args)


def sym(n):
    return ('v', n)


class Canon:
    """symx value -> canonical term over the operand symbols"""

    def __init__(self, names=None):
        self.unknown = []
        self.names = names or {}

    def stack_sym(self, v):
        # by-value results of the pop helpers
        if v[0] == 'proj' and v[1][0] == 'call' and v[1][1].startswith(STK):
            short = v[1][1][len(STK):]
            path = v[2]
            if short == 'pop_top_unsafe' and path == ('.0',):
                return sym('a')
            if short == 'pop2_top_unsafe' and path in (('.0',), ('.1',)):
                return sym('ab'[int(path[0][1:])])
        if v[0] == 'sym' and len(v) == 3 and v[1] == 'deref':
            x = v[2]
            if x[0] == 'proj' and x[1][0] == 'call' and x[1][1].startswith(STK):
                short = x[1][1][len(STK):]
                if short == 'pop_top_unsafe' and x[2] == ('.1',):
                    return sym('b')
                if short == 'pop2_top_unsafe' and x[2] == ('.2',):
                    return sym('c')
            if x[0] == 'call' and x[1] == STK + 'top_unsafe':
                return sym('a')
        return None

    def c(self, v):
        s = self.stack_sym(v)
        if s is not None:
            return s
        t = v[0]
        if t == 'valref':
            return self.c(v[1])
        if t == 'k':
            return k(int(v[1]))
        if t == 'sym':
            if len(v) == 2:
                nm = str(v[1])
                if nm in self.names:
                    return self.names[nm]
                if nm.endswith('Uint::ZERO'):
                    return k(0)
                if nm.endswith('Uint::MAX'):
                    return k(M256)
            if len(v) == 3 and v[1] == 'deref':
                inner = self.c(v[2])
                if inner[0] == 'op' and inner[1] in ('limbs',):
                    return inner
                return inner if inner[0] in ('v', 'enum', 'k') else ('op', 'deref', inner)
        if t == 'ref':
            if v[1][0] == 'arg' and not v[2]:
                return self.names.get('arg%d' % v[1][1], ('v', 'arg%d' % v[1][1]))
        if t == 'agg':
            head = v[1]
            if head.startswith('ruint::Uint') and len(v[4]) == 1:
                limbs = v[4][0]
                if limbs[0] == 'agg' and all(x[0] == 'k' for x in limbs[4]):
                    n = 0
                    for i, x in enumerate(limbs[4]):
                        n |= int(x[1]) << (64 * i)
                    return k(n)
            if not v[4]:
                return ('enum', head.split('::')[-1], v[2])
        if t == 'cast':
            return self.c(v[2])
        if t == 'un':
            if v[1] == 'Not':
                return mk('not', self.c(v[2]))
            if v[1] == 'Neg':
                return mk('neg', self.c(v[2]))
        if t == 'bin' and v[1] in BIN:
            return mk(BIN[v[1]], self.c(v[2]), self.c(v[3]))
        if t == 'proj':
            base = self.c(v[1])
            path = v[2]
            if base[0] == 'op' and base[1] in ('limbs',) and len(path) == 1 and path[0].startswith('[') and path[0][1:-1].isdigit():
                return ('op', 'limb', int(path[0][1:-1]), base[2])
            if path[:1] == ('.limbs',) and len(path) == 2 and path[1][1:-1].isdigit():
                return ('op', 'limb', int(path[1][1:-1]), base)
        if t == 'with':
            base = self.c(v[1])
            mods = v[2]
            if len(mods) == 1 and tuple(mods[0][0]) == ('.limbs', '[3]'):
                val = self.c(mods[0][1])
                if val == mk('and', ('op', 'limb', 3, base), k((1 << 63) - 1)):
                    return ('op', 'remove_sign', base)
        if t == 'call':
            name = v[1]
            short2 = '::'.join(name.split('::')[-2:])
            short1 = name.split('::')[-1]
            if short1 == 'unwrap_or' and v[2] and v[2][0][0] == 'call' and v[2][0][1].endswith('try_from') and self.c(v[2][1]) == k((1 << 64) - 1):
                # usize::try_from(u64).unwrap_or(usize::MAX): the identity on a 64-bit target
                return self.c(v[2][0][2][0])
            args = [self.c(a) for a in v[2]]
            if short1 == 'as_limbs':
                return ('op', 'limbs', args[0])
            op = PRIMS.get(short2) or PRIMS.get(short1)
            if op is not None:
                return mk(op, *args)
        self.unknown.append(render(v)[:120])
        return ('?', render(v)[:80])


def show(t):
    if t[0] == 'k':
        n = t[1]
        if n == M256:
            return 'MAX'
        if n == MIN:
            return 'MIN'
        return str(n)
    if t[0] == 'v':
        return t[1]
    if t[0] == 'enum':
        return '%s::%s' % (t[1], t[2])
    if t[0] == 'op':
        return '%s(%s)' % (t[1], ', '.join(show(x) if isinstance(x, tuple) else str(x) for x in t[2:]))
    return str(t)


def subst(t, fn):
    """bottom-up rewrite"""
    if t[0] == 'op':
        args = [subst(x, fn) if isinstance(x, tuple) else x for x in t[2:]]
        if t[1] in ('limb',):
            t2 = ('op', t[1]) + tuple(args)
        else:
            t2 = mk(t[1], *args)
    else:
        t2 = t
    r = fn(t2)
    return t2 if r is None else r


# ------------------------------------------------------------------------------ reference

def a_():
    return sym('a')


def b_():
    return sym('b')


def c_():
    return sym('c')


def limb0(x):
    return ('op', 'limb', 0, x)


def ref_simple(expr):
    return ([], lambda asg: expr)


def ref_div(op):
    z = mk('iszero', b_())
    return ([z], lambda asg: k(0) if asg[z] else mk(op, a_(), b_()))


def ref_shift(op, bound, sar=False):
    h = ('op', 'hi0', a_())
    lo = mk('lt', limb0(a_()), k(bound))
    n = mk('bit', b_(), k(255))
    atoms = [h, lo] + ([n] if sar else [])

    def f(asg):
        if asg[h] and asg[lo]:
            if op == 'byte':
                return mk('byte_le', b_(), mk('sub', k(31), limb0(a_())))
            return mk(op, b_(), limb0(a_()))
        if sar and asg[n]:
            return k(M256)
        return k(0)
    return (atoms, f)


def ref_signextend(bound):
    e = mk('lt', a_(), k(bound))
    idx = mk('add', mk('mul', k(8), limb0(a_())), k(7))
    bit = mk('bit', b_(), idx)
    mask = mk('sub', mk('shl', k(1), idx), k(1))

    def f(asg):
        if not asg[e]:
            return b_()
        if asg[bit]:
            return mk('or', b_(), mk('not', mask))
        return mk('and', b_(), mask)
    return ([e, bit], f)


def reference(byte, atoms_seen):
    nm = REF.OPCODES[byte][0]
    a, b, c = a_(), b_(), c_()
    simple = {
        'ADD': mk('add', a, b), 'MUL': mk('mul', a, b), 'SUB': mk('sub', a, b),
        'SDIV': mk('i256_div', a, b), 'SMOD': mk('i256_mod', a, b),
        'ADDMOD': mk('addmod', a, b, c), 'MULMOD': mk('mulmod', a, b, c), 'EXP': mk('pow', a, b),
        'LT': mk('lt', a, b), 'GT': mk('gt', a, b), 'EQ': mk('eq', a, b), 'ISZERO': mk('iszero', a),
        'SLT': mk('eq', mk('i256_cmp', a, b), ('enum', 'Ordering', 'Less')),
        'SGT': mk('eq', mk('i256_cmp', a, b), ('enum', 'Ordering', 'Greater')),
        'AND': mk('and', a, b), 'OR': mk('or', a, b), 'XOR': mk('xor', a, b), 'NOT': mk('not', a),
    }
    if nm in simple:
        return ref_simple(simple[nm])
    if nm == 'DIV':
        return ref_div('div')
    if nm == 'MOD':
        return ref_div('rem')
    if nm == 'SHL':
        return ref_shift('shl', 256)
    if nm == 'SHR':
        return ref_shift('shr', 256)
    if nm == 'SAR':
        return ref_shift('sar', 256, sar=True)
    if nm == 'BYTE':
        return ref_shift('byte', 32)
    if nm == 'SIGNEXTEND':
        # x >= 31 leaves y unchanged (for x = 31 the extension is the identity): 31 and 32 are both exact
        bound = 32 if mk('lt', a, k(32)) in atoms_seen else 31
        return ref_signextend(bound)
    return None


ARITH = ['ADD', 'MUL', 'SUB', 'DIV', 'SDIV', 'MOD', 'SMOD', 'ADDMOD', 'MULMOD', 'EXP', 'SIGNEXTEND', 'LT', 'GT', 'SLT', 'SGT', 'EQ',
         'ISZERO', 'AND', 'OR', 'XOR', 'NOT', 'BYTE', 'SHL', 'SHR', 'SAR']


def run(ctx, rep):
    fx = ctx.facts('default')
    r = c05.read_instruction_table(fx, rep)
    if r is None:
        return
    table, default = r
    byname = {v[0]: b for b, v in REF.OPCODES.items()}
    spec = c05_spec(fx)
    n = 0
    for nm in ARITH:
        b = byname[nm]
        ent = table[b]
        if ent is None or ent == default:
            rep.violation('R1-gas-arity', nm, 'opcode %s has no handler in the instruction table' % nm)
            continue
        hname, fargs = ent
        h = fx.fns.get(hname)
        rep.fn(h)
        check_gas_arity(fx, rep, nm, b, hname, fargs, h, spec)
        check_expression(fx, rep, nm, b, hname, fargs, h)
        n += 1
    rep.floor('arithmetic-opcodes', n, 25)
    check_sign(fx, rep)
    check_cmp(fx, rep)
    check_divmod(fx, rep, 'i256_div')
    check_divmod(fx, rep, 'i256_mod')
    # the gas EXP charges is exp_cost(spec, exponent): its table per fork and log2floor (C14's rules)
    import engine
    import c14
    c14.run_exp(ctx, engine.SubReport(rep, 'C14'))
    rep.assume('ruint primitives (wrapping_add/sub/mul/div/rem, add_mod, mul_mod, pow, <<, >>, arithmetic_shr, bit, byte, wrapping_neg, cmp) compute what their documentation states; usize is 64 bits')


def c05_spec(fx):
    import tables
    return tables.SpecInfo(fx)


def check_gas_arity(fx, rep, nm, b, hname, fargs, h, spec):
    _name, fork, delta, alpha, gas, flags = REF.OPCODES[b]
    s = isummary.summarize(fx, hname, fargs)
    where = h.where() if h else None
    if s.undecided:
        rep.undecided('R1-gas-arity', nm, s.undecided, where)
        return
    effs = {(x['removed'], x['added']) for x in s.success}
    if effs != {(delta, alpha)} or any(x['dynamic'] for x in s.success):
        rep.violation('R1-gas-arity', nm + ':arity', '%s removes/adds %s stack items, the specification says (%d, %d)' % (nm, sorted(effs), delta, alpha), where)
        return
    if nm == 'EXP':
        ok = all(len(x['gas_src']) == 1 and 'exp_cost' in x['gas_src'][0] for x in s.success)
        if not ok:
            rep.violation('R1-gas-arity', nm + ':gas', 'EXP must charge exactly exp_cost(spec, exponent); charges %s' % [x['gas_src'] for x in s.success][:2], where)
            return
    else:
        charges = {tuple(x['gas']) for x in s.success}
        if charges != {(gas,)}:
            rep.violation('R1-gas-arity', nm + ':gas', '%s charges %s, the fee schedule says %d' % (nm, sorted(charges, key=str), gas), where)
            return
    # fork gate
    if fork != 'FRONTIER':
        ids = spec.discr
        before = max(v for k_, v in ids.items() if v < ids[fork])
        s0 = isummary.summarize(fx, hname, fargs, spec=before)
        s1 = isummary.summarize(fx, hname, fargs, spec=ids[fork])
        if s0.success or s0.errors != {'NotActivated'} or not s1.success:
            rep.violation('R1-gas-arity', nm + ':gate', '%s must halt with NotActivated before %s and run from it on (before: %d success paths, errors %s; at: %d)' % (
                nm, fork, len(s0.success), sorted(s0.errors), len(s1.success)), where)
            return
    else:
        s0 = isummary.summarize(fx, hname, fargs, spec=0)
        if not s0.success or 'NotActivated' in s0.errors:
            rep.violation('R1-gas-arity', nm + ':gate', '%s is a FRONTIER opcode but is gated' % nm, where)
            return
    rep.ok('R1-gas-arity', nm, '(%d,%d) gas %s' % (delta, alpha, gas), nontrivial=True)


IGNORED_LIT = ('record_cost', 'Stack::len', 'exp_cost')


def handler_paths(fx, hname, fargs):
    f = fx.fns[hname]
    cp = {k_: K(int(v)) for k_, v in c05.const_params_of(fx, hname, fargs).items()}
    return Symx(fx, spec=255, max_paths=2000, snapshot_refs=True).run(f, cparams=cp)


def check_expression(fx, rep, nm, b, hname, fargs, h):
    where = h.where()
    try:
        rs = handler_paths(fx, hname, fargs)
    except Budget:
        rep.undecided('R2-expression', nm, 'path budget', where)
        return
    default_top = {1: sym('a'), 2: sym('b'), 3: sym('c')}[REF.OPCODES[b][2]]
    rows = []
    unknown = []
    for p in rs:
        if any(kk[1][-1:] == ('.instruction_result',) for kk in p.stores) or p.cut:
            continue
        cn = Canon()
        lits = {}
        feasible = True
        for (sv, lit, _f, _b) in p.lits:
            r_ = render(sv)
            if any(x in r_ for x in ('record_cost', 'exp_cost')) or 'len(' in r_[:12] or r_.startswith('Lt(len('):
                continue
            tv = lit_truth(lit)
            t = cn.c(sv)
            if tv is None:
                unknown.append('non-boolean branch on %s' % r_[:80])
                continue
            if t[0] == 'op' and t[1] == 'not':
                t, tv = t[2], not tv
            if t[0] == 'k':
                if bool(t[1]) != tv:
                    feasible = False
                continue
            if t in lits and lits[t] != tv:
                feasible = False
            lits[t] = tv
        if not feasible:
            continue
        outs = [v for kk, v in p.stores.items() if kk[0][0] == 'deref']
        if len(outs) > 1:
            unknown.append('several writes through the top reference')
            continue
        res = cn.c(outs[0]) if outs else default_top
        if nm == 'EXP':
            # the dynamic gas is computed from the exponent mu_s[1]
            ec = [e for e in p.events if e[0].endswith('::exp_cost')]
            if len(ec) != 1 or cn.c(ec[0][1][1]) != sym('b'):
                rep.violation('R2-expression', 'EXP:gas-operand', 'EXP computes its gas from %s, the fee schedule uses the exponent (second operand)' % (
                    [show(cn.c(e[1][1])) for e in ec] or 'no exp_cost call'), where)
                return
        unknown += cn.unknown
        rows.append((lits, res))
    if unknown:
        rep.undecided('R2-expression', nm, 'unrecognised construct: %s' % sorted(set(unknown))[:2], where)
        return
    seen = set()
    for lits, _ in rows:
        seen |= set(lits)
    ref = reference(b, seen)
    atoms, expected = ref
    extra = seen - set(atoms)
    if extra:
        rep.violation('R2-expression', nm + ':guard', '%s decides on %s, which the definition of %s does not depend on (expected guards: %s)' % (
            nm, sorted(show(x) for x in extra), nm, [show(x) for x in atoms] or 'none'), where)
        return
    cells = 0
    for vals in itertools.product((True, False), repeat=len(atoms)):
        asg = dict(zip(atoms, vals))
        if not feasible_ref(asg):
            continue
        got = {simplify(res, asg) for lits, res in rows if all(asg[t] == v for t, v in lits.items())}
        want = simplify(expected(asg), asg)
        cells += 1
        if got != {want}:
            rep.violation('R2-expression', nm + ':value', '%s leaves %s on the stack when %s; the definition gives %s' % (
                nm, sorted(show(g) for g in got) or 'nothing', ', '.join('%s=%s' % (show(t), v) for t, v in asg.items()) or 'always', show(want)), where)
            return
    rep.ok('R2-expression', nm, '%s over %d guard cell(s)' % (show(expected({t: True for t in atoms})), cells), nontrivial=True)


def feasible_ref(asg):
    return True


def simplify(t, asg):
    zero = {x[2] for x, v in asg.items() if v and x[0] == 'op' and x[1] == 'iszero'}

    def rw(u):
        if u in zero:
            return k(0)
        return None
    return subst(t, rw)


# ------------------------------------------------------------------------------ signed helpers

SIGN = I + 'Sign'


def sign_agg(fx, variant):
    return ('agg', SIGN, variant, (), ())


def find_names(fx, fns, suffixes):
    """exact callee names (declared and resolved) used by `fns` whose last path segments match"""
    out = {}
    for fq in fns:
        f = fx.fns.get(fq)
        if f is None:
            continue
        for _, t in f.calls():
            for nmx in t.names():
                for suf in suffixes:
                    if nmx.endswith(suf):
                        out.setdefault(suf, set()).add(nmx)
    return out


def check_sign(fx, rep):
    f = fx.fns.get(I + 'i256_sign')
    if f is None:
        rep.undecided('R3-signed', 'i256_sign', 'not found')
        return
    rep.fn(f)
    discr = {v['name']: v.get('discr') for v in fx.adts.get(SIGN, {}).get('variants', [])} if hasattr(fx, 'adts') else {}
    names = find_names(fx, [f.nq], ['::bit', '::is_zero'])
    for bit255, zero in ((1, 0), (0, 1), (0, 0)):
        models = {}
        for nmx in names.get('::bit', ()):
            models[nmx] = lambda self, args, t, v=bit255: K(v) if args[1] == K(255) else None
        for nmx in names.get('::is_zero', ()):
            models[nmx] = lambda self, args, t, v=zero: K(v)
        try:
            rs = Symx(fx, models=models, max_paths=200).run(f)
        except Budget:
            rep.undecided('R3-signed', 'i256_sign', 'budget', f.where())
            return
        want = 'Minus' if bit255 else ('Zero' if zero else 'Plus')
        got = set()
        for p in rs:
            r_ = p.ret
            if r_[0] == 'agg':
                got.add(r_[2])
            elif r_[0] == 'k':
                got.add(fx.variant_by_discr(SIGN, signed8(r_[1])) or 'discr=%s' % r_[1])
            elif r_[0] == 'cast' and r_[2][0] == 'k':
                got.add(fx.variant_by_discr(SIGN, signed8(r_[2][1])) or 'discr=%s' % r_[2][1])
            else:
                got.add(render(r_)[:60])
        key = 'i256_sign:bit255=%d,zero=%d' % (bit255, zero)
        if got == {want}:
            rep.ok('R3-signed', key, want)
        else:
            rep.violation('R3-signed', key, 'i256_sign returns %s for a value with bit255=%d, zero=%d; expected %s' % (sorted(got), bit255, zero, want), f.where())
    # the order of the Sign discriminants is what derive(Ord) compares
    d = {v: fx.discr_of(SIGN, v) for v in ('Minus', 'Zero', 'Plus')}
    if None in d.values() or not (signed8(d['Minus']) < signed8(d['Zero']) < signed8(d['Plus'])):
        rep.violation('R3-signed', 'Sign:order', 'Sign discriminants are %s; derive(Ord) must order Minus < Zero < Plus' % d)
    else:
        rep.ok('R3-signed', 'Sign:order', 'Minus < Zero < Plus')


def signed8(v):
    if v is None:
        return None
    v = int(v)
    if v >= 128 and v < 256:
        return v - 256
    if v >= (1 << 127):
        return v - (1 << 128)
    return v


ORDER = {'Minus': -1, 'Zero': 0, 'Plus': 1}


class Cell:
    def __init__(self, s1, s2, m1=False, o2=False):
        self.s1, self.s2, self.m1, self.o2 = s1, s2, m1, o2

    def mag(self, which):
        s = self.s1 if which == 'a' else self.s2
        return mk('neg', sym(which)) if s == 'Minus' else sym(which)

    def __str__(self):
        return 'sign(a)=%s,sign(b)=%s%s%s' % (self.s1, self.s2, ',|a|=2^255' if self.m1 else '', ',|b|=1' if self.o2 else '')


def helper_models(fx, fq, cell, problems):
    cn = Canon({'arg1': sym('a'), 'arg2': sym('b')})
    names = find_names(fx, [fq, I + 'i256_sign_compl', I + 'u256_remove_sign', I + 'two_compl', I + 'two_compl_mut'],
                       ['i256_sign', 'PartialEq::eq', 'PartialEq::ne', 'Ord::cmp', 'as_limbs_mut', '>::eq', '>::ne', '>::cmp'])

    def m_sign(self, args, t):
        x = cn.c(args[0])
        if x == sym('a'):
            return sign_agg(fx, cell.s1)
        if x == sym('b'):
            return sign_agg(fx, cell.s2)
        problems.append('i256_sign applied to %s' % show(x))
        return None

    def eq_val(args):
        x, y = args
        vx = x[1] if x[0] == 'valref' else x
        vy = y[1] if y[0] == 'valref' else y
        if vx[0] == 'agg' and vy[0] == 'agg' and vx[1] == vy[1] == SIGN:
            return vx[2] == vy[2]
        cx, cy = cn.c(x), cn.c(y)
        pair = {cx, cy}
        if k(MIN) in pair and cell.mag('a') in pair:
            return cell.m1
        if k(1) in pair and cell.mag('b') in pair:
            return cell.o2
        return None

    def m_eq(self, args, t):
        r = eq_val(args)
        return None if r is None else K(int(r))

    def m_ne(self, args, t):
        r = eq_val(args)
        return None if r is None else K(int(not r))

    def m_cmp(self, args, t):
        x, y = args
        vx = x[1] if x[0] == 'valref' else x
        vy = y[1] if y[0] == 'valref' else y
        if vx[0] == 'agg' and vy[0] == 'agg' and vx[1] == vy[1] == SIGN:
            dx, dy = signed8(fx.discr_of(SIGN, vx[2])), signed8(fx.discr_of(SIGN, vy[2]))
            return ('agg', 'core::cmp::Ordering', 'Less' if dx < dy else ('Greater' if dx > dy else 'Equal'), (), ())
        return None

    def m_limbs_mut(self, args, t):
        a0 = args[0]
        if a0[0] == 'ref':
            return ('ref', a0[1], tuple(a0[2]) + ('.limbs',))
        return None

    models = {}
    for suf, fn_ in (('i256_sign', m_sign), ('PartialEq::eq', m_eq), ('>::eq', m_eq), ('PartialEq::ne', m_ne), ('>::ne', m_ne),
                     ('Ord::cmp', m_cmp), ('>::cmp', m_cmp), ('as_limbs_mut', m_limbs_mut)):
        for nmx in names.get(suf, ()):
            if suf == 'i256_sign' and not nmx.endswith('::i256_sign'):
                continue
            models[nmx] = fn_
    return models, cn


HELPER_INLINE = {I + x for x in ('i256_sign_compl', 'two_compl_mut', 'two_compl', 'u256_remove_sign')}


def eval_cell(fx, f, cell):
    problems = []
    models, cn = helper_models(fx, f.nq, cell, problems)
    rs = Symx(fx, models=models, inline=HELPER_INLINE, max_paths=500, snapshot_refs=True, pure={'core::cmp::Ord::cmp'}).run(f)
    outs = set()
    for p in rs:
        open_lits = [render(l[0])[:80] for l in p.lits]
        if open_lits:
            problems.append('undetermined branch on %s' % open_lits[0])
        outs.add(cn.c(p.ret))
    problems += cn.unknown
    return outs, problems


def check_cmp(fx, rep):
    f = fx.fns.get(I + 'i256_cmp')
    if f is None:
        rep.undecided('R3-signed', 'i256_cmp', 'not found')
        return
    rep.fn(f)
    n = 0
    for s1 in ORDER:
        for s2 in ORDER:
            cell = Cell(s1, s2)
            try:
                outs, problems = eval_cell(fx, f, cell)
            except Budget:
                rep.undecided('R3-signed', 'i256_cmp', 'budget', f.where())
                return
            key = 'i256_cmp:%s' % cell
            if problems:
                rep.undecided('R3-signed', key, problems[0], f.where())
                continue
            if ORDER[s1] < ORDER[s2]:
                want = {('enum', 'Ordering', 'Less')}
            elif ORDER[s1] > ORDER[s2]:
                want = {('enum', 'Ordering', 'Greater')}
            else:
                # same sign: two's complement order coincides with the unsigned order
                want = {mk('ucmp', sym('a'), sym('b'))}
                if s1 == 'Zero':
                    want = {mk('ucmp', sym('a'), sym('b')), ('enum', 'Ordering', 'Equal')}
            n += 1
            if len(outs) == 1 and outs <= want:
                rep.ok('R3-signed', key, show(list(outs)[0]))
            else:
                rep.violation('R3-signed', key, 'i256_cmp returns %s for %s; signed comparison gives %s' % (sorted(show(o) for o in outs), cell, sorted(show(w) for w in want)), f.where())
    rep.floor('i256_cmp-cells', n, 9)


def check_divmod(fx, rep, which):
    f = fx.fns.get(I + which)
    if f is None:
        rep.undecided('R3-signed', which, 'not found')
        return
    rep.fn(f)
    op = 'div' if which == 'i256_div' else 'rem'
    n = 0
    for s1 in ORDER:
        for s2 in ORDER:
            for m1 in ((True, False) if (s1 == 'Minus' and op == 'div') else (False,)):
                for o2 in ((True, False) if (s2 != 'Zero' and op == 'div') else (False,)):
                    cell = Cell(s1, s2, m1, o2)
                    key = '%s:%s' % (which, cell)
                    try:
                        outs, problems = eval_cell(fx, f, cell)
                    except Budget:
                        rep.undecided('R3-signed', key, 'budget', f.where())
                        continue
                    if problems:
                        rep.undecided('R3-signed', key, problems[0], f.where())
                        continue
                    Am, Bm = cell.mag('a'), cell.mag('b')
                    if s2 == 'Zero':
                        want = k(0)
                    elif op == 'div' and m1 and o2:
                        want = k(MIN)
                    elif s1 == 'Zero':
                        want = k(0)
                    elif op == 'div':
                        q = mk('div', Am, Bm)
                        want = mk('neg', q) if (s1 == 'Minus') != (s2 == 'Minus') else q
                    else:
                        q = mk('rem', Am, Bm)
                        want = mk('neg', q) if s1 == 'Minus' else q
                    got = {simplify_signed(o, cell) for o in outs}
                    n += 1
                    if got == {want}:
                        rep.ok('R3-signed', key, show(want))
                    else:
                        rep.violation('R3-signed', key, '%s returns %s for %s; two\'s-complement %s gives %s' % (
                            which, sorted(show(g) for g in got), cell, 'division' if op == 'div' else 'remainder', show(want)), f.where())
    rep.floor(which + '-cells', n, 9)


def simplify_signed(t, cell):
    zero = set()
    if cell.s1 == 'Zero':
        zero.add(sym('a'))
    if cell.s2 == 'Zero':
        zero.add(sym('b'))

    def rw(u):
        if u in zero:
            return k(0)
        if u[0] == 'op':
            if u[1] in ('div', 'rem') and u[2] == k(0):
                return k(0)          # 0 / x = 0 % x = 0 (x != 0 on these paths)
            if u[1] == 'neg' and u[2] == k(0):
                return k(0)
            if u[1] == 'remove_sign':
                x = u[2]
                if x == k(0):
                    return k(0)
                if x[0] == 'op' and x[1] == 'rem':
                    return x         # |a| % |b| < |b| <= 2^255: bit 255 is clear
                if x[0] == 'op' and x[1] == 'div' and not (cell.m1 and cell.o2):
                    return x         # |a| / |b| < 2^255 unless |a| = 2^255 and |b| = 1
        return None
    return subst(t, rw)
