"""C27 — stored bytecode keeps its original bytes and hash (accessor tables and constructors).

R1 accessor table over the four Bytecode variants x {original_byte_slice, original_bytes,
   bytes_slice, bytes, bytecode}: which stored field / helper each cell reads;
   LegacyAnalyzed originals are the padded buffer cut at original_len (`[..original_len]`);
R2 len = original_byte_slice().len(), is_empty = (len == 0);
   hash_slow = KECCAK_EMPTY if is_empty else keccak256(original_byte_slice()); KECCAK_EMPTY has the
   well-known value;
R3 to_analysed: original_len is the length of the raw input, the padded buffer is the raw bytes
   followed by zero bytes, non-raw variants are returned unchanged;
R4 EIP-7702 designator: new() builds ef01 || 00 || address (23 bytes) and records the address;
   new_raw() accepts exactly length 23, the magic, version 0 and takes the address from bytes 3..;
   new_raw_checked dispatches on the EOF and EIP-7702 magic prefixes, everything else stays raw.
"""
from symx import Symx, render, K, path_truth
from tables import match_table
from cfg import Origins
from c21 import const_bytes, KECCAK_EMPTY_BYTES

META = {
    'level': 'other',
    'decides': 'which stored bytes every accessor of every bytecode variant returns, the shape of len/is_empty/hash_slow, that analysis keeps the original length and only appends zero padding on every path for raw input (no shortcut results except for empty code), and the EIP-7702 designator layout and decoding guards',
    'does_not_decide': 'keccak256 itself; EOF container decoding (C26)',
    'explanation': 'Match-table extraction per enum variant (partial evaluation), expression shapes, value origins in to_analysed and the EIP-7702 constructors, const evaluation.',
}

B = 'revm_primitives::bytecode::Bytecode'
L = 'revm_primitives::bytecode::legacy::LegacyAnalyzedBytecode'
E = 'revm_primitives::eip7702::bytecode::'

# expected fragment per (accessor, variant): all fragments must occur in the rendered leaf
ACCESSORS = {
    'original_byte_slice': {'LegacyRaw': ['@LegacyRaw.0'], 'LegacyAnalyzed': ['LegacyAnalyzedBytecode::original_byte_slice'],
                            'Eof': ['Eof::raw'], 'Eip7702': ['Eip7702Bytecode::raw']},
    'original_bytes': {'LegacyRaw': ['f_0'], 'LegacyAnalyzed': ['original_bytes('], 'Eof': ['raw('], 'Eip7702': ['raw(']},
    'bytes_slice': {'LegacyRaw': ['Bytecode::original_byte_slice'], 'LegacyAnalyzed': ['LegacyAnalyzedBytecode::bytecode'],
                    'Eof': ['Bytecode::original_byte_slice'], 'Eip7702': ['Bytecode::original_byte_slice']},
    'bytecode': {'LegacyRaw': ['@LegacyRaw.0'], 'LegacyAnalyzed': ['LegacyAnalyzedBytecode::bytecode'], 'Eof': ['EofBody::code'],
                 'Eip7702': ['Eip7702Bytecode::raw']},
}


def full(sv):
    """render without truncation, with full callee names"""
    k = sv[0]
    if k == 'call':
        return '%s(%s)' % (sv[1], ','.join(full(a) for a in sv[2]))
    if k in ('ref',):
        return '&%s%s' % (full(sv[1]) if isinstance(sv[1], tuple) and sv[1] and sv[1][0] in ('deref',) else sv[1], ''.join(sv[2]))
    if k == 'deref':
        return 'deref(%s)' % full(sv[1])
    if k == 'proj':
        return full(sv[1]) + ''.join(sv[2])
    if k == 'agg':
        return '%s::%s{%s}' % (sv[1], sv[2], ','.join(full(x) for x in sv[4]))
    if k == 'sym' and len(sv) == 3:
        return 'deref(%s)' % full(sv[2])
    return render(sv)


def run(ctx, rep):
    fx = ctx.facts('default')
    cells = 0
    for acc, exp in ACCESSORS.items():
        f = fx.fns.get(B + '::' + acc)
        if f is None:
            rep.undecided('R1-accessor-table', acc, 'not found')
            continue
        rep.fn(f)
        tb = match_table(fx, f, B)
        for variant, frags in exp.items():
            cells += 1
            sv = tb.get(variant)
            key = '%s:%s' % (acc, variant)
            if sv is None:
                rep.undecided('R1-accessor-table', key, 'cell not a single leaf', f.where())
                continue
            txt = full(sv)
            if all(fr in txt for fr in frags):
                rep.ok('R1-accessor-table', key, frags)
            else:
                rep.violation('R1-accessor-table', key, 'Bytecode::%s for %s returns %s, expected it to read %s' % (acc, variant, txt[:160], frags), f.where())
    rep.floor('accessor-cells', cells, 16)
    # `bytes`: analysed -> padded clone, everything else -> original_bytes
    f = fx.fns.get(B + '::bytes')
    if f is not None:
        rep.fn(f)
        tb = match_table(fx, f, B)
        ok = all(tb.get(v) is not None and ('original_bytes' in full(tb[v])) for v in ('LegacyRaw', 'Eof', 'Eip7702')) and \
            tb.get('LegacyAnalyzed') is not None and 'LegacyAnalyzedBytecode::bytecode' in full(tb['LegacyAnalyzed'])
        if ok:
            rep.ok('R1-accessor-table', 'bytes', 'padded bytes for analysed code, original bytes otherwise')
        else:
            rep.violation('R1-accessor-table', 'bytes', 'Bytecode::bytes table changed: %s' % {k: full(v)[:60] if v else None for k, v in tb.items()}, f.where())
    check_legacy(fx, rep)
    check_len_hash(fx, rep)
    check_to_analysed(fx, rep)
    check_7702(fx, rep)
    rep.assume('Bytes::slice / Index<RangeTo> return the prefix of the given length (bytes crate / std)')


def check_legacy(fx, rep):
    f = fx.fns.get(L + '::original_byte_slice')
    g = fx.fns.get(L + '::original_bytes')
    for fn, callee in ((f, 'Index::index'), (g, '::slice')):
        if fn is None:
            rep.undecided('R1-legacy-originals', callee, 'not found')
            continue
        rep.fn(fn)
        rs = Symx(fx).run(fn)
        ok = False
        if len(rs) == 1:
            txt = full(rs[0].ret)
            ok = callee in txt and '.bytecode' in txt and 'RangeTo' in txt and 'arg1.original_len' in txt
        if ok:
            rep.ok('R1-legacy-originals', fn.name, 'bytecode[..original_len]')
        else:
            rep.violation('R1-legacy-originals', fn.name, 'LegacyAnalyzedBytecode::%s is %s, expected the padded buffer cut at original_len' % (fn.name, [full(r.ret)[:160] for r in rs]), fn.where())


def check_len_hash(fx, rep):
    f = fx.fns.get(B + '::len')
    if f is not None:
        rep.fn(f)
        rs = Symx(fx).run(f)
        txt = full(rs[0].ret) if len(rs) == 1 else ''
        if 'len(' in txt and 'Bytecode::original_byte_slice' in txt:
            rep.ok('R2-len-hash', 'len', 'original_byte_slice().len()')
        else:
            rep.violation('R2-len-hash', 'len', 'Bytecode::len is %s' % txt[:160], f.where())
    f = fx.fns.get(B + '::is_empty')
    if f is not None:
        rep.fn(f)
        rs = Symx(fx, pure={B + '::len'}).run(f)
        ok = len(rs) == 1 and rs[0].ret[0] == 'bin' and rs[0].ret[1] == 'Eq' and K(0) in (rs[0].ret[2], rs[0].ret[3]) and 'len' in render(rs[0].ret)
        if ok:
            rep.ok('R2-len-hash', 'is_empty', 'len() == 0')
        else:
            rep.violation('R2-len-hash', 'is_empty', 'Bytecode::is_empty is %s' % [render(r.ret) for r in rs], f.where())
    f = fx.fns.get(B + '::hash_slow')
    if f is None:
        rep.undecided('R2-len-hash', 'hash_slow', 'not found')
        return
    rep.fn(f)
    rs = Symx(fx, pure={B + '::is_empty'}).run(f)
    good = {True: False, False: False}
    for p in rs:
        emp = None
        for (sv, lit, _f, _b) in p.lits:
            if sv[0] == 'call' and sv[1].endswith('Bytecode::is_empty'):
                emp = path_truth(p, sv)
        if emp is True:
            bs = const_bytes_sv(p.ret)
            good[True] = bs == KECCAK_EMPTY_BYTES
        elif emp is False:
            txt = full(p.ret)
            good[False] = 'keccak256(' in txt and 'Bytecode::original_byte_slice' in txt
    if all(good.values()):
        rep.ok('R2-len-hash', 'hash_slow', 'KECCAK_EMPTY if empty else keccak256(original_byte_slice())')
    else:
        rep.violation('R2-len-hash', 'hash_slow', 'hash_slow is not KECCAK_EMPTY / keccak256(original bytes): empty-case ok=%s, non-empty ok=%s' % (good[True], good[False]), f.where())
    v = fx.const_val('revm_primitives::utilities::KECCAK_EMPTY')
    if const_bytes(v) == KECCAK_EMPTY_BYTES:
        rep.ok('R2-len-hash', 'KECCAK_EMPTY', 'c5d246…a470')
    else:
        rep.violation('R2-len-hash', 'KECCAK_EMPTY', 'KECCAK_EMPTY does not equal keccak256 of the empty string')


def const_bytes_sv(sv):
    """flatten an aggregate of integer constants (FixedBytes) into bytes"""
    if sv[0] == 'k':
        return bytes([sv[1] & 0xff])
    if sv[0] == 'valref':
        return const_bytes_sv(sv[1])
    if sv[0] == 'agg':
        out = b''
        for x in sv[4]:
            b = const_bytes_sv(x)
            if b is None:
                return None
            out += b
        return out
    return None


def check_to_analysed(fx, rep):
    f = fx.fns.get('revm_interpreter::interpreter::analysis::to_analysed')
    if f is None:
        rep.undecided('R3-analysis-keeps-bytes', 'to_analysed', 'not found')
        return
    rep.fn(f)
    og = Origins(f, fx)
    ok_len = False
    ok_copy = False
    for bi, t in f.calls():
        tf = t.target_fn or t.callee or ''
        if tf.endswith('LegacyAnalyzedBytecode::new'):
            oo = og.of_operand(t.args[1])
            # original_len = bytecode.len() of the LegacyRaw payload
            for o in oo:
                if o.root[0] == 'call' and o.root[1].endswith('::len'):
                    tl = f.blocks[o.root[2]].term
                    src = og.of_operand(tl.args[0])
                    if all('@LegacyRaw' in ''.join(x.path) for x in src):
                        ok_len = True
                elif o.root[0] == 'agg':
                    # (bytes, len) tuple: second component
                    pass
            # every origin of original_len must be such a length of the raw payload
            for o in oo:
                if not (o.root[0] == 'call' and o.root[1].endswith('::len') and not o.path):
                    ok_len = False
                else:
                    src = og.of_operand(f.blocks[o.root[2]].term.args[0])
                    if not all('@LegacyRaw' in ''.join(x.path) for x in src):
                        ok_len = False
        if (t.callee or '').endswith('extend_from_slice'):
            src = og.of_operand(t.args[1])
            if all('@LegacyRaw' in ''.join(x.path) for x in src):
                ok_copy = True
    if ok_len and ok_copy:
        rep.ok('R3-analysis-keeps-bytes', 'to_analysed', 'original_len = raw.len(); buffer = raw bytes + zero padding (padding decided in C04 R4)')
    else:
        rep.violation('R3-analysis-keeps-bytes', 'to_analysed', 'to_analysed does not keep the raw bytes and their length (original_len ok=%s, copy of raw bytes ok=%s)' % (ok_len, ok_copy), f.where())
    # every raw input goes through that one construction (a shortcut result for particular byte
    # strings reports other original bytes); only the empty input may answer with Bytecode::new(),
    # which is the analysed form of empty code
    try:
        rs = Symx(fx, max_paths=2000).run(f)
    except Exception as e:            # Budget
        rs = None
        rep.undecided('R3-analysis-keeps-bytes', 'raw-paths', 'path budget (%s)' % e, f.where())
    if rs is not None:
        raw_discr = fx.discr_of(B, 'LegacyRaw')
        bad = None
        n_raw = 0
        for r in rs:
            lits = [(render(l[0]), l[1]) for l in r.lits]
            if ('discr(arg1)', ('eq', raw_discr)) not in lits:
                continue
            n_raw += 1
            ret = r.ret
            regular = ret[0] == 'agg' and ret[2] == 'LegacyAnalyzed' and ret[4] and ret[4][0][0] == 'call' and ret[4][0][1].endswith('LegacyAnalyzedBytecode::new')
            if regular:
                continue
            empty = any((t.startswith('Eq(PtrMetadata(') and t.endswith(', 0)') and lit[0] == 'ne') or
                        (t.startswith('is_empty(') and lit[0] == 'ne') for t, lit in lits)
            if empty and ret[0] == 'call' and ret[1].endswith('Bytecode::new') and not ret[2]:
                continue
            bad = 'a raw input is answered with %s instead of the analysed copy of its own bytes [%s]' % (render(ret)[:60], '; '.join('%s %s' % (t[:40], l) for t, l in lits[1:4]))
            break
        if n_raw == 0:
            rep.undecided('R3-analysis-keeps-bytes', 'raw-paths', 'no path for the LegacyRaw variant', f.where())
        elif bad:
            rep.violation('R3-analysis-keeps-bytes', 'raw-paths', 'to_analysed: ' + bad, f.where())
        else:
            rep.ok('R3-analysis-keeps-bytes', 'raw-paths', '%d paths, all through LegacyAnalyzedBytecode::new(buffer, raw.len(), jump table)' % n_raw)
    # other variants returned unchanged
    tb = match_table(fx, f, B)
    bad = [v for v in ('LegacyAnalyzed', 'Eof', 'Eip7702') if tb.get(v) is None or tb[v][0] != 'agg' or tb[v][2] != v]
    if bad:
        rep.violation('R3-analysis-keeps-bytes', 'other-variants', 'to_analysed changes already analysed / EOF / EIP-7702 bytecode: %s' % bad, f.where())
    else:
        rep.ok('R3-analysis-keeps-bytes', 'other-variants', 'returned unchanged')


def check_7702(fx, rep):
    magic = fx.const_val(E + 'EIP7702_MAGIC')
    ver = fx.const_val(E + 'EIP7702_VERSION')
    if magic == 0xEF01 and ver == 0:
        rep.ok('R4-eip7702', 'constants', 'magic ef01, version 0')
    else:
        rep.violation('R4-eip7702', 'constants', 'EIP7702_MAGIC=%s EIP7702_VERSION=%s' % (magic, ver))
    f = fx.fns.get(E + 'Eip7702Bytecode::new')
    if f is not None:
        rep.fn(f)
        rs = Symx(fx).run(f)
        ok = False
        if len(rs) == 1:
            ev = [(e[0].split('::')[-1], e[1]) for e in rs[0].events]
            names = [n for n, _ in ev]
            r = rs[0].ret
            addr_ok = r[0] == 'agg' and 'delegated_address' in r[3] and r[4][r[3].index('delegated_address')] == ('sym', 'arg1') and r[4][r[3].index('version')] == K(0)
            order = [n for n in names if n in ('to_vec', 'push', 'extend')]
            push_ver = any(n == 'push' and a[1] == K(0) for n, a in ev)
            ext_addr = any(n == 'extend' and 'local' in render(a[1]) or n == 'extend' for n, a in ev)
            ok = addr_ok and order == ['to_vec', 'push', 'extend'] and push_ver and ext_addr
        if ok:
            rep.ok('R4-eip7702', 'new', 'raw = MAGIC || VERSION || address; delegated_address = address')
        else:
            rep.violation('R4-eip7702', 'new', 'Eip7702Bytecode::new does not build ef01 || 00 || address', f.where())
    g = fx.fns.get(E + 'Eip7702Bytecode::new_raw')
    if g is not None:
        rep.fn(g)
        from ruletable import rule_table
        import ruletable as rt
        old = rt.NUMERIC_CONSTS
        rt.NUMERIC_CONSTS = True
        try:
            table, common = rule_table(fx, g, 'Eip7702DecodeError')
        finally:
            rt.NUMERIC_CONSTS = old
        want = {'InvalidLength': 'ne(23,len(', 'InvalidMagic': 'starts_with', 'UnsupportedVersion': 'ne(0,'}
        for v, frag in want.items():
            lits = [l for ls, _ in table.get(v, []) for l in ls]
            if any(frag in l for l in lits):
                rep.ok('R4-eip7702', 'new_raw:' + v, [l for l in lits if frag in l][0][:80])
            else:
                rep.violation('R4-eip7702', 'new_raw:' + v, 'new_raw does not reject with %s under the expected test (%s); guards: %s' % (v, frag, lits), g.where())
        # address = raw[3..]
        og = Origins(g, fx)
        ok = False
        for b in g.blocks:
            for s in b.stmts:
                if s.kind == 'assign' and s.rv.rv == 'agg' and s.rv.d.get('adt', '').endswith('range::RangeFrom'):
                    if all(o.root[0] == 'const' and o.root[1] == 3 for o in og.of_operand(s.rv.ops[0])):
                        ok = True
        if ok:
            rep.ok('R4-eip7702', 'new_raw:address', 'raw[3..]')
        else:
            rep.violation('R4-eip7702', 'new_raw:address', 'the delegated address is not taken from raw[3..]', g.where())
    h = fx.fns.get(B + '::new_raw_checked')
    if h is not None:
        rep.fn(h)
        from cfg import guards_of
        import ruletable as rt2
        ogh = Origins(h, fx)
        seen = {}
        for bi, t in h.calls():
            tf = t.target_fn or ''
            which = 'eof' if tf.endswith('Eof::decode') else ('7702' if tf.endswith('Eip7702Bytecode::new_raw') else None)
            if which:
                lits = set()
                for g_ in guards_of(h, ogh, bi):
                    lits.update(rt2.canon_guard(fx, h, ogh, g_))
                seen.setdefault(which, []).append(' '.join(sorted(lits)))
        for b in h.blocks:
            for s in b.stmts:
                if s.kind == 'assign' and s.rv.rv == 'agg' and s.rv.d.get('variant') == 'LegacyRaw':
                    seen.setdefault('raw', []).append('')
        ok = set(seen) == {'eof', '7702', 'raw'} and all('EOF_MAGIC_BYTES' in c and c.count('!') == 0 for c in seen['eof']) and all('EIP7702_MAGIC_BYTES' in c for c in seen['7702'])
        if ok:
            rep.ok('R4-eip7702', 'new_raw_checked', 'EOF magic -> Eof::decode, 7702 magic -> new_raw, otherwise LegacyRaw')
        else:
            rep.violation('R4-eip7702', 'new_raw_checked', 'classification of raw bytecode by prefix changed: %s' % {k: v[0][:120] for k, v in seen.items()}, h.where())
