"""C25 — interpreting any bytecode is memory-safe and terminates with a result.

Memory safety and panic freedom over all byte strings are not decidable as a whole; decided are the
structural conditions the interpreter's own safety argument rests on:
R1 termination: every instruction either charges at least one unit of gas on every completing
   path or ends the frame (so a finite gas limit bounds the number of steps of the run loop);
R2 immediates agreement: the number of immediate bytes an instruction skips equals
   OPCODE_INFO_JUMPTABLE's immediate_size (EOF validation checks exactly that many bytes exist;
   legacy PUSHn relies on the 33-byte padding, C04);
R3 relative jumps: RJUMP / RJUMPI / RJUMPV compute the new instruction pointer exactly as EIP-4200
   defines, in particular RJUMPV's case index is a saturating, non-negative conversion that is
   compared with max_index before the table is read;
R4 unsafe inventory: every unsafe call, raw-pointer dereference and transmute of the interpreter
   crate belongs to a function of the confirmed inventory, each class of which has a discharging
   rule (stack: C12, memory: C11, analysis/jumps/padding: C04, instruction pointer: R2/R3,
   arithmetic: C03); those rule sets run as part of this check;
R5 panic inventory: explicit panics (panic!, unwrap, expect, unreachable!/assume! in debug builds)
   of the interpreter crate occur only at the confirmed sites.
"""
import collections
import os
import sys

sys.path.insert(0, os.path.join(os.path.dirname(os.path.abspath(__file__)), 'reference'))
import opcodes as REF       # noqa: E402
import c01                   # noqa: E402
import c03                   # noqa: E402
import c05                   # noqa: E402
import isummary              # noqa: E402
from c03 import mk, k, sym, show, subst   # noqa: E402
from symx import Symx, Budget, K, render, lit_truth   # noqa: E402

META = {
    'level': 'other',
    'decides': 'gas-or-halt per instruction, immediate sizes against the opcode-info table, the pointer arithmetic of the relative jumps as symbolic expressions, and that unsafe operations and explicit panics occur only in the confirmed functions; includes the rule sets of C04, C11 and C12 that discharge the stack, memory and padding obligations',
    'does_not_decide': 'the 420 compiler-inserted bounds/overflow assertions individually (no value-range argument in reach), host or database code, and EOF validation as a whole (the validated-container assumption is stated, only its agreement with the handlers\' immediate sizes is checked)',
    'explanation': 'Per-opcode path summaries (gas events, result stores, instruction-pointer stores); canonical-term comparison for RJUMP*; MIR inventory of unsafe callees / raw derefs / transmutes / panic entry points against a confirmed table.',
}

P = 'revm_interpreter::'
HALTING = {'Stop', 'Return', 'Revert', 'SelfDestruct', 'ReturnContract', 'CallOrCreate'}
CONTROL = {'JUMP', 'JUMPI', 'RJUMP', 'RJUMPI', 'RJUMPV', 'CALLF', 'RETF', 'JUMPF'}

# function (prefix) -> class of its unsafe operations and the rule that discharges the class
CLASSES = [
    ('instructions::control::rjump', 'instruction pointer (R3)'),
    ('instructions::control::callf', 'instruction pointer: immediate read (R2), target by checked .get() / load_eof_code'),
    ('instructions::control::jumpf', 'instruction pointer: immediate read (R2)'),
    ('instructions::control::jump_inner', 'instruction pointer: add(target) dominated by is_valid_jump (C04)'),
    ('instructions::data::data_loadn', 'instruction pointer: immediate read (R2)'),
    ('instructions::stack::dupn', 'instruction pointer: immediate read (R2)'),
    ('instructions::stack::swapn', 'instruction pointer: immediate read (R2)'),
    ('instructions::stack::exchange', 'instruction pointer: immediate read (R2)'),
    ('instructions::stack::push', 'instruction pointer: N <= 32 bytes inside the 33-byte padding (R2, C04)'),
    ('instructions::contract::eofcreate', 'instruction pointer: immediate read (R2); stack (C12)'),
    ('instructions::contract::return_contract', 'instruction pointer: immediate read (R2); stack (C12)'),
    ('instructions::utility::read_', 'two-byte read at a pointer the caller vouches for (R2)'),
    ('instructions::i256::', 'bool -> Sign transmute and limb access (C03 R3)'),
    ('instructions::system::calldataload', 'copy of min(32, len - offset) bytes under offset < len; stack (C12)'),
    ('instructions::system::codecopy', 'assume!(legacy or eof bytecode); stack (C12)'),
    ('instructions::system::codesize', 'assume!(legacy or eof bytecode)'),
    ('instructions::', 'stack pops under a length check (C12 R3)'),
    ('interpreter::Interpreter::', 'instruction pointer inside the padded / validated code (R2, C04)'),
    ('interpreter::analysis::', 'jump-table analysis over the padded code (C04)'),
    ('interpreter::shared_memory::', 'memory buffer accesses after resize (C11)'),
    ('interpreter::stack::Stack::', 'stack buffer accesses under bounds tests (C12 R2)'),
    ('opcode::OpCodeInfo::', 'constant opcode-name table'),
    ('opcode::eof_printer::', 'debug printer, not on the execution path'),
    ('<', 'format_args! expansions'),
]


def class_of(short):
    for pre, cl in CLASSES:
        if short.startswith(pre):
            return cl
    return None


def is_test(f):
    return '::tests::' in f.nq or '::test_' in f.nq or '::test::' in f.nq


def inventory(fx):
    unsafe = collections.defaultdict(set)
    panics = collections.defaultdict(collections.Counter)
    for f in fx.fns_all:
        if not f.nq.startswith(P) or is_test(f) or f.kind not in ('Fn', 'AssocFn', 'Closure'):
            continue
        short = f.nq[len(P):]
        for _bi, t in f.calls():
            c = t.callee or ''
            if t.d.get('unsafe') and not c.startswith('core::fmt::'):
                unsafe[short].add('call:' + '::'.join(c.split('::')[-2:]))
            if c.startswith('core::panicking') or c.endswith(('::unwrap', '::expect', '::unwrap_failed', '::expect_failed')) or 'begin_panic' in c:
                panics[short][c.split('::')[-1]] += 1
        for b in f.blocks:
            if b.cleanup:
                continue
            for s in b.stmts:
                if s.kind != 'assign':
                    continue
                if s.rv.rv == 'cast' and s.rv.d.get('kind') == 'Transmute':
                    src = [f.local_ty(o.place.b) for o in s.rv.ops if o.place is not None and not o.place.pr]
                    dst = s.rv.d.get('ty', '?')
                    if not (src and src[0].startswith('*') and dst == 'usize'):      # debug pointer checks
                        unsafe[short].add('transmute:%s->%s' % (src[0] if src else '?', dst.split('::')[-1]))
                pls = [s.place] + [o.place for o in s.rv.ops if o.place is not None]
                for pl in pls:
                    if '*' in pl.pr and (f.local_ty(pl.b) or '').startswith('*'):
                        unsafe[short].add('deref:' + f.local_ty(pl.b).split('<')[0])
    return unsafe, panics


def run(ctx, rep):
    fx = ctx.facts('default')
    r = c05.read_instruction_table(fx, rep)
    if r is None:
        return
    table, default = r
    info = opcode_info(fx, rep)
    check_termination(fx, rep, table, default)
    if info is not None:
        check_immediates(fx, rep, table, default, info)
    check_rjumps(fx, rep)
    check_inventory(fx, rep)
    import engine
    # C26's rule sets decide that validate_eof establishes what the EOF handlers assume without checking
    engine.run_included(ctx, rep, ('c04', 'c11', 'c12', 'c26'))
    rep.assume('EOF code reaching the interpreter has passed validate_eof (immediates present, relative jump targets and section indices in range)')
    rep.assume('the dynamic cost functions of gas::calc charge a positive amount (their formulas are decided in C14)')


def opcode_info(fx, rep):
    c = fx.consts.get('revm_interpreter::opcode::OPCODE_INFO_JUMPTABLE')
    if not c or 'val' not in c:
        rep.undecided('R2-immediates', 'OPCODE_INFO_JUMPTABLE', 'constant not evaluable')
        return None
    out = {}
    for b, ent in enumerate(c['val']['fields']):
        if isinstance(ent, dict) and ent.get('variant') == 'Some':
            d = dict(zip(ent['fields'][0].get('names', []), ent['fields'][0]['fields']))
            out[b] = d
    return out


def check_termination(fx, rep, table, default):
    calc = {g.name for g in fx.fns_all if g.nq.startswith('revm_interpreter::gas::calc::')}
    n = 0
    for b in range(256):
        ent = table[b]
        if ent is None or ent == default:
            continue
        hname, fargs = ent
        h = fx.fns.get(hname)
        rep.fn(h)
        name = (REF.OPCODES.get(b) or ('0x%02X' % b,))[0]
        s = isummary.summarize(fx, hname, fargs)
        if s.undecided:
            rep.undecided('R1-termination', name, s.undecided, h.where() if h else None)
            continue
        bad = []
        for x in s.success:
            consts = [g for g in x['gas'] if g]
            dyn = [src for g, src in zip(x['gas'], x['gas_src']) if g is None and any(cn in src for cn in calc)]
            if consts or dyn or x['result'] in HALTING:
                continue
            bad.append(x)
        n += 1
        if bad:
            rep.violation('R1-termination', name, 'opcode %s has a completing path that neither charges gas nor ends the frame (result %s): a loop over it would not be bounded by the gas limit' % (name, bad[0]['result']), h.where())
        else:
            rep.ok('R1-termination', name, '%d completing paths' % len(s.success))
    rep.floor('R1-opcodes', n, 165)


def ip_effects(fx, hname, fargs):
    """per success path: ('advance', k) | ('none',) | ('other', text)"""
    f = fx.fns[hname]
    cp = {k_: K(int(v)) for k_, v in c05.const_params_of(fx, hname, fargs).items()}
    inline = {g.nq for g in fx.fns_all if g.kind == 'Fn' and g.nq.startswith('revm_interpreter::instructions::') and g.nq != hname
              and g.argc >= 1 and 'Interpreter' in g.local_ty(1) and '::i256::' not in g.nq}
    rs = Symx(fx, spec=255, max_paths=6000, inline=inline, max_depth=3).run(f, cparams=cp)
    out = []
    for p in rs:
        res = None
        ipv = None
        for (root, path), v in p.stores.items():
            if root == ('arg', 1) and path[-1:] == ('.instruction_result',):
                res = v[2] if v[0] == 'agg' else 'dynamic'
            if root == ('arg', 1) and path == ('.instruction_pointer',):
                ipv = v
        if res is not None and res not in isummary.SUCCESS_RESULTS:
            continue
        if res in ('Stop', 'Return', 'Revert', 'SelfDestruct', 'ReturnContract'):
            continue        # the frame ends: the instruction pointer is not used again
        if p.cut:
            continue
        if ipv is None:
            out.append(('none',))
        elif ipv[0] == 'call' and ipv[1].split('::')[-1] in ('offset', 'add') and ipv[2][1][0] == 'k' and 'instruction_pointer' in render(ipv[2][0]):
            out.append(('advance', int(ipv[2][1][1])))
        else:
            out.append(('other', render(ipv)[:100]))
    return out


def check_immediates(fx, rep, table, default, info):
    n = 0
    for b in range(256):
        ent = table[b]
        if ent is None or ent == default or b not in info:
            continue
        name = (REF.OPCODES.get(b) or ('0x%02X' % b,))[0]
        if name in CONTROL:
            continue
        hname, fargs = ent
        h = fx.fns.get(hname)
        want = info[b].get('immediate_size')
        try:
            eff = set(ip_effects(fx, hname, fargs))
        except Budget:
            rep.undecided('R2-immediates', name, 'path budget', h.where())
            continue
        n += 1
        adv = {e[1] if e[0] == 'advance' else (0 if e[0] == 'none' else e[1]) for e in eff}
        if not adv:
            rep.ok('R2-immediates', name, 'always ends the frame', nontrivial=False)
        elif adv == {want}:
            rep.ok('R2-immediates', name, 'skips %d immediate byte(s)' % want, nontrivial=bool(want))
        else:
            rep.violation('R2-immediates', name, 'opcode %s moves the instruction pointer by %s, OPCODE_INFO_JUMPTABLE records immediate_size %s (validation and the analysis padding are sized by the table)' % (name, sorted(adv, key=str), want), h.where())
        # PUSHn within the padding
        if 0x60 <= b <= 0x7F and want is not None and want > 32:
            rep.violation('R2-immediates', name + ':padding', 'PUSH immediate of %d bytes exceeds the 33-byte padding' % want, h.where())
    rep.floor('R2-opcodes', n, 160)


# ------------------------------------------------------------------------------ relative jumps

class CanonIP(c03.Canon):
    """canonical terms for pointer arithmetic: casts to signed types are kept unless the operand is
    an immediate (u8 / i16 / u16 read from the code) or a constant"""

    def __init__(self):
        c03.Canon.__init__(self)
        self.pops = {}

    def c(self, v):
        t = v[0]
        if t == 'call' and v[1] == isummary.STACK + 'pop_unsafe':
            uid = v[3]
            if uid not in self.pops:
                self.pops[uid] = 'abcdef'[len(self.pops)]
            return sym(self.pops[uid])
        if t == 'proj' and v[1] == ('sym', 'arg1') and v[2] == ('.instruction_pointer',):
            return sym('ip')
        if t == 'sym' and len(v) == 3 and v[1] == 'deref':
            inner = self.c(v[2])
            if inner == sym('ip'):
                return ('op', 'u8at', inner)
        if t == 'call':
            short = v[1].split('::')[-1]
            if short in ('read_i16', 'read_u16'):
                return ('op', short[5:] + 'at', self.c(v[2][0]))
            if short in ('offset', 'add') and len(v[2]) == 2 and ('ptr' in v[1]):
                return mk('ptradd', self.c(v[2][0]), self.c(v[2][1]))
            if short == 'unwrap_or' and v[2] and v[2][0][0] == 'call' and v[2][0][1].endswith('try_from') and self.c(v[2][1]) == k((1 << 63) - 1):
                inner = self.c(v[2][0][2][0])
                if inner[0] == 'k':
                    return k(min(inner[1], (1 << 63) - 1))
                return ('op', 'sat_isize', inner)
        if t == 'cast':
            inner = self.c(v[2])
            signed = str(v[1]).startswith('i')
            small = inner[0] == 'k' or (inner[0] == 'op' and inner[1] in ('u8at', 'i16at', 'u16at', 'sat_isize'))
            if signed and not small:
                return ('op', 'reinterpret_signed', inner)
            return inner
        return c03.Canon.c(self, v)


def jump_rows(fx, fq):
    f = fx.fns[fq]
    # private helpers of the instruction modules are followed (a read moved into a helper is the
    # same read); the two-byte readers stay opaque, they are the vocabulary of the reference
    inline = {g.nq for g in fx.fns_all if g.kind == 'Fn' and g.nq.startswith('revm_interpreter::instructions::') and g.nq != fq
              and g.argc >= 1 and 'Interpreter' in g.local_ty(1) and '::i256::' not in g.nq}
    rs = Symx(fx, spec=255, max_paths=2000, snapshot_refs=True, inline=inline, max_depth=3).run(f)
    rows = []
    unknown = []
    for p in rs:
        if any(kk[1][-1:] == ('.instruction_result',) for kk in p.stores) or p.cut:
            continue
        cn = CanonIP()
        # canonicalise pops in program order first
        for e in p.events:
            if e[0] == isummary.STACK + 'pop_unsafe':
                pass
        lits = {}
        feasible = True
        for (sv, lit, _f, _b) in p.lits:
            r_ = render(sv)
            if 'record_cost' in r_ or r_.startswith('Lt(len(') or 'is_eof' in r_:
                continue
            tv = lit_truth(lit)
            t = simp_ip(cn.c(sv))
            if tv is None:
                unknown.append('non-boolean branch on %s' % r_[:80])
                continue
            if t[0] == 'op' and t[1] == 'not':
                t, tv = t[2], not tv
            if t[0] == 'k':
                if bool(t[1]) != tv:
                    feasible = False
                continue
            if t in lits and lits[t] != tv:
                feasible = False
            lits[t] = tv
        if not feasible:
            continue
        ipv = [v for (root, path), v in p.stores.items() if root == ('arg', 1) and path == ('.instruction_pointer',)]
        res = simp_ip(cn.c(ipv[0])) if ipv else sym('ip')
        unknown += cn.unknown
        rows.append((lits, res))
    return rows, unknown


def simp_ip(t):
    def rw(u):
        # an immediate byte is below 256
        if u[0] == 'op' and u[1] == 'le' and u[2][0] == 'k' and u[2][1] > 255 and u[3] == ('op', 'u8at', sym('ip')):
            return k(0)
        return None
    return subst(t, rw)


def check_rjumps(fx, rep):
    import itertools
    A = 'revm_interpreter::instructions::control::'
    ip = sym('ip')
    a = sym('a')
    M = ('op', 'u8at', ip)
    case = ('op', 'sat_isize', ('op', 'limb', 0, a))
    base = mk('add', mk('mul', mk('add', M, k(1)), k(2)), k(1))
    h = ('op', 'hi0', a)
    g = mk('le', case, M)
    z = mk('iszero', a)
    refs = {
        'rjump': ([], lambda asg: mk('ptradd', ip, mk('add', ('op', 'i16at', ip), k(2)))),
        'rjumpi': ([z], lambda asg: mk('ptradd', ip, k(2)) if asg[z] else mk('ptradd', ip, mk('add', k(2), ('op', 'i16at', ip)))),
        'rjumpv': ([h, g], lambda asg: mk('ptradd', ip, mk('add', base, ('op', 'i16at', mk('ptradd', ip, mk('add', k(1), mk('mul', case, k(2)))))))
                   if (asg[h] and asg[g]) else mk('ptradd', ip, base)),
    }
    for nm, (atoms, expected) in refs.items():
        f = fx.fns.get(A + nm)
        if f is None:
            rep.undecided('R3-relative-jumps', nm, 'handler not found')
            continue
        rep.fn(f)
        try:
            rows, unknown = jump_rows(fx, f.nq)
        except Budget:
            rep.undecided('R3-relative-jumps', nm, 'path budget', f.where())
            continue
        if unknown:
            rep.undecided('R3-relative-jumps', nm, 'unrecognised construct: %s' % sorted(set(unknown))[:2], f.where())
            continue
        seen = set()
        for lits, _ in rows:
            seen |= set(lits)
        extra = seen - set(atoms)
        if extra:
            rep.violation('R3-relative-jumps', nm + ':guard', '%s decides on %s; EIP-4200 defines it over %s (a case index that is reinterpreted as signed, or not saturated, reads the jump table out of bounds)' % (
                nm.upper(), sorted(show(x) for x in extra), [show(x) for x in atoms] or 'no guard'), f.where())
            continue
        ok = True
        for vals in itertools.product((True, False), repeat=len(atoms)):
            asg = dict(zip(atoms, vals))
            got = {res for lits, res in rows if all(asg[t] == v for t, v in lits.items())}
            want = expected(asg)
            if got != {want}:
                rep.violation('R3-relative-jumps', nm + ':target', '%s sets the instruction pointer to %s when %s; EIP-4200 gives %s' % (
                    nm.upper(), sorted(show(x) for x in got) or 'nothing', ', '.join('%s=%s' % (show(t), v) for t, v in asg.items()) or 'always', show(want)), f.where())
                ok = False
                break
        if ok:
            rep.ok('R3-relative-jumps', nm, show(expected({t: True for t in atoms})))


# ------------------------------------------------------------------------------ inventories

def module_of(short):
    """module of a function path: without closure suffixes, the function name and an impl type"""
    if short.startswith('<'):
        return '<trait impls>'
    parts = [p for p in short.split('::') if not p.startswith('{closure')]
    parts = parts[:-1]
    while parts and parts[-1][:1].isupper():
        parts = parts[:-1]
    return '::'.join(parts) or '(crate root)'


def check_inventory(fx, rep):
    """granularity is the module: moving an unsafe operation or a panic site into a helper of the
    same module is not reported; a kind of unsafe operation or panic the module did not contain is"""
    import c25_inventory as INV
    unsafe, panics = inventory(fx)
    allowed_u, allowed_p = {}, {}
    for fn_, ops in INV.UNSAFE.items():
        allowed_u.setdefault(module_of(fn_), set()).update(ops)
    for fn_, cnt in INV.PANICS.items():
        allowed_p.setdefault(module_of(fn_), set()).update(cnt)
    n = 0
    for short, ops in sorted(unsafe.items()):
        mod = module_of(short)
        f = fx.fns.get(P + short)
        where = f.where() if f is not None else None
        for op in sorted(ops):
            n += 1
            if op not in allowed_u.get(mod, ()):
                rep.violation('R4-unsafe-inventory', '%s:%s' % (mod, op),
                              'unsafe operation `%s` (in %s) is of a kind the module %s did not contain: no rule discharges its safety obligation' % (op, short, mod), where)
            else:
                rep.ok('R4-unsafe-inventory', '%s:%s' % (short, op), class_of(short) or mod, nontrivial=False)
    rep.floor('R4-unsafe-sites', n, 140)
    m = 0
    for short, cnt in sorted(panics.items()):
        mod = module_of(short)
        f = fx.fns.get(P + short)
        where = f.where() if f is not None else None
        for kind, c in sorted(cnt.items()):
            m += c
            if kind not in allowed_p.get(mod, ()):
                rep.violation('R5-panic-inventory', '%s:%s' % (mod, kind),
                              '%s contains a `%s` panic site; the module %s had none of that kind: a new way to panic on some input' % (short, kind, mod), where)
            else:
                rep.ok('R5-panic-inventory', '%s:%s' % (short, kind), '%d site(s)' % c, nontrivial=False)
    rep.floor('R5-panic-sites', m, 40)
