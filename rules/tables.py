"""A6 helpers: spec order and spec map extraction, fork-gate folding, enum match tables."""
from cfg import cfg_of, Origins
from facts import strip_generics
from symx import Symx, K, Budget

SPECID = 'revm_primitives::specification::SpecId'
SPEC_TRAIT = 'revm_primitives::specification::Spec'
ENABLED_FNS = (
    'revm_primitives::specification::SpecId::is_enabled_in',
    'revm_primitives::specification::SpecId::enabled',
    'revm_primitives::specification::Spec::enabled',
)

# chronological order of mainnet forks, written from the fork history (not from the code)
REF_ORDER = ['FRONTIER', 'FRONTIER_THAWING', 'HOMESTEAD', 'DAO_FORK', 'TANGERINE', 'SPURIOUS_DRAGON',
             'BYZANTIUM', 'CONSTANTINOPLE', 'PETERSBURG', 'ISTANBUL', 'MUIR_GLACIER', 'BERLIN', 'LONDON',
             'ARROW_GLACIER', 'GRAY_GLACIER', 'MERGE', 'SHANGHAI', 'CANCUN', 'PRAGUE', 'OSAKA', 'LATEST']
# optimism interleaving (cfg optimism): name -> the mainnet fork it sits on
REF_ORDER_OP = ['FRONTIER', 'FRONTIER_THAWING', 'HOMESTEAD', 'DAO_FORK', 'TANGERINE', 'SPURIOUS_DRAGON',
                'BYZANTIUM', 'CONSTANTINOPLE', 'PETERSBURG', 'ISTANBUL', 'MUIR_GLACIER', 'BERLIN', 'LONDON',
                'ARROW_GLACIER', 'GRAY_GLACIER', 'MERGE', 'BEDROCK', 'REGOLITH', 'SHANGHAI', 'CANYON', 'CANCUN',
                'ECOTONE', 'FJORD', 'GRANITE', 'HOLOCENE', 'PRAGUE', 'ISTHMUS', 'OSAKA', 'LATEST']


# OP-stack forks: the mainnet fork each one contains (OP specs), written from the OP-stack upgrade list
OP_BASE = {'BEDROCK': 'MERGE', 'REGOLITH': 'MERGE', 'CANYON': 'SHANGHAI', 'ECOTONE': 'CANCUN', 'FJORD': 'CANCUN',
           'GRANITE': 'CANCUN', 'HOLOCENE': 'CANCUN', 'ISTHMUS': 'PRAGUE'}
OP_CHAIN = ['BEDROCK', 'REGOLITH', 'CANYON', 'ECOTONE', 'FJORD', 'GRANITE', 'HOLOCENE', 'ISTHMUS']


def ref_ge(a, b, order=REF_ORDER):
    """does fork `a` include mainnet fork `b`?  OP forks are mapped to the mainnet fork they contain;
    revm's non-standard OSAKA/LATEST have no OP counterpart and are compared on the mainnet chain."""
    a = OP_BASE.get(a, a)
    b = OP_BASE.get(b, b)
    return REF_ORDER.index(a) >= REF_ORDER.index(b)


def order_constraints(optimism):
    """pairs (earlier, later) the discriminant order must respect"""
    cs = list(zip(REF_ORDER, REF_ORDER[1:]))
    if optimism:
        cs += list(zip(OP_CHAIN, OP_CHAIN[1:]))
        # an OP fork lies at or after the mainnet fork it contains and before the next mainnet fork
        # it does not contain; nothing is said about ISTHMUS versus revm's OSAKA (no reference)
        cs += [('MERGE', 'BEDROCK'), ('REGOLITH', 'SHANGHAI'), ('SHANGHAI', 'CANYON'), ('CANYON', 'CANCUN'),
               ('CANCUN', 'ECOTONE'), ('HOLOCENE', 'PRAGUE'), ('PRAGUE', 'ISTHMUS')]
    return cs


class SpecInfo:
    """SpecId discriminants, the SpecId -> Spec type map of spec_to_generic!, and each Spec type's
    SPEC_ID, all read from the facts."""

    def __init__(self, fx, rep=None, map_fn='revm::handler::Handler::mainnet_with_spec',
                 target_suffix='Handler::mainnet'):
        self.fx = fx
        adt = fx.adts.get(SPECID)
        self.ok = adt is not None
        self.problems = []
        self.discr = {}
        self.by_discr = {}
        if adt:
            for i, v in enumerate(adt['variants']):
                d = v.get('discr', i)
                self.discr[v['name']] = d
                self.by_discr[d] = v['name']
        # Spec type -> SPEC_ID variant
        self.type_id = {}
        for q, c in fx.consts.items():
            if q.endswith('as %s>::SPEC_ID' % SPEC_TRAIT) and isinstance(c.get('val'), dict) and 'variant' in c['val']:
                ty = q[1:].split(' as ')[0]
                self.type_id[ty] = c['val']['variant']
        # SpecId variant -> Spec type (run-time dispatch)
        self.map = {}
        f = fx.fns.get(map_fn)
        if f is None:
            self.ok = False
            self.problems.append('spec dispatch function %s not found' % map_fn)
            return
        sw = f.blocks[0].term
        if sw.kind != 'switch':
            self.ok = False
            self.problems.append('spec dispatch is not a switch on the SpecId')
            return
        for v, tg in sw.d['arms']:
            t = f.blocks[tg].term
            ty = None
            if t.kind == 'call' and (t.target_fn or '').endswith(target_suffix):
                for a in t.cargs():
                    if a.endswith('Spec') and '::' in a:
                        ty = a
            name = self.by_discr.get(v)
            if name is None or ty is None:
                self.ok = False
                self.problems.append('cannot read dispatch arm for discriminant %s' % v)
                continue
            self.map[name] = ty
        for name in self.discr:
            if name not in self.map:
                self.ok = False
                self.problems.append('SpecId::%s has no dispatch arm' % name)

    def effective(self, specid_name):
        """the SPEC_ID constant a transaction configured with `specid_name` executes under"""
        ty = self.map.get(specid_name)
        return self.type_id.get(ty)

    def check_enabled_semantics(self, rep):
        """SpecId::enabled(our, other) is `our as u8 >= other as u8` (and the two wrappers use it)"""
        fx = self.fx
        ok = True
        f = fx.fns.get('revm_primitives::specification::SpecId::enabled')
        if f is None:
            rep.undecided('spec-order', 'SpecId::enabled', 'function not found')
            return False
        sx = Symx(fx)
        rs = sx.run(f)
        good = len(rs) == 1 and rs[0].ret[0] == 'bin' and rs[0].ret[1] == 'Ge' \
            and _is_cast_of(rs[0].ret[2], 'arg1') and _is_cast_of(rs[0].ret[3], 'arg2')
        if good:
            rep.ok('spec-order', 'SpecId::enabled', 'our as u8 >= other as u8')
        else:
            ok = False
            rep.violation('spec-order', 'SpecId::enabled', 'SpecId::enabled is not `our as u8 >= other as u8`: %s' % [r.ret for r in rs][:2], f.where())
        for nm, a, b in (('SpecId::is_enabled_in', 'arg1', 'arg2'), ('Spec::enabled', None, 'arg1')):
            g = fx.fns.get('revm_primitives::specification::' + nm)
            if g is None:
                rep.undecided('spec-order', nm, 'function not found')
                ok = False
                continue
            sx = Symx(fx)
            rs = sx.run(g)
            evs = [e for r in rs for e in r.events]
            good = len(rs) == 1 and len(evs) == 1 and evs[0][0].endswith('SpecId::enabled')
            if good:
                args = evs[0][1]
                if a is not None and args[0] != ('sym', a):
                    good = False
                if a is None and not (args[0][0] == 'sym' and 'SPEC_ID' in args[0][1]):
                    good = False
                if args[1] != ('sym', b):
                    good = False
            if good:
                rep.ok('spec-order', nm, 'delegates to SpecId::enabled with arguments in order')
            else:
                ok = False
                rep.violation('spec-order', nm, '%s does not delegate to SpecId::enabled(self, other)' % nm, g.where())
        return ok

    def check_order(self, rep, order=REF_ORDER):
        """the discriminant order equals the chronological reference order"""
        names = [n for n in order if n in self.discr]
        ok = True
        for n in self.discr:
            if n not in order:
                rep.violation('spec-order', 'unknown-variant:' + n, 'SpecId::%s is not in the reference chronology' % n)
                ok = False
        optimism = any(n in self.discr for n in OP_CHAIN)
        for a, b in order_constraints(optimism):
            if a not in self.discr or b not in self.discr:
                continue
            if not self.discr[a] < self.discr[b]:
                rep.violation('spec-order', 'order:%s<%s' % (a, b), 'discriminant of %s (%d) is not below %s (%d)' % (a, self.discr[a], b, self.discr[b]))
                ok = False
        if ok:
            rep.ok('spec-order', 'discriminants', '%d variants in chronological order' % len(names))
        return ok


def _is_cast_of(sv, sym):
    if sv[0] != 'cast':
        return False
    inner = sv[2]
    if inner[0] == 'discr':
        inner = inner[1]
    return inner == ('sym', sym)


class GateFolder:
    """Folds fork-gate branch conditions of one function under a bound SPEC_ID (and const generics)."""

    def __init__(self, fx, spec_info, spec_name, const_params=None):
        self.fx = fx
        self.si = spec_info
        self.spec_name = spec_name
        self.spec = spec_info.discr[spec_name]
        self.const_params = const_params or {}
        self._cache = {}

    def eval_inline_const(self, qname):
        key = (qname, self.spec)
        if key in self._cache:
            return self._cache[key]
        body = self.fx.fns.get(qname)
        r = None
        if body is not None:
            sx = Symx(self.fx, inline=ENABLED_FNS, spec=self.spec, max_paths=64)
            try:
                rs = sx.run(body, [])
                vals = {x.ret for x in rs}
                if len(vals) == 1 and list(vals)[0][0] == 'k':
                    r = bool(list(vals)[0][1])
            except Budget:
                r = None
        self._cache[key] = r
        return r

    def fold_switch(self, fn, og, bi):
        """returns the target block the switch at bi must take, or None if it does not fold"""
        t = fn.blocks[bi].term
        d = t.switch_discr()
        val = self.eval_operand(fn, og, d)
        if val is None:
            return None
        tg = t.d['otherwise']
        for v, a in t.d['arms']:
            if v == int(val):
                tg = a
        return tg

    def eval_operand(self, fn, og, op, depth=0):
        if op.kind == 'const':
            return self.eval_const(fn, op.k)
        oo = og.of_operand(op)
        if len(oo) != 1:
            return None
        return self.eval_origin(fn, og, oo[0], depth)

    def eval_const(self, fn, k):
        if 'i' in k:
            return k['i']
        un = k.get('uneval')
        if un:
            unq = strip_generics(un)
            if unq.endswith('Spec::SPEC_ID'):
                return self.spec
            b = self.fx.fns.get(unq)
            if b is not None and b.kind == 'InlineConst':
                return self.eval_inline_const(unq)
        s = k.get('s')
        if s in self.const_params:
            return self.const_params[s]
        return None

    def eval_origin(self, fn, og, o, depth=0):
        r = o.root
        if o.path:
            return None
        if r[0] == 'const':
            if r[1] is not None:
                return r[1]
            nm = r[2]
            if nm:
                unq = strip_generics(nm)
                if unq.endswith('Spec::SPEC_ID'):
                    return self.spec
                b = self.fx.fns.get(unq)
                if b is not None and b.kind == 'InlineConst':
                    return self.eval_inline_const(unq)
                if nm in self.const_params:
                    return self.const_params[nm]
            return None
        if r[0] == 'call' and depth < 4:
            t = fn.blocks[r[2]].term
            name = r[1]
            if name.endswith('Spec::enabled') and len(t.args) == 1:
                x = self.eval_operand(fn, og, t.args[0], depth + 1)
                if x is not None:
                    return self.spec >= x
            if name.endswith(('SpecId::is_enabled_in', 'SpecId::enabled')) and len(t.args) == 2:
                a = self.eval_operand(fn, og, t.args[0], depth + 1)
                b = self.eval_operand(fn, og, t.args[1], depth + 1)
                if a is not None and b is not None:
                    return a >= b
            return None
        if r[0] == 'un' and r[1] == 'Not' and len(r[2]) == 1:
            x = self.eval_origin(fn, og, r[2][0], depth + 1)
            return None if x is None else (not x)
        if r[0] == 'agg' and len(r) > 2 and str(r[1]).endswith('SpecId') and isinstance(r[2], str):
            # `SpecId::CANCUN` written as a value (a run-time gate spelled out instead of check!)
            d = self.fx.discr_of(r[1], r[2])
            return None if d is None else int(d)
        return None

    def folded_reach(self, fn, start=0):
        """blocks reachable from `start` when every foldable gate takes its folded edge"""
        cfg = cfg_of(fn)
        og = Origins(fn, self.fx)
        seen = {start}
        work = [start]
        folded = []
        while work:
            b = work.pop()
            t = fn.blocks[b].term
            succ = cfg.succ[b]
            if t.kind == 'switch':
                tg = self.fold_switch(fn, og, b)
                if tg is not None:
                    succ = [tg]
                    folded.append(b)
            for s in succ:
                if s not in seen:
                    seen.add(s)
                    work.append(s)
        return seen, folded


def blocks_setting_result(fn, variant):
    """blocks that store InstructionResult::<variant> into (*interp).instruction_result"""
    out = []
    for b in fn.blocks:
        if b.cleanup:
            continue
        cur = {}
        for s in b.stmts:
            if s.kind != 'assign':
                continue
            if s.rv.rv == 'agg' and s.rv.d.get('adt', '').endswith('InstructionResult') and not s.place.pr:
                cur[s.place.b] = s.rv.d['variant']
            elif s.place.pr and s.place.pr[-1] == '.instruction_result':
                v = None
                if s.rv.rv == 'use' and s.rv.ops[0].place is not None and not s.rv.ops[0].place.pr:
                    v = cur.get(s.rv.ops[0].place.b)
                elif s.rv.rv == 'agg':
                    v = s.rv.d.get('variant')
                if v == variant:
                    out.append(b.i)
    return out


def match_table(fx, fn, adt_q, inline=(), spec=None):
    """Read `fn(x: Enum, ..) -> T` as a table variant -> returned symbolic value (single path each)."""
    adt = fx.adts.get(adt_q) or fx.adt(adt_q)
    res = {}
    for i, v in enumerate(adt['variants']):
        d = v.get('discr', i)
        sx = Symx(fx, inline=inline, spec=spec, max_paths=500)
        if v['fields']:
            arg = ('agg', strip_generics(adt_q), v['name'], tuple(f['name'] for f in v['fields']),
                   tuple(('sym', 'f_' + f['name']) for f in v['fields']))
        else:
            arg = K(d)
        try:
            if fn.local_ty(1).startswith('&'):
                # by-reference receiver: place the value behind the reference
                rs = sx.run(fn, [('ref', ('arg', 1), ())], store={(('arg', 1), ()): arg})
            else:
                rs = sx.run(fn, [arg])
        except Budget:
            res[v['name']] = None
            continue
        vals = {r.ret for r in rs}
        res[v['name']] = list(vals)[0] if len(vals) == 1 else None
    return res
