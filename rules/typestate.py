"""A4: typestate over a function's CFG with exit classification.

run_typestate(fn, facts, events, init) performs a forward may-analysis whose abstract state is
(ts, cls):  ts = resource state, cls = class of the value last stored to the return place.
`events(bi, term)` maps a call terminator to an event:
   ('open',) ('close',)                         direct transitions
   ('open_if', 'Ok')                            result-variant sensitive: open iff the call returned Ok
   None                                         no effect
Branch sensitivity for open_if is obtained from the switch on the discriminant of the call's
destination (directly or through `Try::branch`).
"""
from cfg import cfg_of, Origins

TRY_BRANCH = 'core::ops::try_trait::Try::branch'
FROM_RESIDUAL = 'core::ops::try_trait::FromResidual::from_residual'


def discr_switch_source(fn, og, bi):
    """For a switch block bi: return (origin list of the place whose discriminant is switched on)
    or None when the switch is not on a discriminant."""
    t = fn.blocks[bi].term
    if t.kind != 'switch':
        return None
    d = t.switch_discr()
    if d.place is None:
        return None
    outs = []
    for o in og.of_place(d.place):
        if o.root[0] == 'discr':
            outs.extend(o.root[1])
        else:
            return None
    return outs


class TS:
    def __init__(self, fn, facts, events, classify_ret=None):
        self.fn = fn
        self.facts = facts
        self.cfg = cfg_of(fn)
        self.og = Origins(fn, facts)
        self.events = events
        self.classify_ret = classify_ret
        self.problems = []   # (kind, bi, detail)

    def run(self, init_ts):
        fn = self.fn
        og = self.og

        def transfer(bi, st):
            ts, cls, tag = st
            b = fn.blocks[bi]
            # assignments to the return place
            if self.classify_ret:
                for si, s in enumerate(b.stmts):
                    if s.kind == 'assign' and s.place.b == 0 and not s.place.pr:
                        c = self.classify_ret(fn, og, bi, si, None)
                        if c is not None:
                            cls, tag = c
            t = b.term
            if t.kind == 'call':
                ev = self.events(bi, t)
                if ev is not None:
                    k = ev[0]
                    if k == 'open':
                        if ts == 'open' or (isinstance(ts, tuple) and ts[0] == 'pend'):
                            self.problems.append(('double-open', bi, None))
                        ts = 'open'
                    elif k == 'close':
                        if ts != 'open':
                            self.problems.append(('close-without-open', bi, ts))
                        ts = 'closed'
                    elif k == 'open_if':
                        if ts == 'open':
                            self.problems.append(('double-open', bi, None))
                        ts = ('pend', bi, ev[1], ts)
                if self.classify_ret and t.dest is not None and t.dest.b == 0 and not t.dest.pr:
                    c = self.classify_ret(fn, og, bi, None, t)
                    if c is not None:
                        cls, tag = c
            return [(ts, cls, tag)]

        def edge(bi, succ, st):
            ts, cls, tag = st
            if isinstance(ts, tuple) and ts[0] == 'pend':
                src = discr_switch_source(fn, og, bi)
                if src is None:
                    return st
                _, cbi, okv, prev = ts
                # does this switch test the pending call's result?
                hit = None
                for o in src:
                    r = o.root
                    if r[0] == 'call' and r[2] == cbi and o.path in ((), ('?',)):
                        hit = 'direct'
                    elif r[0] == 'call' and r[1] == TRY_BRANCH:
                        # Try::branch(x): find x
                        tb = fn.blocks[r[2]].term
                        for oo in og.of_operand(tb.args[0]):
                            if oo.root[0] == 'call' and oo.root[2] == cbi:
                                hit = 'try'
                if hit is None:
                    return st
                t = fn.blocks[bi].term
                vals = [v for v, tg in t.d['arms'] if tg == succ]
                other = t.d['otherwise'] == succ
                # Result: Ok = 0, Err = 1 ; ControlFlow: Continue = 0 (Ok), Break = 1 (Err)
                arms = dict((v, tg) for v, tg in t.d['arms'])
                if vals == [0] and not other:
                    is_ok = True
                elif vals == [1] and not other:
                    is_ok = False
                elif other and not vals:
                    # otherwise edge: complement of listed arms
                    listed = set(arms.keys())
                    if listed == {0}:
                        is_ok = False
                    elif listed == {1}:
                        is_ok = True
                    elif listed == {0, 1}:
                        return None   # unreachable otherwise
                    else:
                        return st
                else:
                    return st
                opened = (is_ok and okv == 'Ok') or ((not is_ok) and okv == 'Err')
                return ('open' if opened else prev, cls, tag)
            return st

        ins, outs = self.cfg.forward((init_ts, None, None), transfer, edge)
        exits = []
        for r in self.cfg.returns:
            for st in outs.get(r, ()):
                exits.append((r, st))
        return exits
