"""C13 — the gas meter never goes negative and failed charges change nothing.

Every method of `Gas` is read as a decision table (path enumeration + partial evaluation, symx):
 R1 record_cost: the only store to `remaining` happens on the path whose condition excludes
    underflow, stores exactly remaining - cost, returns success there and failure (no store at
    all) elsewhere; accepted idioms: overflowing_sub + flag, checked_sub + Some, compare + sub;
 R2 accessors / constructors: spent = limit - remaining; new: remaining = limit, refunded = 0;
    new_spent: remaining = 0; set_spent: saturating; spend_all: 0;
 R3 set_final_refund: refunded = min(refunded, spent / q), q = 5 if is_london else 2; callers pass
    is_enabled_in(LONDON);
 R4 who may write: the three fields are private and, inside the crate, written only by the listed
    methods (plus derived impls);
 R5 the two unchecked accumulations (erase_cost, record_refund) are listed exceptions backed by
    dataflow rules: every erase_cost argument is the remaining gas of a finished child frame.
"""
from cfg import Origins
from symx import Symx, K, P, path_truth, render, Budget

META = {
    'level': 'proof',
    'decides': 'the decision table of every Gas method (charge, refund cap, accessors, constructors), the writers of the meter\'s fields, and the origin of every amount handed back with erase_cost',
    'does_not_decide': 'that remaining <= limit is preserved across frames as an arithmetic fact over executions (R5 gives the structural reason only); the u64 cast of a negative refund counter is outside the statement\'s domain (EIP-2200 keeps the transaction-level counter non-negative)',
    'explanation': 'Decision-table extraction (all CFG paths of each method, symbolic values, literals) compared with the meter\'s algebraic specification; field-writer inventory from ADT facts and MIR assignments; value-origin analysis at erase_cost call sites.',
}

G = 'revm_interpreter::gas::Gas::'
PURE = {'core::num::<impl u64>::overflowing_sub', 'core::num::<impl u64>::saturating_sub', 'core::cmp::Ord::min',
        'core::num::<impl u64>::checked_sub', 'core::cmp::min', 'core::num::<impl u64>::wrapping_sub'}
INL = {G + 'refunded', G + 'spent', G + 'remaining', G + 'limit'}

REM = P(1, '.remaining')
LIM = P(1, '.limit')
REF = P(1, '.refunded')
COST = ('sym', 'arg2')
SPENT = ('bin', 'Sub', LIM, REM)


def sx_run(fx, name, rep):
    f = fx.fns.get(G + name)
    if f is None:
        rep.undecided('anchor', name, 'Gas::%s not found' % name)
        return None, None
    rep.fn(f)
    try:
        return f, Symx(fx, pure=PURE, inline=INL, max_paths=200).run(f)
    except Budget:
        rep.undecided('anchor', name, 'path budget exceeded', f.where())
        return f, None


def is_diff(sv):
    """sv denotes remaining - cost"""
    if sv == ('bin', 'Sub', REM, COST):
        return True
    if sv[0] == 'proj' and sv[1][0] == 'call' and sv[1][2] == (REM, COST):
        nm = sv[1][1]
        if nm.endswith('overflowing_sub') and sv[2] == ('.0',):
            return True
        if nm.endswith('checked_sub') and sv[2] in (('@Some', '.0'),):
            return True
    return False


def no_underflow_established(path):
    for (lsv, lit, _f, _b) in path.lits:
        t = path_truth(path, lsv)
        # overflow flag of overflowing_sub(remaining, cost)
        if lsv[0] == 'proj' and lsv[1][0] == 'call' and lsv[1][1].endswith('overflowing_sub') and lsv[1][2] == (REM, COST) and lsv[2] == ('.1',):
            if t is False:
                return True
        if lsv[0] == 'un' and lsv[1] == 'Not':
            inner = lsv[2]
            if inner[0] == 'proj' and inner[1][0] == 'call' and inner[1][1].endswith('overflowing_sub') and inner[1][2] == (REM, COST) and inner[2] == ('.1',):
                if t is True:
                    return True
        if lsv[0] == 'discr' and lsv[1][0] == 'call' and lsv[1][1].endswith('checked_sub') and lsv[1][2] == (REM, COST):
            if lit == ('eq', 1):
                return True
        if lsv[0] == 'bin':
            op, a, b = lsv[1], lsv[2], lsv[3]
            if (op, a, b, t) in (('Gt', COST, REM, False), ('Le', COST, REM, True), ('Ge', REM, COST, True), ('Lt', REM, COST, False)):
                return True
    return False


def run(ctx, rep):
    fx = ctx.facts('default')

    # ---------------------------------------------------------------- R1
    f, rs = sx_run(fx, 'record_cost', rep)
    if rs is not None:
        succ = [r for r in rs if r.stores]
        fail = [r for r in rs if not r.stores]
        ok = True
        if not succ:
            ok = False
            rep.violation('R1-record_cost', 'no-success-path', 'record_cost never updates remaining', f.where())
        for r in succ:
            keys = list(r.stores.keys())
            if len(keys) != 1 or keys[0][1] != ('.remaining',):
                ok = False
                rep.violation('R1-record_cost', 'stores', 'record_cost writes %s' % [k[1] for k in keys], f.where())
                continue
            v = r.stores[keys[0]]
            if not is_diff(v):
                ok = False
                rep.violation('R1-record_cost', 'stored-value', 'a successful charge stores %s, expected remaining - cost' % render(v), f.where())
            if not no_underflow_established(r):
                ok = False
                rep.violation('R1-record_cost', 'unguarded-store', 'remaining is updated on a path where cost <= remaining is not established (%s)' % [(render(l[0]), l[1]) for l in r.lits], f.where())
            if path_truth(r, r.ret) is not True:
                ok = False
                rep.violation('R1-record_cost', 'success-return', 'the path that charges does not return true (%s)' % render(r.ret), f.where())
        for r in fail:
            if path_truth(r, r.ret) is not False:
                ok = False
                rep.violation('R1-record_cost', 'failure-return', 'a path that leaves the meter unchanged does not return false (%s)' % render(r.ret), f.where())
        if not fail:
            ok = False
            rep.violation('R1-record_cost', 'no-failure-path', 'record_cost has no failing path: a charge larger than remaining is not rejected', f.where())
        if ok:
            rep.ok('R1-record_cost', 'table', '%d paths: charge iff no underflow, store remaining-cost, return flag' % len(rs))
        rep.sample({'record_cost_paths': [{'lits': [(render(l[0]), l[1]) for l in r.lits], 'ret': render(r.ret),
                                           'stores': {''.join(k[1]): render(v) for k, v in r.stores.items()}} for r in rs]})

    # ---------------------------------------------------------------- R2
    def expect_ret(name, want, descr):
        f, rs = sx_run(fx, name, rep)
        if rs is None:
            return
        if len(rs) == 1 and rs[0].ret == want and not rs[0].stores:
            rep.ok('R2-accessors', name, descr)
        else:
            rep.violation('R2-accessors', name, 'Gas::%s returns %s, expected %s' % (name, [render(r.ret) for r in rs], descr), f.where())

    def expect_store(name, field, want, descr):
        f, rs = sx_run(fx, name, rep)
        if rs is None:
            return
        good = len(rs) == 1 and len(rs[0].stores) == 1
        if good:
            (k, v), = rs[0].stores.items()
            good = k[1] == (field,) and (v == want if not callable(want) else want(v))
        if good:
            rep.ok('R2-accessors', name, descr)
        else:
            rep.violation('R2-accessors', name, 'Gas::%s performs %s, expected %s' % (name, [{''.join(k[1]): render(v) for k, v in r.stores.items()} for r in rs], descr), f.where())

    expect_ret('spent', SPENT, 'limit - remaining')
    expect_ret('remaining', REM, 'remaining')
    expect_ret('limit', LIM, 'limit')
    expect_ret('refunded', REF, 'refunded')
    A1 = ('sym', 'arg1')
    expect_ret('new', ('agg', 'revm_interpreter::gas::Gas', 'Gas', ('limit', 'remaining', 'refunded'), (A1, A1, K(0))), 'Gas{limit, remaining: limit, refunded: 0}')
    expect_ret('new_spent', ('agg', 'revm_interpreter::gas::Gas', 'Gas', ('limit', 'remaining', 'refunded'), (A1, K(0), K(0))), 'Gas{limit, remaining: 0, refunded: 0}')
    expect_store('spend_all', '.remaining', K(0), 'remaining = 0')
    expect_store('set_spent', '.remaining',
                 lambda v: v[0] == 'call' and v[1].endswith('saturating_sub') and v[2] == (LIM, COST), 'remaining = limit.saturating_sub(spent)')
    expect_store('set_refund', '.refunded', COST, 'refunded = refund')
    # R5 exceptions: unchecked accumulations
    expect_store('erase_cost', '.remaining', ('bin', 'Add', REM, COST), 'remaining += returned (listed exception, see R5)')
    expect_store('record_refund', '.refunded', ('bin', 'Add', REF, COST), 'refunded += refund (listed exception)')
    f, rs = sx_run(fx, 'spent_sub_refunded', rep)
    if rs is not None:
        good = len(rs) == 1 and rs[0].ret[0] == 'call' and rs[0].ret[1].endswith('saturating_sub') and rs[0].ret[2] == (SPENT, ('cast', 'u64', REF))
        if good:
            rep.ok('R2-accessors', 'spent_sub_refunded', 'spent.saturating_sub(refunded as u64)')
        else:
            rep.violation('R2-accessors', 'spent_sub_refunded', 'returns %s' % [render(r.ret) for r in rs], f.where())

    # ---------------------------------------------------------------- R3
    check_final_refund(fx, rep)

    # ---------------------------------------------------------------- R4
    check_writers(fx, rep)

    # ---------------------------------------------------------------- R5
    check_erase_sites(ctx, rep)
    rep.assume('the refund counter handed to set_final_refund is non-negative (EIP-2200/3529 keep the transaction-level counter >= 0); a negative i64 would cast to a huge u64 and be capped by min')
    rep.assume('erase_cost/record_refund accumulate unchecked: sound only with frame accounting (R5)')


def check_final_refund(fx, rep):
    f, rs = sx_run(fx, 'set_final_refund', rep)
    if rs is None:
        return
    flag = ('sym', 'arg2')
    table = {}
    for r in rs:
        t = path_truth(r, flag)
        if t is None or len(r.stores) != 1:
            rep.violation('R3-final-refund', 'shape', 'set_final_refund is not a two-way table on is_london (%s)' % [(render(l[0]), l[1]) for l in r.lits], f.where())
            return
        (k, v), = r.stores.items()
        table[t] = (k[1], v)
    for london, q in ((True, 5), (False, 2)):
        if london not in table:
            rep.violation('R3-final-refund', 'is_london=%s' % london, 'no path for is_london=%s' % london, f.where())
            continue
        field, v = table[london]
        inner = v[2] if v[0] == 'cast' else v
        good = field == ('.refunded',) and inner[0] == 'call' and inner[1].endswith('min')
        if good:
            a, b = inner[2]
            cap = ('bin', 'Div', SPENT, K(q))
            refu = ('cast', 'u64', REF)
            good = {a, b} == {cap, refu}
        key = 'is_london=%s' % london
        if good:
            rep.ok('R3-final-refund', key, 'refunded = min(refunded, spent / %d)' % q)
        else:
            rep.violation('R3-final-refund', key, 'for is_london=%s the final refund is %s, expected min(refunded, spent / %d)' % (london, render(v), q), f.where())
    # callers pass is_enabled_in(LONDON)
    n = 0
    for cfgf in fx.callers_of(G + 'set_final_refund'):
        if not cfgf.crate or cfgf.crate.endswith('-test'):
            continue
        for bi, t in cfgf.calls():
            if t.target_fn == G + 'set_final_refund':
                n += 1
                rep.fn(cfgf)
                og = Origins(cfgf, fx)
                oo = og.of_operand(t.args[1])
                good = True
                for o in oo:
                    r = o.root
                    if r[0] == 'call' and r[1].endswith(('SpecId::is_enabled_in', 'Spec::enabled', 'SpecId::enabled')):
                        tb = cfgf.blocks[r[2]].term
                        last = og.of_operand(tb.args[-1])
                        if not all((x.root[0] == 'const' and 'LONDON' in str(x.root[2])) or (x.root[0] == 'agg' and x.root[2] == 'LONDON') for x in last):
                            good = False
                    else:
                        good = False
                key = 'caller:%s' % cfgf.nq.split('::')[-1]
                if good:
                    rep.ok('R3-final-refund', key, 'passes is_enabled_in(LONDON)')
                else:
                    rep.violation('R3-final-refund', key, '%s passes %s as is_london' % (cfgf.nq, [o.render() for o in oo]), cfgf.where(bi))
    rep.floor('set_final_refund-callers', n, 1)


def check_writers(fx, rep):
    adt = fx.adts.get('revm_interpreter::gas::Gas')
    if adt is None:
        rep.undecided('R4-writers', 'Gas', 'ADT not found')
        return
    for fld in adt['variants'][0]['fields']:
        if fld['vis'] == 'Public':
            rep.violation('R4-writers', 'field-%s-public' % fld['name'], 'Gas.%s is public: any crate can write the meter' % fld['name'])
        else:
            rep.ok('R4-writers', 'field-%s-private' % fld['name'], fld['vis'])
    allowed = {'new', 'new_spent', 'erase_cost', 'spend_all', 'record_refund', 'set_final_refund', 'set_refund', 'set_spent', 'record_cost'}
    for f in fx.fns_all:
        if not f.crate or not f.crate.startswith('revm_interpreter:') or f.crate.endswith('-test'):
            continue
        hit = False
        for b in f.blocks:
            if b.cleanup:
                continue
            for s in b.stmts:
                if s.kind != 'assign':
                    continue
                if s.place.pr and s.place.pr[-1] in ('.remaining', '.limit', '.refunded'):
                    # is the base a Gas?
                    base = f.local_ty(s.place.b)
                    if 'gas::Gas' in base or (len(s.place.pr) >= 2 and s.place.pr[-2] == '.gas'):
                        hit = True
                if s.rv.rv == 'agg' and s.rv.d.get('adt', '').endswith('gas::Gas'):
                    hit = True
        if hit:
            nm = f.nq
            if nm.startswith(G) and nm[len(G):] in allowed:
                rep.ok('R4-writers', nm[len(G):], 'listed method', nontrivial=False)
            elif f.impl_trait in ('core::clone::Clone', 'core::default::Default') or 'serde' in nm or '_::' in nm:
                rep.ok('R4-writers', nm.split('::')[-1], 'derived impl', nontrivial=False)
            else:
                rep.violation('R4-writers', nm.split('::')[-1], 'unexpected writer of Gas fields: %s' % nm, f.where())


def check_erase_sites(ctx, rep):
    """every erase_cost argument is Gas::remaining() of a finished child (outcome / result gas)"""
    n = 0
    cfgs = ['default'] if ctx.tier == 'quick' else ['default', 'optimism']
    seen = set()
    for cfgn in cfgs:
        fx = ctx.facts(cfgn)
        for f in fx.callers_of(G + 'erase_cost'):
            if not f.crate or f.crate.endswith('-test'):
                continue
            for bi, t in f.calls():
                if t.target_fn != G + 'erase_cost':
                    continue
                ident = (f.nq, sum(1 for b2, t2 in f.calls() if t2.target_fn == t.target_fn and b2 < bi))
                if ident in seen:
                    continue
                seen.add(ident)
                n += 1
                rep.fn(f)
                og = Origins(f, fx)
                oo = og.of_operand(t.args[1])
                good = True
                why = []
                for o in oo:
                    # Gas::remaining(x) is a getter: origin = <x>.remaining
                    if o.path and o.path[-1] == '.remaining' and o.root[0] in ('param', 'call'):
                        why.append(o.render())
                    elif o.root[0] == 'call' and o.root[1] == G + 'remaining':
                        why.append(o.render())
                    else:
                        good = False
                        why.append(o.render())
                key = '%s#%d' % (f.nq.split('::')[-1], ident[1])
                if good:
                    rep.ok('R5-erase-origin', key, why)
                elif cfgn == 'optimism' and 'last_frame_return' in f.nq and any('gas_limit' in w for w in why):
                    rep.ok('R5-erase-origin', key + ':bedrock-deposit', 'listed exception: failed system deposit before Regolith returns its whole gas limit', nontrivial=False)
                else:
                    rep.violation('R5-erase-origin', key, 'erase_cost is given %s, not the remaining gas of a finished frame' % why, f.where(bi))
    rep.floor('erase_cost-sites', n, 8)
