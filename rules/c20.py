"""C20 — database wrappers answer like what they wrap (structural agreement of sibling impls).

R1 no wrapper impl of Database/DatabaseRef (or State/StateRef/BlockHash*) inherits a query method
   from a trait default (the only defaults answer without consulting the wrapped database);
R2 thin wrappers (&mut T, Box<T>, &T, Rc<T>, Arc<T>, WrapDatabaseRef, DatabaseComponents) delegate
   each query to the same-named inner query with their own arguments, in order, and return its result;
R3 caching wrappers (CacheDB, State): every query forwarded to the wrapped database is keyed by the
   wrapper method's own parameters (same position for the same-named query), and the value written
   to the cache on a miss is the value returned.
"""
from cfg import cfg_of, Origins
from facts import strip_generics

META = {
    'level': 'other',
    'decides': 'which Database/DatabaseRef implementations inherit a default query; that thin wrappers forward each query unchanged; that caching wrappers key forwarded queries by their own parameters',
    'does_not_decide': 'value-level equality of answers over query histories; the block-hash pruning arithmetic; correctness of leaf databases',
    'explanation': 'Sibling-implementation agreement over resolved impl facts (provided vs inherited items) and value-origin analysis of each forwarding method body.',
}

DB_TRAITS = ('db::Database', 'db::DatabaseRef')
COMPONENT_TRAITS = ('state::State', 'state::StateRef', 'block_hash::BlockHash', 'block_hash::BlockHashRef')
QUERY = {'basic', 'code_by_hash', 'has_storage', 'storage', 'block_hash',
         'basic_ref', 'code_by_hash_ref', 'has_storage_ref', 'storage_ref', 'block_hash_ref'}


def base_name(n):
    return n[:-4] if n.endswith('_ref') else n


def is_family(trait):
    return trait.endswith(DB_TRAITS) or trait.endswith(COMPONENT_TRAITS)


def wraps_database(impl):
    """the impl is generic over a type that is itself a database (component)"""
    for p in impl['preds']:
        if ':' not in p:
            continue
        bound = p.split(':', 1)[1]
        if any(t in bound for t in ('db::Database', 'db::DatabaseRef', 'state::State', 'state::StateRef', 'block_hash::BlockHash')):
            return True
    return False


THIN_SELF = ("&'a mut T", 'alloc::boxed::Box<T>', "&'a T", 'alloc::rc::Rc<T>', 'alloc::sync::Arc<T>', '&T')


def short_self(s):
    s = strip_generics(s)
    return s.split('::')[-1] if '::' in s and not s.startswith('&') else s


def run(ctx, rep):
    cfgs = ['default'] if ctx.tier == 'quick' else ['default', 'optimism']
    seen_impl = set()
    n_wrappers = 0
    n_thin_methods = 0
    n_fwd = 0
    for cfg in cfgs:
        fx = ctx.facts(cfg)
        by_impl = {}
        for f in fx.fns_all:
            if f.impl_trait and f.impl_self:
                by_impl.setdefault((f.impl_self, f.impl_trait, f.name), f)
        for im in fx.impls:
            tr = strip_generics(im.get('trait', ''))
            if not tr or not is_family(tr):
                continue
            if not tr.endswith(DB_TRAITS) and not tr.endswith(COMPONENT_TRAITS):
                continue
            ident = (im['self'], tr)
            if ident in seen_impl:
                continue
            seen_impl.add(ident)
            sself = short_self(im['self'])
            tshort = tr.split('::')[-1]
            wrapper = wraps_database(im)
            key = '%s as %s' % (sself, tshort)
            if not wrapper:
                rep.ok('R1-no-inherited-query', key + ':leaf', 'leaf database: exempt', nontrivial=False)
                continue
            n_wrappers += 1
            inh = [m for m in im['inherited'] if m in QUERY]
            if inh:
                for m in inh:
                    rep.violation('R1-no-inherited-query', '%s:%s' % (key, m),
                                  'impl %s for %s inherits the trait default of `%s`, which answers a constant without consulting the wrapped database' % (tshort, im['self'], m),
                                  '%s:%s' % (im['file'], im['line']))
            else:
                rep.ok('R1-no-inherited-query', key, 'provides ' + ','.join(m for m in im['provided'] if m in QUERY))
            # R2 thin wrappers
            thin = im['self'] in THIN_SELF or sself in ('WrapDatabaseRef', 'DatabaseComponents')
            for m in im['provided']:
                if m not in QUERY:
                    continue
                f = by_impl.get((im['self'], tr, m))
                if f is None:
                    rep.undecided('R2-thin-delegation', '%s:%s' % (key, m), 'method body not found in facts')
                    continue
                rep.fn(f)
                if thin:
                    n_thin_methods += 1
                    check_thin(fx, f, key, m, rep)
                else:
                    n_fwd += check_forwarding(fx, f, key, m, rep)
    n_cg = check_cleared_guard(ctx.facts('default'), rep)
    rep.floor('cleared-storage-guards', n_cg, 3)
    rep.floor('wrapper-impls', n_wrappers, 27)
    rep.floor('thin-wrapper-methods', n_thin_methods, 70)
    rep.floor('caching-wrapper-forwarded-queries', n_fwd, 10)
    # State is a wrapper as well: when it stops asking the wrapped database is decided by the account
    # status machine and the AccountInfo predicates it branches on (C15 R2, R2c, R4, R4b)
    import engine
    import c15
    sub = engine.SubReport(rep, 'C15')
    fxd = ctx.facts('default')
    c15.check_status_machine(fxd, sub)
    c15.check_info_predicates(fxd, sub)
    c15.check_reads(fxd, sub)
    c15.check_has_storage_answers(fxd, sub)
    rep.assume('leaf databases (EmptyDBTyped, BenchmarkDB, EthersDB, AlloyDB) may answer has_storage with the default')


ACCOUNT_STATE = 'revm::db::in_memory_db::AccountState'
# AccountState variants for which the wrapped database still holds the account's storage (from the
# enum's documentation: NotExisting = no account, StorageCleared = cleared by the EVM)
INNER_STORAGE_VALID = {'None', 'Touched'}


def account_state_guard(fx, f, og, site):
    """variants of AccountState under which `site` is reachable, from the dominating guards that test
    `<cached account>.account_state` (directly by discriminant or through a predicate method)"""
    from cfg import guards_of
    from c21 import enum_predicate
    adt = fx.adts.get(ACCOUNT_STATE)
    if adt is None:
        return None
    byd = {v.get('discr', i): v['name'] for i, v in enumerate(adt['variants'])}
    allv = set(byd.values())
    allowed = None
    for g in guards_of(f, og, site):
        for o in g.discr:
            r = o.root
            vs = None
            if r[0] == 'discr' and all(x.path[-1:] == ('.account_state',) for x in r[1]):
                if 'otherwise' in g.vals:
                    listed = {byd.get(v) for v, _ in g.term.d['arms']}
                    mine = {byd.get(v) for v in g.vals if v != 'otherwise'}
                    vs = (allv - listed) | mine
                else:
                    vs = {byd.get(v) for v in g.vals}
            elif r[0] == 'call' and r[1].startswith(ACCOUNT_STATE + '::'):
                t = f.blocks[r[2]].term
                ao = og.of_operand(t.args[0])
                if all(x.path[-1:] == ('.account_state',) for x in ao):
                    pf = fx.fns.get(r[1])
                    tb = enum_predicate(fx, pf, ACCOUNT_STATE) if pf is not None else None
                    tv = g.truth()
                    if tb is not None and tv is not None:
                        vs = {k for k, v in tb.items() if v == tv}
            if vs is not None:
                allowed = vs if allowed is None else (allowed & vs)
    return allowed


def check_cleared_guard(fx, rep, rule='R4-cleared-storage-agreement', only=None):
    """CacheDB: whenever a storage-type query is forwarded for an account that is in the cache, it is
    forwarded exactly for the account states in which the wrapped database is still authoritative;
    the sibling methods (storage, storage_ref, has_storage_ref) must agree on that set."""
    n = 0
    for f in fx.fns_all:
        if not (f.impl_self and f.impl_self.startswith('revm::db::in_memory_db::CacheDB') and f.impl_trait and f.impl_trait.endswith(DB_TRAITS)):
            continue
        if f.name not in ('storage', 'storage_ref', 'has_storage', 'has_storage_ref'):
            continue
        if only and f.name not in only:
            continue
        og = Origins(f, fx)
        guarded = 0
        for bi, t in family_calls(f):
            inner = t.callee.split('::')[-1]
            if base_name(inner) not in ('storage', 'has_storage'):
                continue
            recv = og.of_operand(t.args[0])
            if not all(o.path[-1:] == ('.db',) for o in recv):
                continue   # delegation to the sibling impl on self, not to the wrapped database
            allowed = account_state_guard(fx, f, og, bi)
            if allowed is None:
                continue   # account not cached on this path
            guarded += 1
            n += 1
            key = 'CacheDB::%s->%s' % (f.name, inner)
            if allowed == INNER_STORAGE_VALID:
                rep.ok(rule, key, 'forwarded iff account_state in %s' % sorted(allowed))
            else:
                rep.violation(rule, key,
                              'CacheDB::%s asks the wrapped database about a cached account when account_state is in %s; the wrapped data is authoritative exactly for %s (siblings disagree)' % (
                                  f.name, sorted(allowed), sorted(INNER_STORAGE_VALID)), f.where(bi))
        if f.name in ('storage', 'storage_ref', 'has_storage_ref') and guarded == 0:
            rep.violation(rule, 'CacheDB::%s:unguarded' % f.name, 'CacheDB::%s forwards storage queries for cached accounts without testing account_state' % f.name, f.where())
    return n


def family_calls(f):
    out = []
    for bi, t in f.calls():
        tr = t.d.get('trait')
        if tr and is_family(strip_generics(tr)):
            out.append((bi, t))
    return out


def check_thin(fx, f, key, m, rep):
    calls = family_calls(f)
    k = '%s:%s' % (key, m)
    if len(calls) != 1:
        rep.violation('R2-thin-delegation', k, 'thin wrapper method makes %d inner queries, expected exactly one' % len(calls), f.where())
        return
    bi, t = calls[0]
    inner = t.callee.split('::')[-1]
    if base_name(inner) != base_name(m):
        rep.violation('R2-thin-delegation', k, 'forwards `%s` to the inner `%s`' % (m, inner), f.where(bi))
        return
    og = Origins(f, fx)
    # arguments after the receiver are this method's parameters, in order
    for i, a in enumerate(t.args[1:], start=2):
        oo = og.of_operand(a)
        if not (len(oo) == 1 and oo[0].root == ('param', i) and not oo[0].path):
            rep.violation('R2-thin-delegation', k + ':arg%d' % (i - 1), 'argument %d of the inner query is %s, expected this method\'s own parameter %d' % (i - 1, oo, i - 1), f.where(bi))
            return
    if len(t.args) != f.argc:
        rep.violation('R2-thin-delegation', k + ':arity', 'inner query receives %d arguments, wrapper has %d' % (len(t.args), f.argc), f.where(bi))
        return
    # receiver is (a projection of) self
    ro = og.of_operand(t.args[0])
    if not all(o.root == ('param', 1) for o in ro):
        rep.violation('R2-thin-delegation', k + ':receiver', 'inner query receiver is %s, not self' % ro, f.where(bi))
        return
    # the returned value is the inner result (optionally through map_err)
    ret = og.of_local(0, 12)
    good = True
    for o in ret:
        r = o.root
        if r[0] == 'call' and r[2] == bi:
            continue
        if r[0] == 'call' and r[1] in ('core::result::Result::map_err',):
            tb = f.blocks[r[2]].term
            inner_o = og.of_operand(tb.args[0])
            if all(x.root[0] == 'call' and x.root[2] == bi for x in inner_o):
                continue
        # `let v = inner.query(..)?; Ok(v)`: the same result taken apart and put together again
        if r[0] == 'agg' and str(r[1]).endswith('result::Result') and r[2] == 'Ok' and len(r[4]) == 1 \
                and r[4][0] and all(x.root[0] == 'call' and x.root[2] == bi for x in r[4][0]):
            continue
        if r[0] == 'call' and r[1].endswith('FromResidual::from_residual'):
            tb = f.blocks[r[2]].term
            inner_o = og.of_operand(tb.args[0])
            if inner_o and all(x.root[0] == 'call' and x.root[2] == bi for x in inner_o):
                continue
        good = False
    if good:
        rep.ok('R2-thin-delegation', k, 'forwards to %s' % inner)
    else:
        rep.violation('R2-thin-delegation', k + ':result', 'returned value %s is not the inner query\'s result' % ret, f.where())


def check_forwarding(fx, f, key, m, rep):
    """caching wrappers: inner queries keyed by own parameters"""
    n = 0
    og = Origins(f, fx)
    # also look into closures of this method (e.g. `entry.or_insert_with(|| db.basic_ref(..))`)
    bodies = [f] + fx.closures_of(f.nq)
    for body in bodies:
        ogb = og if body is f else Origins(body, fx)
        for bi, t in family_calls(body):
            inner = t.callee.split('::')[-1]
            n += 1
            k = '%s:%s->%s' % (key, m, inner)
            bad = None
            for i, a in enumerate(t.args[1:], start=2):
                oo = ogb.of_operand(a)
                for o in oo:
                    if body is f:
                        if o.root[0] != 'param' or o.root[1] < 2:
                            bad = 'argument %d is %s, not a parameter of the wrapper method' % (i - 1, o)
                        elif base_name(inner) == base_name(m) and o.root[1] != i:
                            bad = 'argument %d comes from parameter %d of the wrapper method' % (i - 1, o.root[1] - 1)
                    else:
                        # inside a closure: arguments must be captured values (closure env = param 1)
                        if o.root[0] != 'param':
                            bad = 'argument %d is %s, not a captured parameter' % (i - 1, o)
            if bad:
                rep.violation('R3-forwarded-query-key', k, bad, body.where(bi))
            else:
                rep.ok('R3-forwarded-query-key', k)
    return n
