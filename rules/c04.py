"""C04 — a jump is accepted only onto a real JUMPDEST outside push data.

R1 jump_inner: the store to the instruction pointer is guarded by is_valid_jump(target) == true for the
   same target that is added to the code base pointer; the other edge and the usize-conversion failure
   both set InvalidJump;
R2 JumpTable::is_valid: the bit read is guarded by pc < len; Contract::is_valid_jump answers false
   unless the bytecode carries a legacy jump table (only the LegacyAnalyzed variant does);
R3 analysis step table: the loop body of `analyze` is a function of one byte; its three paths are
   extracted and evaluated for all 256 byte values: marks-jumpdest == (b == 0x5B) and
   advance == 1 + (b - 0x5F if 0x60 <= b <= 0x7F else 0), equal to 1 + immediate_size of the opcode
   table for every legacy opcode; the bit index is the byte's offset from the code start; the loop
   runs while iterator < end and the table has code.len() bits;
R4 padding: to_analysed pads with a constant >= 1 + the largest immediate of any legacy opcode.
"""
from cfg import cfg_of, Origins, guards_of
from symx import Symx, render, lit_truth
from dte import Valuation, Unknown
from tables import blocks_setting_result

META = {
    'level': 'proof',
    'decides': 'the jump guard and its failure results, the bounds test of the jump table, which bytecode variants can validate a jump, the complete per-byte step table of the jump analysis (256 cells) and its agreement with the opcode table\'s immediate sizes, and the padding constant',
    'does_not_decide': 'bitvec indexing and raw pointer arithmetic of the standard library / bitvec crate (trusted); lazily analysed code paths other than to_analysed',
    'explanation': 'Guard extraction with origin identity (A7/A2) in jump_inner and JumpTable::is_valid; path enumeration of the analysis loop body and exhaustive evaluation over the 256 byte values (finite domain); const evaluation of OPCODE_INFO_JUMPTABLE.',
}

I = 'revm_interpreter::'


def run(ctx, rep):
    fx = ctx.facts('default')
    check_jump_inner(fx, rep)
    check_is_valid(fx, rep)
    imm = opcode_immediates(fx, rep)
    check_analyze(fx, rep, imm)
    check_padding(fx, rep, imm)
    check_analyze_whole_code(fx, rep)
    rep.assume('bitvec set_unchecked/index and pointer offset behave as documented')


def check_jump_inner(fx, rep):
    f = fx.fns.get(I + 'instructions::control::jump_inner')
    if f is None:
        rep.undecided('R1-jump-guard', 'jump_inner', 'not found')
        return
    rep.fn(f)
    og = Origins(f, fx)
    cfg = cfg_of(f)
    stores = []
    for b in f.blocks:
        if b.cleanup:
            continue
        for s in b.stmts:
            if s.kind == 'assign' and s.place.pr and s.place.pr[-1] == '.instruction_pointer':
                stores.append((b.i, s))
    if len(stores) != 1:
        rep.undecided('R1-jump-guard', 'store', 'expected one instruction_pointer store, found %d' % len(stores), f.where())
        return
    bi, s = stores[0]
    # value = as_ptr(bytecode).add(target)
    tgt = None
    for o in og.of_operand(s.rv.ops[0]):
        if o.root[0] == 'call' and o.root[1].endswith('::add'):
            t = f.blocks[o.root[2]].term
            base = og.of_operand(t.args[0])
            if all(x.root[0] == 'call' and x.root[1].endswith('as_ptr') for x in base):
                tgt = set(og.of_operand(t.args[1]))
    if tgt is None:
        rep.violation('R1-jump-guard', 'store-shape', 'the new instruction pointer is not bytecode.as_ptr().add(target)', f.where(bi))
        return
    ok = False
    for g in guards_of(f, og, bi):
        for d in g.discr:
            r = d.root
            neg = False
            if r[0] == 'un' and r[1] == 'Not' and len(r[2]) == 1:
                neg = True
                r = r[2][0].root
            if r[0] == 'call' and r[1].endswith('Contract::is_valid_jump'):
                t = f.blocks[r[2]].term
                arg = set(og.of_operand(t.args[1]))
                truth = g.truth()
                if truth is not None and (truth != neg) and arg == tgt:
                    ok = True
    if ok:
        rep.ok('R1-jump-guard', 'jump_inner', 'ip = base + target only under is_valid_jump(target)')
    else:
        rep.violation('R1-jump-guard', 'jump_inner', 'the instruction pointer is moved to base + target without is_valid_jump(target) == true on the same target', f.where(bi))
    bad = blocks_setting_result(f, 'InvalidJump')
    if len(bad) >= 2:
        rep.ok('R1-jump-guard', 'failure-result', '%d InvalidJump exits (conversion failure and invalid target)' % len(bad))
    else:
        rep.violation('R1-jump-guard', 'failure-result', 'jump_inner reports InvalidJump on %d exits, expected the conversion failure and the invalid-target exit' % len(bad), f.where())
    # both JUMP and JUMPI go through jump_inner
    for nm in ('jump', 'jumpi'):
        h = fx.fns.get(I + 'instructions::control::' + nm)
        if h is None or not any(t.target_fn == f.nq for _, t in h.calls()):
            rep.violation('R1-jump-guard', nm + ':uses-jump_inner', '%s does not go through jump_inner' % nm)
        else:
            rep.fn(h)
            rep.ok('R1-jump-guard', nm + ':uses-jump_inner')


def check_is_valid(fx, rep):
    f = fx.fns.get('revm_primitives::bytecode::legacy::jump_map::JumpTable::is_valid')
    if f is None:
        rep.undecided('R2-table-bounds', 'JumpTable::is_valid', 'not found')
    else:
        rep.fn(f)
        og = Origins(f, fx)
        reads = [bi for bi, t in f.calls() if (t.callee or '').endswith('Index::index')]
        ok = bool(reads)
        for bi in reads:
            good = False
            for g in guards_of(f, og, bi):
                for d in g.discr:
                    r = d.root
                    if r[0] == 'bin' and r[1] == 'Lt' and g.truth() is True:
                        a, c = r[2], r[3]
                        if all(x.root == ('param', 2) for x in a) and all(x.root[0] == 'call' and x.root[1].endswith('len') for x in c):
                            good = True
            ok = ok and good
        if ok:
            rep.ok('R2-table-bounds', 'JumpTable::is_valid', 'bit read only under pc < len')
        else:
            rep.violation('R2-table-bounds', 'JumpTable::is_valid', 'the jump bit is read without the dominating test pc < len', f.where())
    g = fx.fns.get(I + 'interpreter::contract::Contract::is_valid_jump')
    if g is not None:
        rep.fn(g)
        og = Origins(g, fx)
        ok = False
        for o in og.of_local(0, 10):
            if o.root[0] == 'call' and o.root[1].endswith('unwrap_or'):
                t = g.blocks[o.root[2]].term
                dflt = og.of_operand(t.args[1])
                src = og.of_operand(t.args[0])
                if all(x.root[0] == 'const' and x.root[1] == 0 for x in dflt):
                    ok = True
        if ok:
            rep.ok('R2-table-bounds', 'Contract::is_valid_jump', 'no jump table => false')
        else:
            rep.violation('R2-table-bounds', 'Contract::is_valid_jump', 'is_valid_jump does not default to false when the bytecode has no jump table', g.where())
    h = fx.fns.get('revm_primitives::bytecode::Bytecode::legacy_jump_table')
    if h is not None:
        rep.fn(h)
        from tables import match_table
        tb = match_table(fx, h, 'revm_primitives::bytecode::Bytecode')
        bad = []
        for v, sv in tb.items():
            some = sv is not None and sv[0] == 'agg' and sv[2] == 'Some'
            if v == 'LegacyAnalyzed' and not some:
                bad.append(v)
            if v != 'LegacyAnalyzed' and (sv is None or not (sv[0] == 'agg' and sv[2] == 'None')):
                bad.append(v)
        if bad:
            rep.violation('R2-table-bounds', 'legacy_jump_table', 'Bytecode::legacy_jump_table: unexpected answer for %s (only LegacyAnalyzed may carry a table)' % bad, h.where())
        else:
            rep.ok('R2-table-bounds', 'legacy_jump_table', 'Some only for LegacyAnalyzed (%d variants)' % len(tb))


def opcode_immediates(fx, rep):
    c = fx.consts.get(I + 'opcode::OPCODE_INFO_JUMPTABLE')
    if not c or 'val' not in c:
        rep.undecided('R3-step-table', 'OPCODE_INFO_JUMPTABLE', 'constant not evaluable')
        return None
    out = {}
    for b, ent in enumerate(c['val']['fields']):
        if isinstance(ent, dict) and ent.get('variant') == 'Some':
            info = ent['fields'][0]
            names = info.get('names', [])
            fl = info['fields']
            d = dict(zip(names, fl))
            out[b] = (d.get('immediate_size'), d.get('not_eof'))
    return out


def check_analyze(fx, rep, imm):
    f = fx.fns.get(I + 'interpreter::analysis::analyze')
    if f is None:
        rep.undecided('R3-step-table', 'analyze', 'not found')
        return
    rep.fn(f)
    WS = 'core::num::<impl u8>::wrapping_sub'
    rs = Symx(fx, pure={WS}).run(f)
    body = [p for p in rs if p.cut]
    exits = [p for p in rs if not p.cut]
    # loop condition: iterator < end
    cond_ok = all(any(l[0][0] == 'bin' and l[0][1] == 'Lt' and lit_truth(l[1]) is True for l in p.lits) for p in body) and \
        all(any(l[0][0] == 'bin' and l[0][1] == 'Lt' and lit_truth(l[1]) is False for l in p.lits) for p in exits)
    if cond_ok and body:
        rep.ok('R3-step-table', 'loop-condition', 'while iterator < end')
    else:
        rep.violation('R3-step-table', 'loop-condition', 'the analysis loop is not `while iterator < end`', f.where())
    # identify the opcode symbol: the deref of the iterator
    opsym = None
    for p in body:
        for l in p.lits:
            for sub in (l[0][2:] if l[0][0] == 'bin' else ()):
                if isinstance(sub, tuple) and sub[0] == 'sym' and len(sub) == 3 and sub[1] == 'deref':
                    opsym = sub
    if opsym is None or len(body) < 2:
        rep.undecided('R3-step-table', 'body', 'loop body paths not recognised (%d)' % len(body), f.where())
        return
    key = render(opsym)
    cells = 0
    bad = []
    for b in range(256):
        val = Valuation(syms={key: b}, calls={WS: lambda x, y: (x - y) % 256})
        sel = []
        for p in body:
            good = True
            for (sv, lit, _f, _b) in p.lits:
                if sv[0] == 'bin' and sv[1] == 'Lt' and sv[2][0] != 'call':
                    continue    # the loop condition
                try:
                    v = val.of(sv)
                except Unknown:
                    good = None
                    break
                if (lit[0] == 'eq' and v != lit[1]) or (lit[0] == 'ne' and v in lit[1]):
                    good = False
                    break
            if good is None:
                rep.undecided('R3-step-table', 'byte-%02X' % b, 'body branches on something other than the current byte', f.where())
                return
            if good:
                sel.append(p)
        if len(sel) != 1:
            rep.undecided('R3-step-table', 'byte-%02X' % b, '%d body paths for one byte' % len(sel), f.where())
            return
        p = sel[0]
        marks = [e for e in p.events if e[0].endswith('set_unchecked')]
        offs = [e for e in p.events if e[0].endswith('::offset')]
        try:
            adv = val.of(offs[-1][1][1]) if offs else None
        except Unknown:
            adv = None
        want_mark = (b == 0x5B)
        want_adv = 1 + ((b - 0x5F) if 0x60 <= b <= 0x7F else 0)
        cells += 1
        mark_ok = bool(marks) == want_mark
        if marks:
            # index = iterator.offset_from(start), value true
            idx = marks[0][1][1]
            if 'offset_from' not in render(idx) or marks[0][1][2] != ('k', 1):
                mark_ok = False
        if not mark_ok or adv != want_adv:
            bad.append((b, bool(marks), adv, want_mark, want_adv))
        elif imm is not None and b in imm and imm[b][1] is not True and not (0xD0 <= b <= 0xEF or b in (0xF7, 0xF8, 0xF9, 0xFB)):
            # agreement with the opcode table for legacy opcodes: advance = 1 + immediate
            if imm[b][0] is not None and adv != 1 + imm[b][0]:
                bad.append((b, 'immediate_size %s' % imm[b][0], adv, want_mark, want_adv))
    if bad:
        b0 = bad[0]
        rep.violation('R3-step-table', 'byte-%02X' % b0[0], 'analysis step for byte 0x%02X: marks=%s advance=%s, expected marks=%s advance=%s (%d of 256 cells differ)' % (b0[0], b0[1], b0[2], b0[3], b0[4], len(bad)), f.where())
    else:
        rep.ok('R3-step-table', 'all-bytes', '256 cells: mark iff 0x5B, advance 1 + push immediate')
    rep.floor('analysis-step-cells', cells, 256)
    # the table has one bit per code byte
    ok_len = any(e[0].endswith('repeat') and 'len(' in render(e[1][1]) for p in rs for e in p.events) or \
        any('len(' in render(a) for p in rs for e in p.events for a in e[1] if e[0].endswith(('BitVec::repeat', 'repeat')))
    if ok_len:
        rep.ok('R3-step-table', 'table-length', 'bitvec of code.len() zero bits')
    else:
        rep.violation('R3-step-table', 'table-length', 'the jump table is not created with code.len() bits', f.where())


def check_padding(fx, rep, imm):
    f = fx.fns.get(I + 'interpreter::analysis::to_analysed')
    if f is None:
        rep.undecided('R4-padding', 'to_analysed', 'not found')
        return
    rep.fn(f)
    og = Origins(f, fx)
    pad = None
    for bi, t in f.calls():
        if (t.callee or '').endswith('Vec::resize'):
            for o in og.of_operand(t.args[1]):
                r = o.root
                if r[0] == 'bin' and r[1].startswith('Add'):
                    cs = [x.root[1] for x in r[3] if x.root[0] == 'const']
                    if cs:
                        pad = cs[0]
            fill = og.of_operand(t.args[2])
            if not all(x.root[0] == 'const' and x.root[1] == 0 for x in fill):
                rep.violation('R4-padding', 'fill', 'padding bytes are not zero (STOP)', f.where(bi))
    if pad is None:
        rep.undecided('R4-padding', 'constant', 'padding constant not found', f.where())
        return
    need = 33
    if imm:
        legacy = [v[0] for b, v in imm.items() if v[0] is not None and not (0xD0 <= b <= 0xEF) and b not in (0xF7, 0xF8, 0xF9, 0xFB)]
        need = 1 + max(legacy)
    if pad >= need:
        rep.ok('R4-padding', 'constant', 'pad %d >= 1 + max legacy immediate (%d)' % (pad, need - 1))
    else:
        rep.violation('R4-padding', 'constant', 'to_analysed pads with %d zero bytes; a trailing PUSH32 needs %d so that reading its immediate and the following STOP stays inside the buffer' % (pad, need), f.where())


def check_analyze_whole_code(fx, rep):
    """R5: the jump table is built from the WHOLE padded code: the argument of analyze() in
    to_analysed is the padded buffer itself, not a slice of it (a JUMPDEST beyond an analysed prefix
    would be reported invalid although it is inside the code)."""
    from cfg import Origins
    f = fx.fns.get('revm_interpreter::interpreter::analysis::to_analysed')
    if f is None:
        rep.undecided('R5-analyze-whole-code', 'to_analysed', 'not found')
        return
    rep.fn(f)
    og = Origins(f, fx)
    calls = [(bi, t) for bi, t in f.calls() if (t.target_fn or '').endswith('analysis::analyze')]
    if len(calls) != 1:
        rep.violation('R5-analyze-whole-code', 'to_analysed', 'to_analysed calls analyze %d times' % len(calls), f.where())
        return
    bi, t = calls[0]
    oo = og.of_operand(t.args[0])
    sliced = [o for o in oo if o.root[0] == 'call' and o.root[1].split('::')[-1] in ('index', 'get', 'get_unchecked', 'split_at', 'split_first', 'split_last', 'chunks', 'truncate', 'take')]
    whole = [o for o in oo if o.root[0] == 'call' and o.root[1].endswith(('Vec::with_capacity', 'Vec::new')) and not o.path]
    if sliced or not whole or len(whole) != len(oo):
        rep.violation('R5-analyze-whole-code', 'to_analysed', 'analyze() is given %s instead of the whole padded buffer: destinations outside the analysed part are never valid' % [o.render() for o in oo], f.where(bi))
    else:
        rep.ok('R5-analyze-whole-code', 'to_analysed', 'analyze(padded buffer)')
