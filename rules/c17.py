"""C17 — bundle reverts record the exact values before each merged transition (decidable skeleton).

The storage values recorded across many merges are history-dependent and not decided.  The revert's
shape is a finite function of (status of the bundle account, status carried by the transition) and
is decided for all 64 pairs by partial evaluation of BundleAccount::update_and_create_revert:
R1 coverage: every pair the status machine (C15's extracted tables, composed the way
   TransitionAccount::update composes them) can produce reaches a regular arm, never `unreachable!`;
R2 previous_status: every revert records the status the bundle account had before the update;
R3 wipe_storage is set exactly when an account whose storage may still be in the database
   (Loaded, LoadedEmptyEIP161, Changed, InMemoryChange) becomes destroyed-family;
R4 the info part: DeleteIt exactly when there was no account before (LoadedNotExisting, Destroyed,
   DestroyedAgain) and there is one now; otherwise RevertTo(old info) iff the info differs;
R5 the new bundle status is the transition's status (a destroy of a never-existing account and
   unmodified statuses leave it unchanged);
R6 BundleAccount::revert restores previous_status, applies the info part and, per slot, writes the
   recorded value or removes the slot (RevertToSlot::Destroyed).
"""
import c15
from c15 import AS, ST, LNE, L, LE, IMC, C, D, DC, DA, WIPED, GONE, UNREACH
from symx import Symx, Budget, K, render, lit_truth

META = {
    'level': 'other',
    'decides': 'for all 64 (bundle status, transition status) pairs: reachability of a regular arm, the recorded previous status, the wipe flag, the kind of info revert and the new status; the shape of BundleAccount::revert; what happens to the bundle account\'s slots per pair (emptied / kept, no pruning); that revert slot maps are only extended with or_insert; from which storage map and which StorageSlot field every revert value is taken; the truth table of AccountRevert::is_empty; the per-path skeleton of revert_latest, to_plain_state_reverts and add_transitions; the CacheAccount operations that produce the transitions (C15 R1/R3)',
    'does_not_decide': 'the per-slot values recorded over several merges as a function of the whole history (only their provenance per merge is decided)',
    'explanation': 'Partial evaluation of update_and_create_revert with both statuses fixed (constructor helpers inlined); reachable pairs from the transitive closure of the extracted status tables under the creation precondition.',
}

BA = 'revm::db::states::bundle_account::BundleAccount::'
R = 'revm::db::states::reverts::AccountRevert::'
INLINE = {R + 'new_selfdestructed', R + 'new_selfdestructed_again', R + 'new_selfdestructed_from_bundle'}
NEEDS_WIPE = {L, LE, C, IMC}


def run(ctx, rep):
    fx = ctx.facts('default')
    f = fx.fns.get(BA + 'update_and_create_revert')
    if f is None:
        rep.undecided('R1-coverage', 'update_and_create_revert', 'not found')
        return
    rep.fn(f)
    table = {}
    for old in ST:
        for new in ST:
            table[(old, new)] = eval_pair(fx, f, old, new)
    reach = reachable_pairs(fx, rep)
    n = 0
    for (old, new), cell in sorted(table.items()):
        key = '%s->%s' % (old, new)
        n += 1
        if cell == UNREACH:
            if reach is not None and (old, new) in reach:
                rep.violation('R1-coverage', key, 'a bundle account in status %s can receive a transition ending in %s (%s), but update_and_create_revert treats the pair as unreachable and panics' % (old, new, reach[(old, new)]), f.where())
            else:
                rep.ok('R1-coverage', key, 'unreachable arm, pair not producible', nontrivial=False)
            continue
        if isinstance(cell, str):
            rep.undecided('R1-coverage', key, cell, f.where())
            continue
        rep.ok('R1-coverage', key, 'regular arm')
        check_cell(rep, f, old, new, cell)
    rep.floor('pairs', n, 64)
    check_revert(fx, rep)
    check_storage_disposition(fx, rep, f)
    check_revert_slot_writers(fx, rep)
    check_revert_slot_values(fx, rep)
    check_revert_is_empty(fx, rep)
    check_revert_latest(fx, rep)
    check_plain_reverts(fx, rep)
    check_add_transitions(fx, rep)
    # the transitions merged here are produced by the CacheAccount operations: what they record as
    # previous status / previous info / storage_was_destroyed is C15 R3 (and the decision which
    # operation an executed account maps to is C15 R1)
    import engine
    sub = engine.SubReport(rep, 'C15')
    c15.check_cache_account(fx, sub)
    c15.check_apply(fx, sub)


def check_revert_is_empty(fx, rep):
    """R13: update_and_create_revert drops a revert that AccountRevert::is_empty calls empty, so the
    predicate must be exactly: no info change, no slots, and no wipe flag (a revert whose only content
    is the wipe flag - a storage-less contract destroyed - still has to undo the destruction of the
    database's storage knowledge)."""
    import itertools as it
    f = fx.fns.get(R + 'is_empty')
    if f is None:
        rep.undecided('R13-revert-is-empty', 'is_empty', 'not found')
        return
    rep.fn(f)
    try:
        rs = Symx(fx, max_paths=200).run(f)
    except Budget:
        rep.undecided('R13-revert-is-empty', 'is_empty', 'path budget', f.where())
        return

    def atom(txt):
        if txt.startswith(("eq(&('arg', 1).account", 'eq(&arg1.account')) and 'DoNothing' in txt:
            return 'N'
        if txt.startswith(("is_empty(&('arg', 1).storage", 'is_empty(&arg1.storage')):
            return 'S'
        if txt in ('arg1.wipe_storage', "('arg', 1).wipe_storage"):
            return 'W'
        return None

    def value(sv, val):
        if sv[0] == 'k':
            return bool(int(sv[1]))
        if sv[0] == 'un' and sv[1] == 'Not':
            v = value(sv[2], val)
            return None if v is None else not v
        a = atom(render(sv))
        return None if a is None else val[a]
    bad = None
    for N, S, W in it.product((False, True), repeat=3):
        val = {'N': N, 'S': S, 'W': W}
        got = set()
        for r in rs:
            ok = True
            for (sv, lit, _f, _b) in r.lits:
                v = value(sv, val)
                tv = lit_truth(lit)
                if v is None or tv is None:
                    ok = None
                    break
                if v != tv:
                    ok = False
                    break
            if ok is None:
                got.add('?')
            elif ok:
                got.add(value(r.ret, val))
        want = N and S and not W
        if got != {want}:
            bad = 'with info-unchanged=%s no-slots=%s wipe=%s it answers %s, expected %s' % (N, S, W, sorted(map(str, got)), want)
            break
    if bad:
        rep.violation('R13-revert-is-empty', 'is_empty', 'AccountRevert::is_empty: ' + bad, f.where())
    else:
        rep.ok('R13-revert-is-empty', 'is_empty', 'DoNothing and no slots and no wipe (8 cells)')


def check_revert_latest(fx, rep):
    """R9: revert_latest undoes exactly the LAST group: it pops it, applies BundleAccount::revert to
    the account of every entry (a fresh LoadedNotExisting account if the bundle has none), removes /
    does not insert the account exactly when revert says it can be dropped, and reports whether a
    group existed; revert(n) repeats it until n groups are undone or none is left."""
    BS = 'revm::db::states::bundle_state::BundleState::'
    f = fx.fns.get(BS + 'revert_latest')
    if f is None:
        rep.undecided('R9-revert-latest', 'revert_latest', 'not found')
        return
    rep.fn(f)
    try:
        rs = Symx(fx, max_paths=4000, snapshot_refs=True).run(f)
    except Budget:
        rep.undecided('R9-revert-latest', 'revert_latest', 'path budget', f.where())
        return
    problems = []
    seen = set()
    for r in rs:
        ev = [e[0].split('::')[-1] for e in r.events]
        lits = [(render(l[0]), l[1]) for l in r.lits]
        popped = [lit for t, lit in lits if t.startswith("discr(pop(&('arg', 1).reverts")]
        if not popped:
            problems.append('a path does not take the last group with reverts.pop()')
            continue
        if popped[0] != ('eq', 1):
            if not (r.ret == K(0)):
                problems.append('reports success although there was no group to revert')
            seen.add('none')
            continue
        if not r.cut:
            if r.ret != K(1):
                problems.append('does not report success after reverting a group')
            seen.add('done')
            continue
        occupied = [lit for t, lit in lits if t.startswith("discr(entry(&('arg', 1).state")]
        rv = [(t, lit_truth(lit)) for t, lit in lits if t.startswith('revert(')]
        if not occupied or not rv or 'revert' not in ev:
            problems.append('an entry of the group is not applied with BundleAccount::revert')
            continue
        drop = rv[0][1]
        if occupied[0] == ('eq', 0):
            seen.add('occupied-drop' if drop else 'occupied-keep')
            if ('remove' in ev) != bool(drop):
                problems.append('an existing account is %s although revert() says it %s be dropped' % ('removed' if 'remove' in ev else 'kept', 'can' if drop else 'cannot'))
        else:
            seen.add('vacant-drop' if drop else 'vacant-insert')
            if 'new' not in ev:
                problems.append('a missing account is not rebuilt from a fresh LoadedNotExisting account')
            if ('insert' in ev) == bool(drop):
                problems.append('a rebuilt account is %s although revert() says it %s be dropped' % ('inserted' if 'insert' in ev else 'not inserted', 'can' if drop else 'cannot'))
    need = {'none', 'done', 'occupied-drop', 'occupied-keep', 'vacant-drop', 'vacant-insert'}
    if not problems and seen != need:
        problems.append('paths not recognised: %s' % sorted(need - seen))
    if problems:
        rep.violation('R9-revert-latest', 'revert_latest', 'BundleState::revert_latest: ' + sorted(set(problems))[0], f.where())
    else:
        rep.ok('R9-revert-latest', 'revert_latest', 'pops the last group; revert() applied per entry; dropped iff it says so')
    g = fx.fns.get(BS + 'revert')
    if g is not None:
        rep.fn(g)
        calls = [t for _, t in g.calls() if (t.target_fn or '') == BS + 'revert_latest']
        others = [t for _, t in g.calls() if (t.target_fn or '').startswith(BS) and (t.target_fn or '') != BS + 'revert_latest']
        if len(calls) == 1 and not others:
            rep.ok('R9-revert-latest', 'revert(n)', 'a loop over revert_latest')
        else:
            rep.violation('R9-revert-latest', 'revert(n)', 'BundleState::revert does not undo groups one by one through revert_latest (%d calls, others: %s)' % (len(calls), [(t.target_fn or '').split('::')[-1] for t in others]), g.where())


def check_plain_reverts(fx, rep):
    """R10: to_plain_state_reverts, per group and entry: RevertTo(info) -> (address, Some(info)),
    DeleteIt -> (address, None), DoNothing -> no account entry; a storage entry exists iff the
    revert wipes storage or lists slots, with wiped = wipe_storage; one output group per group."""
    f = fx.fns.get('revm::db::states::reverts::Reverts::to_plain_state_reverts')
    if f is None:
        rep.undecided('R10-plain-reverts', 'to_plain_state_reverts', 'not found')
        return
    rep.fn(f)
    try:
        rs = Symx(fx, max_paths=6000, snapshot_refs=True).run(f)
    except Budget:
        rep.undecided('R10-plain-reverts', 'to_plain_state_reverts', 'path budget', f.where())
        return
    AIR = 'revm::db::states::reverts::AccountInfoRevert'
    import c15 as _c15
    problems = []
    kinds = set()
    for r in rs:
        if not r.cut:
            continue
        variant = None
        wipe = None
        empty = None
        for (sv, lit, _f, _b) in r.lits:
            txt = render(sv)
            if txt.startswith('discr(deref(next(') and lit[0] == 'eq' and '.account' in _c15.render_deep(sv):
                variant = fx.variant_by_discr(AIR, lit[1])
            if 'wipe_storage' in _c15.render_deep(sv) and not txt.startswith('discr('):
                wipe = lit_truth(lit)
            if txt.startswith('is_empty('):
                empty = lit_truth(lit)
        pushes = [_c15.render_deep(e[1][1]) for e in r.events if e[0].endswith('Vec::push') and len(e[1]) > 1]
        acc = [p_ for p_ in pushes if p_.startswith('tuple')]
        sto = [p_ for p_ in pushes if p_.startswith('PlainStorageRevert')]
        if variant is None:
            continue
        kinds.add(variant)
        if variant == 'DoNothing' and acc:
            problems.append('DoNothing produces an account entry')
        if variant == 'DeleteIt' and not (len(acc) == 1 and 'Option::None' in acc[0]):
            problems.append('DeleteIt does not produce (address, None)')
        if variant == 'RevertTo' and not (len(acc) == 1 and 'Option::Some' in acc[0]):
            problems.append('RevertTo does not produce (address, Some(info))')
        # emitted iff wipe_storage or the slot list is not empty, whatever the order of the two tests
        poss = set()
        for w_ in ([wipe] if wipe is not None else [True, False]):
            for e_ in ([empty] if empty is not None else [True, False]):
                poss.add(bool(w_ or not e_))
        if poss != {bool(sto)}:
            problems.append('a storage revert is %s after testing wipe_storage=%s, slots empty=%s (it must exist iff the revert wipes storage or lists slots)' % (
                'emitted' if sto else 'omitted', 'untested' if wipe is None else wipe, 'untested' if empty is None else empty))
        for s_ in sto:
            if 'wiped: ' not in s_ or 'wipe_storage' not in s_.split('wiped: ', 1)[1][:160]:
                problems.append('the wiped flag of the storage revert is not the revert\'s wipe_storage')
    if not problems and kinds != {'DoNothing', 'DeleteIt', 'RevertTo'}:
        problems.append('variants not recognised: %s' % sorted(kinds))
    if problems:
        rep.violation('R10-plain-reverts', 'to_plain_state_reverts', 'Reverts::to_plain_state_reverts: ' + sorted(set(problems))[0], f.where())
    else:
        rep.ok('R10-plain-reverts', 'to_plain_state_reverts', 'account entry per variant; storage entry iff wipe or slots; wiped = wipe_storage')


def check_add_transitions(fx, rep):
    """R11: TransitionState::add_transitions accumulates per address: an address already present is
    updated with TransitionAccount::update (the composition decided in C16 R2), a new one inserted."""
    f = fx.fns.get('revm::db::states::transition_state::TransitionState::add_transitions')
    if f is None:
        rep.undecided('R11-add-transitions', 'add_transitions', 'not found')
        return
    rep.fn(f)
    try:
        rs = Symx(fx, max_paths=2000, snapshot_refs=True).run(f)
    except Budget:
        rep.undecided('R11-add-transitions', 'add_transitions', 'path budget', f.where())
        return
    seen = set()
    problems = []
    for r in rs:
        if not r.cut:
            continue
        ev = [e[0].split('::')[-1] for e in r.events]
        occ = [l[1] for l in r.lits if render(l[0]).startswith("discr(entry(&('arg', 1).transitions")]
        if not occ:
            continue
        if occ[0] == ('eq', 0):
            seen.add('occupied')
            if 'update' not in ev or 'insert' in ev:
                problems.append('a transition for an address already present is not merged with TransitionAccount::update')
        else:
            seen.add('vacant')
            if 'insert' not in ev:
                problems.append('a transition for a new address is not inserted')
    if not problems and seen != {'occupied', 'vacant'}:
        problems.append('paths not recognised: %s' % sorted(seen))
    if problems:
        rep.violation('R11-add-transitions', 'add_transitions', 'TransitionState::add_transitions: ' + sorted(set(problems))[0], f.where())
    else:
        rep.ok('R11-add-transitions', 'add_transitions', 'update for present addresses, insert for new ones')


def check_storage_disposition(fx, rep, f):
    """R7: what happens to the slots the bundle account holds from earlier merges.  They describe
    the previous incarnation when the merged transition destroys the account (new status Destroyed
    or DestroyedAgain; DestroyedChanged arriving on an account whose storage is still the database's,
    or with storage_was_destroyed set) and must then be emptied before the new slots are added;
    they must survive a plain change."""
    n = 0
    for old in ST:
        for new in (C, IMC, D, DC, DA):
            try:
                rs = Symx(fx, max_paths=4000, snapshot_refs=True, inline=INLINE).run(
                    f, [('ref', ('arg', 1), ()), ('with', ('sym', 'arg2'), ((('.status',), K(fx.discr_of(AS, new))),))],
                    store={(('arg', 1), ('.status',)): K(fx.discr_of(AS, old))})
            except Budget:
                continue
            for r in rs:
                if '<loop-cut>' in render(r.ret):
                    continue
                flag = None
                for (sv, lit, _f, _b) in r.lits:
                    if 'storage_was_destroyed' in render(sv):
                        flag = lit_truth(lit)
                emptied = False
                pruned = False
                for e in r.events:
                    short = e[0].split('::')[-1]
                    if short in ('drain', 'take', 'clear') and e[1] and render(e[1][0]).replace(' ', '') == "&('arg',1).storage":
                        emptied = True
                    if short in ('retain', 'remove', 'remove_entry', 'extract_if') and e[1] and render(e[1][0]).replace(' ', '') == "&('arg',1).storage":
                        pruned = True
                st = [v for (root, path), v in r.stores.items() if root == ('arg', 1) and path == ('.storage',)]
                if st and render(st[-1]).startswith('arg2.storage'):
                    emptied = True          # replaced by the transition's own slots
                must_empty = new in (D, DA) or (new == DC and (old in NEEDS_WIPE or (old == DC and flag is True)))
                must_keep = (new == C and old in (L, C)) or (new == IMC and old in (L, IMC)) or (new == DC and old == DC and flag is False)
                key = '%s->%s%s' % (old, new, '' if flag is None else ':storage_was_destroyed=%s' % flag)
                if new == D and old == LNE:
                    continue
                if must_empty:
                    n += 1
                    if not emptied:
                        rep.violation('R7-storage-disposition', key, 'merging %s into a %s account keeps the slots of the destroyed incarnation in the bundle account: to_plain_state would emit them together with the wipe' % (new, old), f.where())
                    else:
                        rep.ok('R7-storage-disposition', key, 'old slots emptied', nontrivial=False)
                elif must_keep:
                    n += 1
                    if emptied or pruned:
                        rep.violation('R7-storage-disposition', key, 'merging %s into a %s account discards the slots recorded by earlier merges' % (new, old), f.where())
                    else:
                        rep.ok('R7-storage-disposition', key, 'old slots kept', nontrivial=False)
    rep.floor('R7-paths', n, 30)


def check_revert_slot_writers(fx, rep):
    """R8: an entry of a revert's slot map records the value before the group; once present it is
    never overwritten.  Every write into a HashMap<U256, RevertToSlot> outside its construction by
    collect() goes through Entry::or_insert."""
    n = 0
    for g in fx.fns_all:
        if not g.nq.startswith('revm::db::states') or '::tests' in g.nq or '::test' in g.nq:
            continue
        for bi, t in g.calls():
            c_ = t.callee or ''
            short = c_.split('::')[-1]
            if short not in ('insert', 'extend', 'or_insert', 'or_insert_with', 'or_default', 'and_modify', 'insert_entry') or not t.args:
                continue
            a0 = t.args[0]
            ty = g.local_ty(a0.place.b) if a0.place is not None else ''
            if 'RevertToSlot' not in (ty or '') or 'HashMap' not in ty and 'Entry' not in ty:
                continue
            n += 1
            who = g.nq.replace('revm::db::states::', '')
            if short == 'or_insert':
                rep.ok('R8-revert-slot-writers', '%s:%s' % (who, short), 'non-overriding')
            else:
                rep.violation('R8-revert-slot-writers', '%s:%s' % (who, short), '%s writes a revert slot map with `%s`, which overrides a value recorded before; only Entry::or_insert may add entries to an existing revert' % (who, short), g.where(bi))
    rep.floor('R8-writers', n, 3)


PASS_THROUGH = {'iter', 'iter_mut', 'into_iter', 'drain', 'take', 'filter', 'map', 'collect', 'clone', 'by_ref',
                'deref', 'deref_mut', 'as_ref', 'as_mut', 'borrow', 'borrow_mut', 'to_owned', 'from_iter',
                'replace', 'get', 'get_mut', 'unwrap', 'into_mut', 'peekable', 'rev', 'chain', 'cloned', 'copied',
                'next', 'flatten', 'values', 'values_mut', 'entry', 'or_default'}


def slot_sources(fx, fn, origins, depth=8, seen=None):
    """Which storage map the StorageSlot values reaching `origins` (inside fn) come from:
    'bundle' (a BundleAccount's own storage), 'transition' (a TransitionAccount's storage) or '?'."""
    from cfg import Origins
    seen = set() if seen is None else seen
    out = set()
    if depth == 0:
        return {'?'}
    og = Origins(fn, fx)
    for o in origins:
        k = (fn.nq, o.key())
        if k in seen:
            continue
        seen.add(k)
        r = o.root
        if r[0] == 'param':
            ty = fn.local_ty(r[1]) or ''
            if fn.kind == 'Closure' and r[1] == 1:
                # a captured variable: the enclosing function's local of that name
                parent = fx.fns.get(fn.parent)
                name = o.path[0][1:] if o.path else None
                hit = False
                if parent is not None and name:
                    pog = Origins(parent, fx)
                    for i in parent.local_by_name(name):
                        out |= slot_sources(fx, parent, [x.ext(o.path[1:]) for x in pog.of_local(i, 12)], depth - 1, seen)
                        hit = True
                if not hit:
                    out.add('?')
            elif 'BundleAccount' in ty:
                out.add('bundle' if o.path[:1] == ('.storage',) else '?')
            elif 'TransitionAccount' in ty:
                out.add('transition' if o.path[:1] == ('.storage',) else '?')
            elif 'BundleState' in ty and 'StorageSlot' not in ty:
                out.add('bundle' if o.path[:1] == ('.state',) else '?')
            elif 'StorageSlot' in ty:
                # a storage map (or an element of one) handed in: ask every caller
                sites = 0
                if fn.kind == 'Closure':
                    # the closure is used somewhere in the enclosing item (the item itself or a sibling closure)
                    hosts = [h for h in [fx.fns.get(fn.parent)] + list(fx.closures_of(fn.parent)) if h is not None and h is not fn]
                    for parent in hosts:
                        pog = Origins(parent, fx)
                        for bi, t in parent.calls():
                            short = (t.callee or '').split('::')[-1]
                            if short in ('call', 'call_mut', 'call_once') and len(t.args) == 2:
                                if not any(x.root[0] == 'agg' and x.root[1] == fn.nq for x in pog.of_operand(t.args[0])):
                                    continue
                                for x in pog.of_operand(t.args[1]):
                                    if x.root[0] == 'agg' and len(x.root[4]) >= r[1] - 1:
                                        sites += 1
                                        out |= slot_sources(fx, parent, list(x.root[4][r[1] - 2]), depth - 1, seen)
                            elif short in PASS_THROUGH and len(t.args) >= 2:
                                # handed to an iterator adaptor: the elements are those of the receiver
                                if any(x.root[0] == 'agg' and x.root[1] == fn.nq for a in t.args[1:] for x in pog.of_operand(a)):
                                    sites += 1
                                    out |= slot_sources(fx, parent, pog.of_operand(t.args[0]), depth - 1, seen)
                else:
                    for caller in fx.callers_of(fn.nq):
                        if '::test' in caller.nq:
                            continue
                        cog = Origins(caller, fx)
                        for bi, t in caller.calls():
                            if (t.target_fn or t.callee or '') == fn.nq or (t.callee or '') == fn.nq:
                                if len(t.args) >= r[1]:
                                    sites += 1
                                    out |= slot_sources(fx, caller, cog.of_operand(t.args[r[1] - 1]), depth - 1, seen)
                if sites == 0:
                    out.add('?')
            else:
                out.add('?')
        elif r[0] == 'call':
            short = r[1].split('::')[-1]
            t = fn.blocks[r[2]].term
            if short in PASS_THROUGH and t.args:
                out |= slot_sources(fx, fn, og.of_operand(t.args[0]), depth - 1, seen)
            elif short in ('default', 'new') and not t.args:
                pass                    # an empty map contributes no slots
            else:
                out.add('?')
        elif r[0] == 'agg' and r[4]:
            for fld_o in r[4]:
                out |= slot_sources(fx, fn, list(fld_o), depth - 1, seen)
        else:
            out.add('?')
    return out


def check_revert_slot_values(fx, rep):
    """R12: which field of a StorageSlot a revert entry is built from.  A slot of the bundle account's
    own map holds in present_value the value before the group being merged; a slot of the transition
    holds it in previous_or_original_value.  RevertToSlot::Some(..) built from a StorageSlot must take
    the field that belongs to the map the slot came from."""
    from cfg import Origins
    n = 0
    for g in fx.fns_all:
        if not g.nq.startswith('revm::db::states') or '::test' in g.nq:
            continue
        og = None
        for b in g.blocks:
            if b.cleanup:
                continue
            for si, s in enumerate(b.stmts):
                if s.kind != 'assign' or s.rv is None:
                    continue
                txt = s.render() if callable(getattr(s, 'render', None)) else str(s)
                if 'RevertToSlot::Some' not in txt or not s.rv.ops:
                    continue
                og = og or Origins(g, fx)
                for o in og.of_operand(s.rv.ops[0]):
                    fields = [p for p in o.path if p in ('.present_value', '.previous_or_original_value')]
                    if not fields:
                        continue            # a plain value (builder input), not taken from a StorageSlot
                    n += 1
                    who = g.nq.replace('revm::db::states::', '')
                    base = type(o)(o.root, o.path[:o.path.index(fields[0])])
                    src = slot_sources(fx, g, [base])
                    want = {'bundle': '.present_value', 'transition': '.previous_or_original_value'}
                    if src == {'bundle'} or src == {'transition'}:
                        kind = next(iter(src))
                        if fields[0] == want[kind]:
                            rep.ok('R12-revert-slot-values', who, '%s slot -> %s' % (kind, fields[0][1:]))
                        else:
                            rep.violation('R12-revert-slot-values', who, '%s builds a revert entry from %s of a slot of the %s storage; the value before the merged group is its %s' % (who, fields[0][1:], 'bundle account\'s own' if kind == 'bundle' else 'transition\'s', want[kind][1:]), g.where(b.i))
                    else:
                        rep.undecided('R12-revert-slot-values', who, 'cannot attribute the StorageSlot to the bundle account or the transition (%s)' % sorted(src), g.where(b.i))
    rep.floor('R12-sites', n, 5)


def eval_pair(fx, f, old, new):
    try:
        rs = Symx(fx, max_paths=4000, snapshot_refs=True, inline=INLINE).run(
            f, [('ref', ('arg', 1), ()), ('with', ('sym', 'arg2'), ((('.status',), K(fx.discr_of(AS, new))),))],
            store={(('arg', 1), ('.status',)): K(fx.discr_of(AS, old))})
    except Budget:
        return 'path budget'
    rows = []
    for r in rs:
        ret = r.ret
        if '<loop-cut>' in render(ret):
            continue
        if ret[0] == 'call' and ret[1].endswith('Option::and_then'):
            ret = ret[2][0]
            if ret[0] == 'valref':
                ret = ret[1]
        info_differs = None
        for (sv, lit, _f, _b) in r.lits:
            txt = render(sv)
            if txt.startswith('ne(&arg1.info'):
                info_differs = lit_truth(lit)
        st = {path: v for (root, path), v in r.stores.items() if root == ('arg', 1)}
        newst = c15.variant_of(fx, st[('.status',)]) if ('.status',) in st else old
        rows.append({'ret': ret, 'info_differs': info_differs, 'status': newst, 'info_store': st.get(('.info',))})
    if not rows:
        return UNREACH
    return rows


def fld(v, name):
    base = v
    mods = ()
    if v[0] == 'with':
        base, mods = v[1], v[2]
    for path, val in mods:
        if tuple(path) == ('.' + name,):
            return val
    if base[0] == 'agg' and name in base[3]:
        return base[4][base[3].index(name)]
    return None


def check_cell(rep, f, old, new, rows):
    key = '%s->%s' % (old, new)
    # R5 new status
    want_status = new if new in (C, IMC, DC, DA) else (D if (new == D and old != LNE) else old)
    got_status = {r['status'] for r in rows}
    if got_status != {want_status}:
        rep.violation('R5-new-status', key, 'after merging a transition ending in %s into a %s account the bundle status is %s, expected %s' % (new, old, sorted(map(str, got_status)), want_status), f.where())
    else:
        rep.ok('R5-new-status', key, want_status, nontrivial=False)
    unmodified = new in (LNE, L, LE) or (new == D and old == LNE) or (new == DA and old in (LNE, D, DA))
    for r in rows:
        ret = r['ret']
        some = ret[0] == 'agg' and ret[2] == 'Some'
        none = ret[0] == 'agg' and ret[2] == 'None'
        if not some and not none:
            rep.undecided('R2-previous-status', key, 'result not an Option constructor: %s' % render(ret)[:80], f.where())
            return
        if unmodified:
            if some:
                rep.violation('R2-previous-status', key + ':noop', 'a revert is created for %s, which changes nothing' % key, f.where())
                return
            continue
        if none:
            rep.violation('R2-previous-status', key + ':missing', 'no revert is created for %s although the account changes' % key, f.where())
            return
        rv = ret[4][0]
        ps = fld(rv, 'previous_status')
        from c15 import variant_of
        psv = variant_of_any(ps)
        if psv != old:
            rep.violation('R2-previous-status', key, 'the revert for %s records previous_status %s, the account was %s before' % (key, psv, old), f.where())
            return
        ws = fld(rv, 'wipe_storage')
        want_wipe = int(old in NEEDS_WIPE and new in WIPED)
        if ws is None or ws[0] != 'k' or int(ws[1]) != want_wipe:
            rep.violation('R3-wipe-storage', key, 'the revert for %s has wipe_storage=%s; the database storage %s be wiped on revert' % (key, render(ws) if ws else '?', 'must' if want_wipe else 'must not'), f.where())
            return
        acc = fld(rv, 'account')
        kind = acc[2] if acc is not None and acc[0] == 'agg' else '?'
        if old in GONE and new in (IMC, DC):
            want_kind = {'DeleteIt'}
        elif old == DC and new == DA:
            want_kind = {'RevertTo'}            # the re-created account's info, whatever the transition carries
        else:
            want_kind = {'RevertTo'} if r['info_differs'] else {'DoNothing'}
        if kind not in want_kind:
            rep.violation('R4-info-revert', key, 'the revert for %s (info %s) carries AccountInfoRevert::%s, expected %s' % (key, 'differs' if r['info_differs'] else 'equal', kind, sorted(want_kind)), f.where())
            return
    rep.ok('R2-previous-status', key, 'previous_status=%s' % old if not unmodified else 'no revert', nontrivial=not unmodified)


def variant_of_any(v):
    if v is None:
        return None
    if v[0] == 'agg':
        return v[2]
    if v[0] == 'k':
        return ST[int(v[1])] if 0 <= int(v[1]) < len(ST) else None
    return render(v)[:40]


def reachable_pairs(fx, rep):
    """(old, new) pairs producible by one or more cache events between two merges, from the extracted
    status tables; creation is possible only on an account without nonce and code, which excludes
    Changed (and Loaded accounts that on_changed would make Changed)"""
    tabs = {}
    specs = [('on_created', ((),)), ('on_selfdestructed', ((),)), ('on_changed', ((0,), (1,))),
             ('on_touched_empty_post_eip161', ((),)), ('on_touched_created_pre_eip161', ((0,), (1,)))]
    for name, extra in specs:
        g = fx.fns.get(AS + '::' + name)
        if g is None:
            rep.undecided('R1-coverage', 'status-machine', 'AccountStatus::%s not found' % name)
            return None
        tabs[name] = c15.status_table(fx, g, extra)
    step = {s: {} for s in ST}
    for name, t in tabs.items():
        for kx, v in t.items():
            s = kx[0]
            if v in (UNREACH, None) or (isinstance(v, str) and v.startswith('?')):
                continue
            if name == 'on_created' and s == C:
                continue
            # pre-EIP-161 touch-create applies to empty accounts only
            if name == 'on_touched_created_pre_eip161' and s in (L, C):
                continue
            # operations that return no transition (C15 R3 decides exactly these) never reach the bundle
            if (name == 'on_touched_empty_post_eip161' and s in (LNE, D, DA)) or (name == 'on_selfdestructed' and s == LNE):
                continue
            step[s].setdefault(v, '%s%s' % (name, kx))
    reach = {}
    for s in ST:
        seen = {}
        work = [(s, '')]
        while work:
            cur, how = work.pop()
            for nxt, lab in step[cur].items():
                if nxt not in seen:
                    seen[nxt] = (how + ' ; ' if how else '') + lab
                    work.append((nxt, seen[nxt]))
        for nxt, how in seen.items():
            reach[(s, nxt)] = how
    # the bundle keeps LoadedNotExisting when the cache moves LoadedNotExisting -> ... -> Destroyed etc.
    return reach


def check_revert(fx, rep):
    f = fx.fns.get(BA + 'revert')
    if f is None:
        rep.undecided('R6-revert-application', 'revert', 'not found')
        return
    rep.fn(f)
    AIR = 'revm::db::states::reverts::AccountInfoRevert'
    adt = fx.adts.get(AIR)
    if adt is None:
        rep.undecided('R6-revert-application', 'revert', 'AccountInfoRevert not found')
        return
    for i, v in enumerate(adt['variants']):
        name = v['name']
        if v['fields']:
            acc = ('agg', AIR, name, tuple(x['name'] for x in v['fields']), tuple(('sym', 'revert_info') for _ in v['fields']))
        else:
            acc = ('agg', AIR, name, (), ())
        try:
            rs = Symx(fx, max_paths=3000, snapshot_refs=True, pure={'core::option::Option::is_none'}).run(
                f, [('ref', ('arg', 1), ()), ('with', ('sym', 'arg2'), ((('.account',), acc),))])
        except Budget:
            rep.undecided('R6-revert-application', name, 'path budget', f.where())
            continue
        problems = []
        seen_paths = 0
        for r in rs:
            st = {path: val for (root, path), val in r.stores.items() if root == ('arg', 1)}
            seen_paths += 1
            if st.get(('.status',)) != ('proj', ('sym', 'arg2'), ('.previous_status',)):
                problems.append('status restored to %s, not revert.previous_status' % render(st.get(('.status',), ('sym', 'unchanged')))[:60])
            info = st.get(('.info',))
            if name == 'DoNothing' and info is not None:
                problems.append('DoNothing writes the info')
            if name == 'DeleteIt' and not (info is not None and info[0] == 'agg' and info[2] == 'None'):
                problems.append('DeleteIt does not clear the info')
            if name == 'RevertTo' and not (info is not None and info[0] == 'agg' and info[2] == 'Some' and 'revert_info' in render(info)):
                problems.append('RevertTo does not restore the recorded info: %s' % render(info or ('sym', 'unchanged'))[:60])
        if not seen_paths:
            problems.append('no path')
        if problems:
            rep.violation('R6-revert-application', name, 'BundleAccount::revert with AccountInfoRevert::%s: %s' % (name, sorted(set(problems))[0]), f.where())
        else:
            rep.ok('R6-revert-application', name, 'status and info restored')
    # per slot: Some(v) writes v, Destroyed removes the key
    calls = [(t.callee or '') for _, t in f.calls()]
    if any(c_.endswith('HashMap::remove') for c_ in calls) and any(c_.endswith('Entry::or_insert') for c_ in calls):
        rep.ok('R6-revert-application', 'slots', 'recorded values written, created slots removed')
    else:
        rep.violation('R6-revert-application', 'slots', 'BundleAccount::revert does not both restore recorded slot values and remove slots created by the reverted transition', f.where())
