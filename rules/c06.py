"""C06 — reverting a checkpoint restores the state (necessary-condition skeleton).

R1 do/undo table: for each JournalEntry variant the state classes its revert arm writes are read
   from journal_revert (one path per arm); no arm is missing;
R2 write-then-journal: on every non-fatal path of every JournaledState method, each journaled state
   class that is written (balance, nonce, code hash, storage value, transient storage, created /
   selfdestructed flags) is covered by a journal entry pushed on the same path whose revert arm
   restores that class - in particular no fallible exit lies between a write and its entry;
R3 order and extent: journal_revert walks the entries in reverse; checkpoint_revert reverts the
   journals above the checkpoint (rev().take(len - journal_i)), truncates logs to log_i and the
   journal to journal_i, and checkpoint() records both lengths before pushing the new journal;
R4 who may write: outside journaled_state.rs, account fields of the journaled state are written only
   by the enumerated transaction-level functions (all outside any checkpoint).
"""
from cfg import cfg_of, Origins
from symx import Symx, Budget, render, lit_truth

META = {
    'level': 'other',
    'decides': 'that every state class a JournaledState method writes on a non-fatal path is covered by a journal entry pushed on that path whose revert arm restores the class; reverse iteration and the extent of checkpoint_revert; the set of writers of journaled account fields; per journal-entry kind that the revert arm restores the recorded value to the account the entry names; that the spurious-dragon flag handed to journal_revert is `journal spec >= SPURIOUS_DRAGON`',
    'does_not_decide': 'equality of states over arbitrary operation histories; that the amounts restored equal the amounts written (value-level), except where origins coincide',
    'explanation': 'Path enumeration with partial evaluation (symx) of each JournaledState method: per path the written state classes and pushed JournalEntry kinds; revert arms extracted from journal_revert; call-chain checks for iteration order; writer inventory over the workspace.',
}

JS = 'revm::journaled_state::JournaledState::'
ACC = 'revm_primitives::state::Account::'
FLAG_METHODS = {
    'mark_created': 'created', 'unmark_created': 'created',
    'mark_selfdestruct': 'selfdestructed', 'unmark_selfdestruct': 'selfdestructed',
    'mark_touch': 'touched', 'unmark_touch': 'touched',
}
SUFFIX_CLASS = [
    (('.info', '.balance'), 'balance'), (('.info', '.nonce'), 'nonce'), (('.info', '.code_hash'), 'code'),
    (('.present_value',), 'storage'),
]
# methods that are not forward state operations
SKIP = {'journal_revert', 'checkpoint_revert', 'checkpoint', 'checkpoint_commit', 'finalize', 'clear', 'new',
        'depth', 'state', 'account', 'set_spec_id', 'touch_account', 'tload'}
PURE = {'ruint::cmp::<impl ruint::Uint>::is_zero', 'core::cmp::PartialEq::ne', 'core::cmp::PartialEq::eq',
        'revm_primitives::state::Account::is_created', 'revm_primitives::state::Account::is_selfdestructed',
        'revm_primitives::specification::SpecId::enabled', 'revm_primitives::specification::SpecId::is_enabled_in'}


def class_of_path(path):
    p = tuple(x for x in path if not x.startswith('@'))
    for suf, c in SUFFIX_CLASS:
        if p[-len(suf):] == suf:
            return c
    return None


def path_effects(p):
    """(written classes, pushed JournalEntry kinds, notes) of one symx path"""
    W = set()
    P = set()
    for (root, path), v in p.stores.items():
        c = class_of_path(path)
        if c:
            W.add(c)
    for (name, args, _fn, _bi) in p.events:
        short = name.split('::')[-1]
        if name.startswith(ACC) and short in FLAG_METHODS:
            W.add(FLAG_METHODS[short])
        elif short in ('add_assign', 'sub_assign', 'mul_assign') and args and args[0][0] == 'ref':
            c = class_of_path(args[0][2])
            if c:
                W.add(c)
        elif short in ('insert', 'remove') and args and args[0][0] == 'ref':
            pth = args[0][2]
            if pth[-1:] == ('.transient_storage',) or (not pth and args[0][1] == ('arg', 2)):
                W.add('tstorage')
        elif short == 'push' and len(args) == 2:
            v = args[1]
            if v[0] == 'agg' and v[1].endswith('JournalEntry'):
                P.add(v[2])
            elif 'JournalEntry' in render(v):
                P.add('?')
        elif name == JS + 'touch_account':
            pass   # verified on its own: marks touched and pushes AccountTouched together
    return W, P


def is_fatal(ret):
    return ret[0] == 'agg' and ret[1].endswith('result::Result') and ret[2] == 'Err'


def check_revert_flag(fx, rep):
    """R6: journal_revert undoes a touch of the precompile 0x03 differently from SPURIOUS_DRAGON on;
    the flag it is given must be `journal's spec >= SPURIOUS_DRAGON` at every call."""
    from cfg import Origins
    JR = 'revm::journaled_state::JournaledState::journal_revert'
    n = 0
    for g in fx.callers_of(JR):
        if '::test' in g.nq:
            continue
        og = Origins(g, fx)
        for bi, t in g.calls():
            if (t.target_fn or '') != JR:
                continue
            n += 1
            key = g.nq.replace('::{closure#0}', '').split('::')[-1]
            ok = False
            why = 'not the result of a fork gate'
            cands = [(g, og, o) for o in og.of_operand(t.args[-1])]
            if g.kind == 'Closure':
                # a captured flag: the enclosing function's local of that name
                parent = fx.fns.get(g.parent)
                for (_g, _og, o) in list(cands):
                    if o.root == ('param', 1) and len(o.path) == 1 and parent is not None:
                        pog = Origins(parent, fx)
                        for i in parent.local_by_name(o.path[0][1:]):
                            cands.extend((parent, pog, x) for x in pog.of_local(i, 12))
            for (h, hog, o) in cands:
                if o.root[0] == 'call' and o.root[1].endswith(('SpecId::enabled', 'SpecId::is_enabled_in')) and not o.path:
                    gt = h.blocks[o.root[2]].term
                    a = hog.of_operand(gt.args[0])
                    b = hog.of_operand(gt.args[1])
                    cur = all(x.root == ('param', 1) and x.path[-1:] == ('.spec',) for x in a) and bool(a)
                    fork = [x.root[2] for x in b if x.root[0] == 'agg' and str(x.root[1]).endswith('SpecId')]
                    if cur and fork == ['SPURIOUS_DRAGON']:
                        ok = True
                    else:
                        why = 'gate(%s, %s)' % ([x.render() for x in a], fork or [x.render() for x in b])
            if ok:
                rep.ok('R6-revert-flag', key, 'self.spec >= SPURIOUS_DRAGON')
            else:
                rep.violation('R6-revert-flag', key, '%s passes journal_revert a spurious-dragon flag that is %s; it must be `self.spec` enabled in SPURIOUS_DRAGON' % (key, why), g.where(bi))
    rep.floor('R6-journal_revert-callers', n, 1)


def run(ctx, rep):
    fx = ctx.facts('default')
    undo = extract_undo(fx, rep)
    if undo is None:
        return
    rep.sample({'undo_table': {k: sorted(v) for k, v in undo.items()}})
    check_forward(fx, rep, undo)
    check_touch_account(fx, rep)
    check_order_extent(fx, rep)
    check_writers(ctx, rep)
    check_recorded_values(fx, rep)
    check_revert_flag(fx, rep)
    check_undo_values(fx, rep)
    # the fork flags handed to journal_revert / touch handling are gates the right way round (C05)
    import engine
    import c05
    c05.check_gate_orientation(fx, engine.SubReport(rep, 'C05'))
    rep.assume('`info.code` alone is a cache of `code_hash` (load_code fills it): it counts as journaled only together with code_hash')
    rep.assume('fatal Err exits (database errors) abort the transaction; Evm::clear resets the journal (C02/C31)')
    rep.assume('warm/cold status is decided under C34; logs are undone by truncation (R3), not by entries')


def extract_undo(fx, rep):
    f = fx.fns.get(JS + 'journal_revert')
    if f is None:
        rep.undecided('R1-undo-table', 'journal_revert', 'not found')
        return None
    rep.fn(f)
    adt = fx.adts.get('revm::journaled_state::JournalEntry')
    if adt is None:
        rep.undecided('R1-undo-table', 'JournalEntry', 'ADT not found')
        return None
    byd = {v.get('discr', i): v['name'] for i, v in enumerate(adt['variants'])}
    try:
        rs = Symx(fx, pure=PURE, max_paths=3000).run(f)
    except Budget:
        rep.undecided('R1-undo-table', 'journal_revert', 'path budget', f.where())
        return None
    undo = {}
    for p in rs:
        kind = None
        for (sv, lit, _f, _b) in p.lits:
            if sv[0] == 'discr' and sv[2].endswith('JournalEntry') and lit[0] == 'eq':
                kind = byd.get(lit[1])
        if kind is None:
            continue
        W, P = path_effects(p)
        # flag resets and cold-marking through Account helpers
        for (name, args, _fn, _bi) in p.events:
            short = name.split('::')[-1]
            if short == 'mark_cold':
                W.add('warm')
        undo.setdefault(kind, set()).update(W)
    for v in byd.values():
        if v not in undo:
            rep.violation('R1-undo-table', v + ':no-arm', 'journal_revert has no arm that handles JournalEntry::%s (a catch-all would silently drop the undo)' % v, f.where())
        else:
            rep.ok('R1-undo-table', v, sorted(undo[v]))
    want = {
        'BalanceTransfer': {'balance'}, 'AccountDestroyed': {'balance', 'selfdestructed'}, 'NonceChange': {'nonce'},
        'AccountCreated': {'created', 'nonce'}, 'StorageChanged': {'storage'}, 'TransientStorageChange': {'tstorage'},
        'CodeChange': {'code'}, 'AccountTouched': {'touched'},
    }
    for k, w in want.items():
        got = undo.get(k, set())
        if not w <= got:
            rep.violation('R1-undo-table', k + ':restores', 'the revert arm of JournalEntry::%s restores %s, it must restore %s' % (k, sorted(got), sorted(w)), f.where())
    return undo


def check_forward(fx, rep, undo):
    n = 0
    from symx import KNOWN_PRIVATE
    # a new private method is a piece of its callers (symx follows it there), not a unit of its own
    fns = [f for f in fx.fns_all if f.nq.startswith(JS) and f.kind in ('Fn', 'AssocFn') and f.name not in SKIP
           and f.crate and not f.crate.endswith('-test')
           and not (str(f.d.get('vis', '')).startswith('Restricted') and f.nq not in KNOWN_PRIVATE and len(f.blocks) <= 40
                    and any(True for _ in fx.callers_of(f.nq)))]
    for f in sorted(fns, key=lambda x: x.nq):
        rep.fn(f)
        try:
            rs = Symx(fx, pure=PURE, max_paths=6000).run(f)
        except Budget:
            rep.undecided('R2-write-then-journal', f.name, 'path budget exceeded', f.where())
            continue
        wrote_any = False
        bad = {}
        for p in rs:
            if is_fatal(p.ret):
                continue
            W, P = path_effects(p)
            W.discard('touched')       # only through touch_account (checked separately)
            if not W:
                continue
            wrote_any = True
            if '?' in P:
                rep.undecided('R2-write-then-journal', f.name + ':push', 'a pushed journal entry could not be identified', f.where())
                continue
            for c in sorted(W):
                if c == 'tstorage' and tstore_noop_evidence(p):
                    continue
                if not any(c in undo.get(k, ()) for k in P):
                    exitv = render(p.ret)[:80]
                    bad.setdefault((c, exitv), p)
        if bad:
            for (c, exitv), p in bad.items():
                tag = exit_tag(p.ret)
                rep.violation('R2-write-then-journal', '%s:%s:exit=%s' % (f.name, c, tag),
                              'JournaledState::%s writes %s on a path that returns %s without pushing a journal entry that restores it (entries pushed on the path: %s): a later checkpoint_revert cannot undo the write' % (
                                  f.name, c, exitv, sorted(path_effects(p)[1]) or 'none'), f.where())
        elif wrote_any:
            n += 1
            rep.ok('R2-write-then-journal', f.name, '%d paths' % len(rs))
        else:
            rep.ok('R2-write-then-journal', f.name + ':no-journaled-writes', nontrivial=False)
    rep.floor('methods-with-journaled-writes', n, 6)


def tstore_noop_evidence(p):
    """transient storage: the map operation on this path is known to have changed nothing -
    `remove` returned None (key absent) or the value replaced by `insert` equals the new one"""
    for (sv, lit, _f, _b) in p.lits:
        if sv[0] == 'discr' and sv[1][0] == 'call' and sv[1][1].endswith('::remove') and lit in (('eq', 0), ('ne', (1,))):
            return True
        if sv[0] == 'call' and sv[1].endswith('PartialEq::ne') and lit == ('eq', 0):
            return True
        if sv[0] == 'call' and sv[1].endswith('PartialEq::eq') and lit in (('ne', (0,)), ('eq', 1)):
            return True
    return False


def exit_tag(ret):
    from c07 import find_variant  # noqa
    r = render(ret)
    for v in ('OverflowPayment', 'OutOfFunds', 'CreateCollision'):
        if v in r:
            return v
    if ret[0] == 'agg' and ret[2] in ('Ok', 'Some', 'None'):
        return ret[2]
    return 'return'


def check_touch_account(fx, rep):
    f = fx.fns.get(JS + 'touch_account')
    if f is None:
        rep.undecided('R2-touch-account', 'touch_account', 'not found')
        return
    rep.fn(f)
    rs = Symx(fx, pure=PURE | {ACC + 'is_touched'}).run(f)
    good = True
    for p in rs:
        marks = [e for e in p.events if e[0] == ACC + 'mark_touch']
        pushes = [e for e in p.events if e[0].endswith('::push') and len(e[1]) == 2 and e[1][1][0] == 'agg' and e[1][1][2] == 'AccountTouched']
        if bool(marks) != bool(pushes):
            good = False
    if good and any(e[0] == ACC + 'mark_touch' for p in rs for e in p.events):
        rep.ok('R2-touch-account', 'touch_account', 'mark_touch iff AccountTouched pushed')
    else:
        rep.violation('R2-touch-account', 'touch_account', 'touch_account marks an account touched without journaling it (or vice versa)', f.where())


def check_order_extent(fx, rep):
    f = fx.fns.get(JS + 'journal_revert')
    if f is not None:
        og = Origins(f, fx)
        names = [t.target_fn or '' for _, t in f.calls()]
        rev = [t for _, t in f.calls() if (t.callee or '').endswith('Iterator::rev')]
        nexts = [t for _, t in f.calls() if (t.callee or '').endswith('Iterator::next')]
        ok = False
        if rev and nexts:
            ro = og.of_operand(rev[0].args[0])
            src_ok = all(o.root[0] == 'call' and o.root[1].endswith('into_iter') for o in ro)
            nx = nexts[0]
            is_rev_next = 'Rev' in (nx.d.get('cfull') or '')
            ok = src_ok and is_rev_next
        if ok:
            rep.ok('R3-order-extent', 'journal_revert:reverse', 'entries.into_iter().rev()')
        else:
            rep.violation('R3-order-extent', 'journal_revert:reverse', 'journal_revert does not iterate the entries in reverse order', f.where())
    g = fx.fns.get(JS + 'checkpoint_revert')
    if g is None:
        rep.undecided('R3-order-extent', 'checkpoint_revert', 'not found')
    else:
        rep.fn(g)
        og = Origins(g, fx)
        cp = 2
        want = {'take': False, 'rev': False, 'logs.truncate': False, 'journal.truncate': False}
        for bi, t in g.calls():
            cal = t.callee or ''
            if cal.endswith('Iterator::rev'):
                want['rev'] = True
            if cal.endswith('Iterator::take'):
                oo = og.of_operand(t.args[1])
                for o in oo:
                    r = o.root
                    if r[0] == 'bin' and r[1] in ('Sub', 'SubWithOverflow'):
                        a_len = all(x.root[0] == 'call' and x.root[1].endswith('::len') for x in r[2])
                        b_cp = all(x.root == ('param', cp) and x.path == ('.journal_i',) for x in r[3])
                        if a_len and b_cp:
                            want['take'] = True
            if cal.endswith('Vec::truncate'):
                recv = og.of_operand(t.args[0])
                arg = og.of_operand(t.args[1])
                if all(o.path[-1:] == ('.logs',) for o in recv) and all(o.root == ('param', cp) and o.path == ('.log_i',) for o in arg):
                    want['logs.truncate'] = True
                if all(o.path[-1:] == ('.journal',) for o in recv) and all(o.root == ('param', cp) and o.path == ('.journal_i',) for o in arg):
                    want['journal.truncate'] = True
        for k, v in want.items():
            if v:
                rep.ok('R3-order-extent', 'checkpoint_revert:' + k)
            else:
                rep.violation('R3-order-extent', 'checkpoint_revert:' + k, 'checkpoint_revert: expected step `%s` with the checkpoint\'s own index not found' % k, g.where())
        # the revert closure hands each journal to journal_revert
        cl = fx.closures_of(g.nq)
        if any(any(t.target_fn == JS + 'journal_revert' for _, t in c.calls()) for c in cl) or any(t.target_fn == JS + 'journal_revert' for _, t in g.calls()):
            rep.ok('R3-order-extent', 'checkpoint_revert:journal_revert')
        else:
            rep.violation('R3-order-extent', 'checkpoint_revert:journal_revert', 'checkpoint_revert does not apply journal_revert to the reverted journals', g.where())
    h = fx.fns.get(JS + 'checkpoint')
    if h is None:
        rep.undecided('R3-order-extent', 'checkpoint', 'not found')
        return
    rep.fn(h)
    og = Origins(h, fx)
    cfg = cfg_of(h)
    agg = None
    for b in h.blocks:
        for s in b.stmts:
            if s.kind == 'assign' and s.rv.rv == 'agg' and s.rv.d.get('adt', '').endswith('JournalCheckpoint'):
                agg = (b.i, s)
    push = [bi for bi, t in h.calls() if (t.callee or '').endswith('Vec::push')]
    if agg is None or not push:
        rep.undecided('R3-order-extent', 'checkpoint:shape', 'JournalCheckpoint construction or journal push not found', h.where())
        return
    names = agg[1].rv.d['names']
    ok = True
    for fld, coll in (('log_i', '.logs'), ('journal_i', '.journal')):
        oo = og.of_operand(agg[1].rv.ops[names.index(fld)])
        for o in oo:
            if not (o.root[0] == 'call' and o.root[1].endswith('::len')):
                ok = False
                continue
            t = h.blocks[o.root[2]].term
            recv = og.of_operand(t.args[0])
            if not all(x.path[-1:] == (coll,) for x in recv):
                ok = False
            # the length is read before the new journal is pushed
            if not all(cfg.dominates(o.root[2], pb) and not cfg.reachable(pb, o.root[2]) for pb in push):
                ok = False
    if ok:
        rep.ok('R3-order-extent', 'checkpoint', 'log_i = logs.len(), journal_i = journal.len(), both read before the push')
    else:
        rep.violation('R3-order-extent', 'checkpoint', 'checkpoint() does not record logs.len()/journal.len() taken before pushing the new journal', h.where())


ALLOWED_WRITERS = {
    'revm::handler::mainnet::pre_execution::deduct_caller_inner': 'tx fee deduction, before the first checkpoint',
    'revm::handler::mainnet::pre_execution::apply_eip7702_auth_list': 'EIP-7702 authorisations, tx level',
    'revm::handler::mainnet::post_execution::reimburse_caller': 'tx level, after the last frame',
    'revm::handler::mainnet::post_execution::reward_beneficiary': 'tx level, after the last frame',
    'revm_primitives::env::Env::validate_tx_against_state': 'balance top-up under cfg.disable_balance_check (test/dev feature)',
    'revm::optimism::handler_register::validate_tx_against_state': 'balance top-up under cfg.disable_balance_check (test/dev feature)',
    'revm::optimism::handler_register::deduct_caller': 'optimism tx level',
    'revm::optimism::handler_register::reimburse_caller': 'optimism tx level',
    'revm::optimism::handler_register::reward_beneficiary': 'optimism tx level',
    'revm::optimism::handler_register::end': 'optimism failed-deposit handling, tx level',
    'revm::optimism::handler_register::output': 'optimism failed-deposit handling, tx level',
}


def check_recorded_values(fx, rep):
    """R5: an undo entry that carries a value carries the value the location held immediately before
    this write (journal_revert writes it back): for sstore the present value just loaded for the same
    (address, key), for tstore what the map's insert / remove returned for the same key."""
    def deep(v):
        import c15
        return c15.render_deep(v)
    specs = {
        'sstore': ('StorageChanged', lambda t: t.startswith('sload(') and t.endswith('.data') and 'arg2, arg3' in t,
                   'the slot\'s present value loaded by sload(address, key) for this write'),
        'tstore': ('TransientStorageChange', lambda t: ('insert(&(\'arg\', 1).transient_storage' in t or 'remove(&(\'arg\', 1).transient_storage' in t) and 'arg2' in t and 'arg3' in t,
                   'the value the transient map held for (address, key) before this write'),
    }
    for name, (variant, good, what) in specs.items():
        f = fx.fns.get(JS + name)
        if f is None:
            rep.undecided('R5-recorded-value', name, 'not found')
            continue
        rep.fn(f)
        try:
            rs = Symx(fx, pure=PURE, max_paths=6000, snapshot_refs=True).run(f)
        except Budget:
            rep.undecided('R5-recorded-value', name, 'path budget', f.where())
            continue
        seen = 0
        bad = None
        for p in rs:
            for e in p.events:
                if e[0].endswith('Vec::push') and len(e[1]) > 1 and e[1][1][0] == 'agg' and e[1][1][2] == variant:
                    ent = e[1][1]
                    if 'had_value' not in ent[3]:
                        bad = 'the entry has no had_value'
                        continue
                    hv = deep(ent[4][ent[3].index('had_value')])
                    seen += 1
                    if not good(hv):
                        bad = 'the entry records had_value = %s; reverting must restore %s' % (hv[:90], what)
        if bad or not seen:
            rep.violation('R5-recorded-value', name, 'JournaledState::%s: %s' % (name, bad or 'no %s entry is pushed' % variant), f.where())
        else:
            rep.ok('R5-recorded-value', name, what)


def topup_guarded(fx, f):
    """every store to `.info.balance` in f is dominated by the true edge of is_balance_check_disabled()"""
    from cfg import guards_of
    og = Origins(f, fx)
    for b in f.blocks:
        if b.cleanup:
            continue
        for s_ in b.stmts:
            if s_.kind == 'assign' and tuple(s_.place.pr[-2:]) == ('.info', '.balance'):
                ok = False
                for gd in guards_of(f, og, b.i):
                    if gd.truth() is True and any(o.root[0] == 'call' and o.root[1].endswith('is_balance_check_disabled') for o in gd.discr):
                        ok = True
                if not ok:
                    return False
    return True


def check_writers(ctx, rep):
    cfgs = ['default'] if ctx.tier == 'quick' else ['default', 'optimism']
    seen = set()
    for cfgn in cfgs:
        fx = ctx.facts(cfgn)
        for f in fx.fns_all:
            if not f.crate or f.crate.endswith('-test'):
                continue
            nq = f.nq
            if nq.startswith(JS) or nq.startswith('revm::db::') or nq.startswith('<revm::db::') or nq.startswith('revm_primitives::state::') or '::test' in nq:
                continue
            if f.file.endswith(('journaled_state.rs',)) or '/db/' in f.file or f.file.endswith('state.rs') and 'primitives' in f.file:
                continue
            hit = None
            for b in f._blocks_raw:
                for s in b['st']:
                    if s.get('s') != 'assign':
                        continue
                    pr = s['p']['pr']
                    if len(pr) >= 2 and pr[-2] == '.info' and pr[-1] in ('.balance', '.nonce', '.code_hash'):
                        hit = pr[-1]
                t = b['term']
                if t.get('t') == 'call' and (t.get('callee') or '').endswith(('add_assign', 'sub_assign')):
                    pass
            if hit is None:
                # compound assignment operators on balances are calls taking &mut balance
                og = None
                for bi, t in f.calls():
                    if (t.callee or '').endswith(('AddAssign::add_assign', 'SubAssign::sub_assign')):
                        og = og or Origins(f, fx)
                        for o in og.of_operand(t.args[0]):
                            if o.path[-2:] == ('.info', '.balance'):
                                hit = '.balance'
            if hit is None:
                continue
            base = f.parent or nq
            if base in seen:
                continue
            seen.add(base)
            rep.fn(f)
            key = base.split('::')[-1]
            if base in ALLOWED_WRITERS and base.endswith('validate_tx_against_state') and not topup_guarded(fx, f):
                rep.violation('R4-writers', key, '%s writes the caller balance on a path that is not under cfg.is_balance_check_disabled()' % base, f.where())
            elif base in ALLOWED_WRITERS:
                rep.ok('R4-writers', key, ALLOWED_WRITERS[base], nontrivial=False)
            else:
                rep.violation('R4-writers', key, '%s writes account%s of the journaled state outside journaled_state.rs without a journal entry' % (base, hit), f.where())


def check_undo_values(fx, rep):
    """R1b: each revert arm restores the value the entry recorded, to the account the entry names:
    AccountDestroyed re-sets the selfdestructed flag to `was_destroyed`, gives `had_balance` back to
    `address` and takes it from `target` iff they differ; BalanceTransfer gives `balance` back to
    `from` and takes it from `to`; NonceChange decrements; AccountCreated clears the created flag and
    the nonce; StorageChanged writes `had_value`; TransientStorageChange re-inserts `had_value` or
    removes the key when it was zero; CodeChange restores the empty code hash and no code;
    AccountTouched clears the touch except for the RIPEMD precompile from Spurious Dragon on;
    the two warm entries re-cool."""
    f = fx.fns.get(JS + 'journal_revert')
    adt = fx.adts.get('revm::journaled_state::JournalEntry')
    if f is None or adt is None:
        return
    byd = {v.get('discr', i): v['name'] for i, v in enumerate(adt['variants'])}
    try:
        rs = Symx(fx, pure=PURE, max_paths=3000, snapshot_refs=True).run(f)
    except Budget:
        rep.undecided('R1-undo-values', 'journal_revert', 'path budget', f.where())
        return
    problems = {}
    seen = set()

    def fld(txt, kind, name):
        return txt.replace(' ', '').endswith('@%s.%s' % (kind, name))

    for p in rs:
        kind = None
        for (sv, lit, _f, _b) in p.lits:
            if sv[0] == 'discr' and sv[2].endswith('JournalEntry') and lit[0] == 'eq':
                kind = byd.get(lit[1])
        if kind is None:
            continue
        seen.add(kind)
        lits = [(render(l[0]), lit_truth(l[1])) for l in p.lits]
        # events with the account each one acts on (the key of the latest get_mut)
        cur = None
        evs = []
        for e in p.events:
            s = e[0].split('::')[-1]
            if s == 'get_mut' and len(e[1]) > 1:
                cur = render(e[1][1])
            evs.append((s, cur, [render(a) for a in e[1]]))
        names = [s for s, _c, _a in evs]
        stores = {(''.join(path)): render(v) for (root, path), v in p.stores.items() if path}

        def bad(msg):
            problems.setdefault(kind, msg)
        if kind == 'AccountDestroyed':
            wd = [t for x, t in lits if fld(x, kind, 'was_destroyed')]
            differ = [t for x, t in lits if x.startswith('ne(') and 'AccountDestroyed.address' in x and 'AccountDestroyed.target' in x]
            if not wd or wd[0] is None:
                bad('the selfdestructed flag is not restored from `was_destroyed` (there can be several self-destructs of one account in a transaction)')
            elif ('mark_selfdestruct' in names) != bool(wd[0]) or ('unmark_selfdestruct' in names) == bool(wd[0]):
                bad('with was_destroyed=%s the flag is %s' % (wd[0], 'set' if 'mark_selfdestruct' in names else 'cleared'))
            adds = [(c, a) for s, c, a in evs if s == 'add_assign']
            subs = [(c, a) for s, c, a in evs if s == 'sub_assign']
            if len(adds) != 1 or not fld(adds[0][0] or '', kind, 'address') or not fld(adds[0][1][1], kind, 'had_balance'):
                bad('had_balance is not given back to `address`')
            if differ and differ[0] is True:
                if len(subs) != 1 or not fld(subs[0][0] or '', kind, 'target') or not fld(subs[0][1][1], kind, 'had_balance'):
                    bad('had_balance is not taken back from `target`')
            elif subs:
                bad('balance is subtracted although address == target')
        elif kind == 'BalanceTransfer':
            adds = [(c, a) for s, c, a in evs if s == 'add_assign']
            subs = [(c, a) for s, c, a in evs if s == 'sub_assign']
            if len(adds) != 1 or not fld(adds[0][0] or '', kind, 'from') or not fld(adds[0][1][1], kind, 'balance'):
                bad('the amount is not given back to `from`')
            if len(subs) != 1 or not fld(subs[0][0] or '', kind, 'to') or not fld(subs[0][1][1], kind, 'balance'):
                bad('the amount is not taken back from `to`')
        elif kind == 'NonceChange':
            v = stores.get('.info.nonce', '')
            if not (v.startswith('Sub(') and v.endswith('.info.nonce, 1)')):
                bad('the nonce is not decremented by one (%s)' % v[:60])
        elif kind == 'AccountCreated':
            if 'unmark_created' not in names or stores.get('.info.nonce') != '0':
                bad('created flag / nonce not reset')
        elif kind == 'StorageChanged':
            v = stores.get('.present_value', '')
            if not fld(v, kind, 'had_value'):
                bad('the slot is not set back to had_value (%s)' % v[:60])
        elif kind == 'TransientStorageChange':
            z = [t for x, t in lits if x.startswith('is_zero(') and 'had_value' in x]
            ins = [a for s, c, a in evs if s == 'insert']
            if not z or z[0] is None:
                bad('no test whether the previous value was zero')
            elif z[0] and 'remove' not in names:
                bad('a previously absent key is not removed')
            elif not z[0] and (len(ins) != 1 or not fld(ins[0][2], kind, 'had_value') or 'TransientStorageChange.address' not in ins[0][1] or 'TransientStorageChange.key' not in ins[0][1]):
                bad('the previous value is not re-inserted under (address, key)')
        elif kind == 'CodeChange':
            v = stores.get('.info.code_hash', '')
            if '197, 210, 70, 1, 134, 247' not in v or 'None' not in stores.get('.info.code', ''):
                bad('code hash / code not reset to empty')
        elif kind == 'AccountTouched':
            flag = [t for x, t in lits if x == 'arg4']
            is3 = [t for x, t in lits if x.startswith('eq(') and 'AccountTouched' not in x[:4]]
            keep = bool(flag and flag[0]) and bool(is3 and is3[0])
            if ('unmark_touch' in names) == keep:
                bad('touch %s with spurious-dragon flag=%s, precompile-3=%s' % ('kept' if keep else 'cleared' if 'unmark_touch' in names else 'kept', flag and flag[0], is3 and is3[0]))
        elif kind in ('AccountWarmed', 'StorageWarmed'):
            if 'mark_cold' not in names:
                bad('not re-cooled')
    for k in sorted(byd.values()):
        if k not in seen:
            continue
        if k in problems:
            rep.violation('R1-undo-values', k, 'the revert arm of JournalEntry::%s: %s' % (k, problems[k]), f.where())
        else:
            rep.ok('R1-undo-values', k, 'restores the recorded value')
    rep.floor('R1-undo-value-arms', len(seen), 10)
