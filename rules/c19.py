"""C19 — executing on top of a preloaded bundle equals executing on the merged state (skeleton).

The equivalence over histories is not decided.  It rests on the bundle shadowing the database and
on a faithful conversion, which are decided:
R1 State::load_cache_account, per path: the cache is consulted first; with use_preloaded_bundle
   set and the bundle holding the address the account inserted comes from the bundle and the
   database is NOT asked; otherwise the database is asked exactly once and its answer inserted;
R2 State::code_by_hash: same order for code (cache, bundle contracts, database);
R3 From<BundleAccount> for CacheAccount: the status is copied, the account is present iff the
   bundle account has info, and each slot carries the bundle's present value;
R4 the storage reads of State rely on that account and its status (C15 R4, run here too).
"""
import c15
from symx import Symx, Budget, render, lit_truth

META = {
    'level': 'other',
    'decides': 'the lookup order cache > preloaded bundle > database for accounts and code on every path, that a bundle hit never reaches the database, and the field-by-field conversion of a bundle account into a cache account; how StateBuilder::build composes cache, preloaded bundle, state-clear flag and the use_preloaded_bundle switch in its four configuration cases',
    'does_not_decide': 'equality of execution results and resulting bundles over histories',
    'explanation': 'Path enumeration of the two lookup functions with the map lookups kept symbolic; symbolic record of the conversion.',
}

S = 'revm::db::states::state::State'


def run(ctx, rep):
    fx = ctx.facts('default')
    f = fx.fns.get(S + '::load_cache_account')
    check_lookup(fx, rep, f, 'load_cache_account', 'cache.accounts', 'bundle_state', 'Database::basic', 'account(')
    g = None
    for x in fx.fns_all:
        if x.name == 'code_by_hash' and (x.impl_self or '').startswith(S) and (x.impl_trait or '').endswith('::Database'):
            g = x
    check_lookup(fx, rep, g, 'code_by_hash', 'cache.contracts', 'bundle_state.contracts', 'Database::code_by_hash', 'get(')
    check_conversion(fx, rep)
    check_builder(fx, rep)
    c15.check_reads(fx, rep)


def check_lookup(fx, rep, f, name, cache_field, bundle_txt, db_call, bundle_call):
    if f is None:
        rep.undecided('R1-shadowing', name, 'function not found')
        return
    rep.fn(f)
    try:
        rs = Symx(fx, max_paths=4000, snapshot_refs=True).run(f)
    except Budget:
        rep.undecided('R1-shadowing', name, 'path budget', f.where())
        return
    problems = []
    kinds = {'cache-hit': 0, 'bundle-hit': 0, 'db': 0}
    for r in rs:
        lits = [(render(l[0]), l[1]) for l in r.lits]
        # first decision is the cache
        if not lits or cache_field not in lits[0][0]:
            problems.append('the first lookup is %s, not the cache' % (lits[0][0][:50] if lits else 'nothing'))
            continue
        db = [e for e in r.events if e[0].endswith(db_call)]
        cache_hit = lits[0][1] == ('eq', 0)
        if cache_hit:
            kinds['cache-hit'] += 1
            if db or any(bundle_txt in render(e[1][0]) for e in r.events if e[1]):
                problems.append('a cache hit still consults the bundle or the database')
            continue
        flag = None
        found = None
        for txt, lit in lits[1:]:
            if 'use_preloaded_bundle' in txt:
                flag = lit_truth(lit)
            elif bundle_txt in txt and bundle_call in txt and found is None:
                found = (lit == ('eq', 1))
        if flag and found:
            kinds['bundle-hit'] += 1
            if db:
                problems.append('the database is asked although the preloaded bundle has the entry')
            ret = render(r.ret)
            ins = [e for e in r.events if e[0].endswith('VacantEntry::insert')]
            src = render(ins[0][1][1]) if ins and len(ins[0][1]) > 1 else ''
            if not ins or bundle_txt.split('.')[0] not in src:
                problems.append('the cached entry on a bundle hit does not come from the bundle (%s)' % src[:50])
        else:
            kinds['db'] += 1
            if len(db) != 1:
                problems.append('%d database reads on a miss path' % len(db))
            if flag is None:
                problems.append('a path reaches the database without testing use_preloaded_bundle')
            if flag and found is None:
                problems.append('with use_preloaded_bundle set the bundle is not consulted before the database')
    if not (kinds['cache-hit'] and kinds['bundle-hit'] and kinds['db'] >= 2):
        problems.append('paths not recognised: %s' % kinds)
    rule = 'R1-shadowing' if name == 'load_cache_account' else 'R2-code-shadowing'
    if problems:
        rep.violation(rule, name, 'State::%s: %s' % (name, sorted(set(problems))[0]), f.where())
    else:
        rep.ok(rule, name, 'cache > bundle > database on %d paths' % len(rs))


def check_conversion(fx, rep):
    f = fx.fns.get('<revm::db::states::cache_account::CacheAccount as core::convert::From>::from')
    if f is None:
        cands = [x for x in fx.fns_all if x.name == 'from' and 'CacheAccount' in (x.impl_self or '')]
        f = cands[0] if cands else None
    if f is None:
        rep.undecided('R3-conversion', 'From<BundleAccount>', 'impl not found')
        return
    rep.fn(f)
    try:
        rs = Symx(fx, max_paths=500, snapshot_refs=True).run(f)
    except Budget:
        rep.undecided('R3-conversion', 'From<BundleAccount>', 'path budget', f.where())
        return
    problems = []
    for r in rs:
        ret = r.ret
        if ret[0] != 'agg':
            problems.append('result is %s' % render(ret)[:60])
            continue
        d = dict(zip(ret[3], ret[4]))
        if render(d.get('status', ('sym', '?'))) != 'arg1.status':
            problems.append('status is %s, not the bundle account\'s status' % render(d.get('status', ('sym', '?')))[:50])
        acc = render(d.get('account', ('sym', '?')))
        if 'account_info' not in acc and 'arg1.info' not in acc:
            problems.append('the account is built from %s, not from the bundle account\'s info' % acc[:60])
    cl = list(fx.closures_of(f.nq))
    pv = False
    for g in cl:
        for b in g.blocks:
            for s in b.stmts:
                if s.kind == 'assign':
                    for o in s.rv.ops:
                        if o.place is not None and '.present_value' in o.place.pr:
                            pv = True
    if not pv:
        problems.append('slots are not converted through their present value')
    # every slot of the bundle account must arrive in the cache account: a slot that is missing
    # is read from the database when the status says storage is not fully known (e.g. Changed)
    TOTAL = {'iter', 'into_iter', 'map', 'collect', 'cloned', 'copied', 'clone', 'account_info', 'deref'}
    adaptors = set()
    for _, t in f.calls():
        c_ = t.callee or ''
        if '::iter::' in c_ or 'Iterator::' in c_:
            adaptors.add(c_.split('::')[-1])
    partial = adaptors - TOTAL
    if partial:
        problems.append('the storage conversion uses %s, which can drop slots (a dropped slot of a Changed account is read from the database instead of the bundle)' % sorted(partial))
    if problems:
        rep.violation('R3-conversion', 'From<BundleAccount>', 'CacheAccount::from(BundleAccount): ' + sorted(set(problems))[0], f.where())
    else:
        rep.ok('R3-conversion', 'From<BundleAccount>', 'status copied, info mapped, present values')


def check_builder(fx, rep):
    """R4: StateBuilder::build hands the preloaded bundle to the State and switches it on.  Per
    (cache prestate given?, bundle prestate given?): the cache is the given one, else
    CacheState::new(with_state_clear) - also when a bundle is preloaded (a bundle of a pre-EIP-161
    chain must not silently get state clearing); the bundle is the given one unless a cache prestate
    takes precedence; use_preloaded_bundle is set exactly when the given bundle is used."""
    from symx import Symx, Budget, render
    f = fx.fns.get('revm::db::states::state_builder::StateBuilder::build')
    if f is None:
        rep.undecided('R4-builder', 'build', 'StateBuilder::build not found')
        return
    rep.fn(f)
    try:
        rs = Symx(fx, max_paths=500, snapshot_refs=True).run(f)
    except Budget:
        rep.undecided('R4-builder', 'build', 'path budget', f.where())
        return
    # the closure handed to unwrap_or_else builds CacheState::new(with_state_clear)
    clos_ok = {}
    for c in fx.closures_of(f.nq):
        crs = Symx(fx, max_paths=50).run(c)
        clos_ok[c.nq.split('::')[-1]] = all(render(r.ret).replace(' ', '').startswith('new(') and r.ret[1].endswith('CacheState::new') for r in crs) and bool(crs)
    problems = []
    combos = set()
    for r in rs:
        if not (r.ret[0] == 'agg' and r.ret[1].endswith('State')):
            problems.append('a path does not build a State')
            continue
        fields = dict(zip(r.ret[3], r.ret[4]))
        known = {}
        for (sv, lit, _f, _b) in r.lits:
            t = render(sv)
            for nm in ('with_cache_prestate', 'with_bundle_prestate'):
                if nm in t and (t.startswith('is_some(') or t.startswith('discr(')):
                    some = (lit == ('eq', 1)) or (lit[0] == 'ne' and 0 in lit[1] and t.startswith('is_some('))
                    if t.startswith('is_some('):
                        some = lit != ('eq', 0)
                    known[nm] = some
        cache = render(fields.get('cache', ('sym', '?')))
        bundle = render(fields.get('bundle_state', ('sym', '?')))
        use = fields.get('use_preloaded_bundle')
        for c_some in ([known['with_cache_prestate']] if 'with_cache_prestate' in known else [True, False]):
            for b_some in ([known['with_bundle_prestate']] if 'with_bundle_prestate' in known else [True, False]):
                combos.add((c_some, b_some))
                # cache
                generic = cache.startswith('unwrap_or_else(arg1.with_cache_prestate') and 'with_state_clear' in cache and any(ok and name in cache for name, ok in clos_ok.items())
                if c_some:
                    ok = generic or cache.startswith('arg1.with_cache_prestate@Some')
                else:
                    ok = generic or (cache.replace(' ', '').startswith('new(') and 'with_state_clear' in cache)
                if not ok:
                    problems.append('with cache prestate %s and bundle prestate %s the cache is %s; expected %s' % (
                        'given' if c_some else 'absent', 'given' if b_some else 'absent', cache[:60], 'the given cache' if c_some else 'CacheState::new(with_state_clear)'))
                # bundle + switch
                want_use = (not c_some) and b_some
                if use is not None and use[0] == 'k':
                    got_use = bool(int(use[1]))
                elif use is not None and render(use).startswith('is_some(&arg1.with_bundle_prestate') and not c_some:
                    got_use = b_some
                else:
                    got_use = None
                if got_use is not want_use:
                    problems.append('use_preloaded_bundle is %s with cache prestate %s and bundle prestate %s' % (render(use)[:40] if use else '?', c_some, b_some))
                if want_use and not (bundle.startswith('arg1.with_bundle_prestate@Some') or bundle.startswith('unwrap_or_default(arg1.with_bundle_prestate')):
                    problems.append('the preloaded bundle is not the one given (%s)' % bundle[:60])
                if c_some and b_some and not ('default(' in bundle or 'None' in bundle):
                    problems.append('a cache prestate does not take precedence over the bundle prestate')
    if len(combos) < 4:
        problems.append('only %d of the 4 configuration cases recognised' % len(combos))
    if problems:
        rep.violation('R4-builder', 'build', 'StateBuilder::build: ' + sorted(set(problems))[0], f.where())
    else:
        rep.ok('R4-builder', 'build', 'cache / bundle / switch per (cache given, bundle given): 4 cases')
