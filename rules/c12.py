"""C12 — the EVM stack is a bounded LIFO of 1024 words (structural clauses).

R1 failure leaves the stack unchanged: in every fallible Stack method no mutation of the buffer
   (Vec::push/pop/set_len, pointer copies/writes, IndexMut) can precede an `Err` result;
R2 bounds guards of the unsafe operations in Stack: push (len != 1024), dup (len >= n and
   len + 1 <= 1024 before the copy and set_len), exchange (n + m < len before the pointer swap),
   push_slice (len + words <= 1024 before set_len); capacity and limit are the constant 1024;
R3 every call of an `unsafe fn Stack::*_unsafe` anywhere in the workspace is covered by a
   dominating `stack.len() < K -> StackUnderflow` check with K >= items consumed since the check
   plus the items the call needs (LOGn: guard constant = trip-count constant idiom).
"""
from cfg import cfg_of, Origins, guards_of
import ruletable as rt
from tables import blocks_setting_result

META = {
    'level': 'other',
    'decides': 'that failing stack operations write nothing, that every unsafe buffer operation inside Stack is dominated by its bounds test against the constant 1024, and that every unsafe pop in the workspace is covered by a length check of sufficient size on all paths',
    'does_not_decide': 'LIFO order and value content (push_slice big-endian packing is numeric)',
    'explanation': 'Dominating-guard extraction with canonicalised comparisons and constant values (A7); reachability of Err results from mutation sites; per-site pop accounting between the covering length check and the unsafe call (longest path over the acyclic region).',
}

S = 'revm_interpreter::interpreter::stack::Stack::'
MUTATORS = ('Vec::push', 'Vec::pop', 'Vec::set_len', 'copy_nonoverlapping', 'swap_nonoverlapping', '::write', 'write_bytes',
            'IndexMut::index_mut', 'copy_from_slice', 'Vec::truncate', 'Vec::clear')
NEED = {'pop_unsafe': 1, 'pop2_unsafe': 2, 'pop3_unsafe': 3, 'pop4_unsafe': 4, 'pop5_unsafe': 5, 'pop_top_unsafe': 2,
        'pop2_top_unsafe': 3, 'top_unsafe': 1}
CONSUME = {'pop_unsafe': 1, 'pop2_unsafe': 2, 'pop3_unsafe': 3, 'pop4_unsafe': 4, 'pop5_unsafe': 5, 'pop_top_unsafe': 1,
           'pop2_top_unsafe': 2, 'top_unsafe': 0}


def lits_at(fx, f, og, bi):
    out = set()
    for g in guards_of(f, og, bi):
        out.update(rt.canon_guard(fx, f, og, g))
    return out


def run(ctx, rep):
    fx = ctx.facts('default')
    old = rt.NUMERIC_CONSTS
    rt.NUMERIC_CONSTS = True
    try:
        check_unchanged_on_error(fx, rep)
        check_bounds(fx, rep)
        check_unsafe_pops(ctx, rep)
        check_push_slice_fill(fx, rep)
        check_immediate_arithmetic(fx, rep)
    finally:
        rt.NUMERIC_CONSTS = old
    rep.assume('`assume!`/debug assertions are not relied on: only explicit comparisons count as guards')


def check_push_slice_fill(fx, rep):
    """R4: push_slice claims whole words with set_len and then writes 64-bit limbs; i counts the data
    limbs written.  On every exit the limbs between i and the next word boundary are zeroed, and no
    more: for every residue of i modulo 4 the zero fill starts at limb i and covers (4 - i % 4) % 4
    limbs.  (Otherwise the pushed word keeps whatever the slot held before.)"""
    from symx import Symx, Budget, render
    import c23
    f = fx.fns.get(S + 'push_slice')
    if f is None:
        rep.undecided('R4-push-slice-fill', 'push_slice', 'not found')
        return
    rep.fn(f)
    try:
        rs = Symx(fx, max_paths=20000, snapshot_refs=True, loop_symbolic=True).run(f)
    except Budget:
        rep.undecided('R4-push-slice-fill', 'push_slice', 'path budget', f.where())
        return

    def limbs_of(e):
        short = e[0].split('::')[-1]
        if short == 'write_bytes' and len(e[1]) == 3 and e[1][1] == ('k', 0):
            return ('count', e[1][2])
        if short == 'write' and len(e[1]) == 2:
            v = e[1][1]
            if v == ('k', 0):
                return ('const', 1)
            if v[0] == 'agg' and v[4] and all(x == ('k', 0) for x in v[4]):
                return ('const', len(v[4]))
            if v[0] == 'repeat' and v[1] == ('k', 0) and str(v[2]).isdigit():
                return ('const', int(v[2]))
        return None

    bad = None
    cells = 0
    exits = [r for r in rs if not r.cut and r.ret[0] == 'agg' and r.ret[2] == 'Ok']
    data_exits = 0
    for r in exits:
        has_i = any('loop:i' in render(l[0]) for l in r.lits) or any('loop:i' in render(a) for e in r.events for a in e[1])
        if not has_i:
            continue            # no partial word on this exit (empty slice / only full words)
        data_exits += 1
        # the final limb index: the operand of the `% 4` test, else the offset of the last data write
        for v in range(4, 12):
            env = {'loop:i': v, '__sym__': lambda r_: None}
            ok = True
            final = None
            for (sv, lit, _f, _b) in r.lits:
                txt = render(sv)
                if 'loop:i' not in txt or 'len(' in txt:
                    continue
                try:
                    val = c23.ev(sv, env)
                except c23.NoValue:
                    continue
                if (lit[0] == 'eq' and val != lit[1]) or (lit[0] == 'ne' and val in lit[1]):
                    ok = False
                if sv[0] == 'bin' and sv[2][0] == 'bin' and sv[2][1] == 'Rem':
                    try:
                        final = c23.ev(sv[2][2], env)
                    except c23.NoValue:
                        pass
            if not ok:
                continue
            if final is None:
                # index after the last data write of the path
                final = v + (1 if any('Add(loop:i, 1)' in render(l[0]) for l in r.lits) else 0)
            zero = 0
            start = None
            unknown = False
            for e in r.events:
                lm = limbs_of(e)
                if e[0].split('::')[-1] in ('write_bytes',) or (e[0].split('::')[-1] == 'write' and lm is not None):
                    if lm is None:
                        unknown = True
                        continue
                    try:
                        cnt = c23.ev(lm[1], env) if lm[0] == 'count' else lm[1]
                    except c23.NoValue:
                        unknown = True
                        continue
                    zero += cnt
            cells += 1
            want = (4 - final % 4) % 4
            if unknown:
                bad = 'zero fill not evaluable'
            elif zero != want:
                bad = 'with %d data limbs written (i %% 4 = %d) the zero fill covers %d limb(s), %d are needed to complete the word: the upper part of the pushed word keeps stale data' % (final, final % 4, zero, want)
            if bad:
                break
        if bad:
            break
    if not bad and (data_exits < 2 or cells < 8):
        bad = 'exit paths not recognised (%d exits with a partial word, %d cells)' % (data_exits, cells)
    if bad:
        rep.violation('R4-push-slice-fill', 'push_slice', 'Stack::push_slice: ' + bad, f.where())
    else:
        rep.ok('R4-push-slice-fill', 'push_slice', 'zero fill completes the last word for every residue (%d cells)' % cells)


def check_unchanged_on_error(fx, rep):
    n = 0
    for name in ('push', 'push_b256', 'pop', 'peek', 'dup', 'swap', 'exchange', 'push_slice', 'set'):
        f = fx.fns.get(S + name)
        if f is None:
            rep.undecided('R1-unchanged-on-error', name, 'Stack::%s not found' % name)
            continue
        rep.fn(f)
        cfg = cfg_of(f)
        errs = []
        for b in f.blocks:
            if b.cleanup:
                continue
            for s in b.stmts:
                if s.kind == 'assign' and s.rv.rv == 'agg' and s.rv.d.get('variant') == 'Err' and s.rv.d.get('adt', '').endswith('result::Result'):
                    errs.append(b.i)
        muts = [bi for bi, t in f.calls() if any(m in (t.callee or '') for m in MUTATORS)]
        bad = [(m, e) for m in muts for e in errs if cfg.reachable(m, e)]
        n += 1
        if bad:
            rep.violation('R1-unchanged-on-error', name, 'Stack::%s can return an error after mutating the buffer' % name, f.where(bad[0][0]))
        else:
            rep.ok('R1-unchanged-on-error', name, '%d error exit(s), %d mutation site(s), none precedes an error' % (len(errs), len(muts)), nontrivial=bool(errs))
    rep.floor('fallible-stack-methods', n, 9)


def check_bounds(fx, rep):
    lim = fx.const_val('revm_interpreter::interpreter::stack::STACK_LIMIT')
    if lim == 1024:
        rep.ok('R2-bounds', 'STACK_LIMIT', 1024)
    else:
        rep.violation('R2-bounds', 'STACK_LIMIT', 'STACK_LIMIT = %s, the specification says 1024' % lim)
    specs = [
        ('push', 'Vec::push', [['ne(1024,len(data))', 'gt(1024,len(data))']]),
        ('dup', 'copy_nonoverlapping', [['ge(len(data),n)'], ['ge(1024,AddWithOverflow(len(data),1).0)', 'gt(1024,len(data))']]),
        ('dup', 'Vec::set_len', [['ge(len(data),n)'], ['ge(1024,AddWithOverflow(len(data),1).0)', 'gt(1024,len(data))']]),
        ('exchange', 'swap_nonoverlapping', [['gt(len(data),AddWithOverflow(n,m).0)']]),
        ('push_slice', 'Vec::set_len', [['PREFIX:ge(1024,AddWithOverflow(len(data),']]),
    ]
    for name, callee, reqs in specs:
        f = fx.fns.get(S + name)
        if f is None:
            rep.undecided('R2-bounds', name, 'not found')
            continue
        og = Origins(f, fx)
        sites = [bi for bi, t in f.calls() if callee in (t.callee or '')]
        if not sites:
            rep.undecided('R2-bounds', '%s:%s' % (name, callee.split('::')[-1]), 'operation not found', f.where())
            continue
        for bi in sites:
            lits = lits_at(fx, f, og, bi)
            key = '%s:%s' % (name, callee.split('::')[-1])
            missing = []
            for alts in reqs:
                ok = False
                for a in alts:
                    if a.startswith('PREFIX:'):
                        ok = ok or any(l.startswith(a[7:]) for l in lits)
                    else:
                        ok = ok or a in lits
                if not ok:
                    missing.append(alts[0].replace('PREFIX:', ''))
            if missing:
                rep.violation('R2-bounds', key, 'Stack::%s performs %s without the dominating bounds test %s (guards found: %s)' % (name, callee, missing, sorted(lits)), f.where(bi))
            else:
                rep.ok('R2-bounds', key, sorted(lits))
    # push_slice word count: (len + 31) / 32
    f = fx.fns.get(S + 'push_slice')
    if f is not None:
        og = Origins(f, fx)
        ok = False
        for b in f.blocks:
            for s in b.stmts:
                if s.kind == 'assign' and s.rv.rv == 'bin' and s.rv.op == 'Div' and s.rv.ops[1].const_int() == 32:
                    for o in og.of_operand(s.rv.ops[0]):
                        r = o.root
                        if r[0] == 'bin' and r[1].startswith('Add') and any(x.root[0] == 'const' and x.root[1] == 31 for x in r[3]):
                            ok = True
        if ok:
            rep.ok('R2-bounds', 'push_slice:words', '(len + 31) / 32')
        else:
            rep.violation('R2-bounds', 'push_slice:words', 'push_slice does not compute the word count as (len + 31) / 32', f.where())
    # capacity
    f = fx.fns.get(S + 'new')
    if f is not None:
        og = Origins(f, fx)
        ok = False
        for bi, t in f.calls():
            if 'with_capacity' in (t.callee or ''):
                oo = og.of_operand(t.args[0])
                ok = all(o.root[0] == 'const' and o.root[1] == 1024 for o in oo)
        if ok:
            rep.ok('R2-bounds', 'new:capacity', 1024)
        else:
            rep.violation('R2-bounds', 'new:capacity', 'Stack::new does not reserve exactly STACK_LIMIT (1024) words', f.where())


def length_checks(fx, f, og):
    """switch blocks testing `stack.len() < K`: returns {block: (K (int or str), safe target)}"""
    out = {}
    for b in f.blocks:
        if b.cleanup or b.term.kind != 'switch':
            continue
        for o in og.of_operand(b.term.switch_discr()):
            r = o.root
            if r[0] != 'bin' or r[1] not in ('Lt', 'Ge', 'Gt', 'Le') or o.path:
                continue

            def is_len(xs):
                return xs and all(x.root[0] == 'call' and x.root[1] == S + 'len' for x in xs)

            def kval(xs):
                if len(xs) != 1:
                    return None
                x = xs[0]
                if x.root[0] == 'const':
                    if x.root[1] is not None:
                        return x.root[1]
                    return str(x.root[2]).split('::')[-1]
                return None
            a, c = r[2], r[3]
            arms = dict(b.term.d['arms'])
            if 0 not in arms:
                continue
            false_t, true_t = arms[0], b.term.d['otherwise']
            if r[1] == 'Lt' and is_len(a) and kval(c) is not None:
                out[b.i] = (kval(c), false_t, true_t)          # !(len < K)  => len >= K
            elif r[1] == 'Ge' and is_len(a) and kval(c) is not None:
                out[b.i] = (kval(c), true_t, false_t)
            elif r[1] == 'Gt' and is_len(c) and kval(a) is not None:
                out[b.i] = (kval(a), false_t, true_t)           # !(K > len)
            elif r[1] == 'Le' and is_len(c) and kval(a) is not None:
                out[b.i] = (kval(a), true_t, false_t)
    return out


def max_consumed(f, cfg, start, site, consume_at):
    """maximum number of items popped on a path from block `start` to `site` (exclusive); None if a
    cycle lies between them"""
    memo = {}
    onstack = set()

    def go(b):
        if b == site:
            return 0
        if b in memo:
            return memo[b]
        if b in onstack:
            raise RuntimeError('loop')
        onstack.add(b)
        best = None
        for s in cfg.succ[b]:
            if not cfg.reachable(s, site) and s != site:
                continue
            v = go(s)
            if v is not None:
                best = v if best is None else max(best, v)
        onstack.discard(b)
        if best is not None:
            best += consume_at.get(b, 0)
        memo[b] = best
        return best
    try:
        return go(start)
    except RuntimeError:
        return None


def check_unsafe_pops(ctx, rep):
    cfgs = ['default'] if ctx.tier == 'quick' else ['default', 'optimism']
    n = 0
    seen = set()
    for cfgn in cfgs:
        fx = ctx.facts(cfgn)
        names = [S + k for k in NEED]
        for f in fx.callers_of(*names):
            if not f.crate or f.crate.endswith('-test') or f.unsafe:
                continue
            if f.nq in seen:
                continue
            seen.add(f.nq)
            rep.fn(f)
            cfg = cfg_of(f)
            og = Origins(f, fx)
            checks = length_checks(fx, f, og)
            consume_at = {}
            sites = []
            for bi, t in f.calls():
                tf = t.target_fn or ''
                if tf.startswith(S) and tf[len(S):] in NEED:
                    consume_at[bi] = CONSUME[tf[len(S):]]
                    sites.append((bi, tf[len(S):]))
            under = blocks_setting_result(f, 'StackUnderflow')
            for bi, nm in sites:
                n += 1
                key = '%s:%s@%d' % (f.nq.split('::')[-1], nm, sum(1 for b2, n2 in sites if b2 < bi))
                covered = False
                why = 'no dominating length check'
                for cb, (K, safe_t, fail_t) in checks.items():
                    # every path to the site takes the safe edge of this check
                    if cfg.reachable(0, bi, banned_edges={(cb, safe_t)}):
                        continue
                    # the failing edge reports underflow
                    if under and not any(u == fail_t or u in cfg.reach_set(fail_t, banned_blocks={safe_t}) for u in under):
                        why = 'length check does not report StackUnderflow'
                        continue
                    used = max_consumed(f, cfg, safe_t, bi, consume_at)
                    in_cycle = any(cfg.reachable(s, bi) for s in cfg.succ[bi])
                    if used is None or in_cycle:
                        # loop idiom: guard constant is the const generic that also bounds the loop
                        if isinstance(K, str) and loop_bound_is(f, og, K) and CONSUME[nm] == 1:
                            covered = True
                            why = 'loop idiom: len >= %s, one pop per iteration of 0..%s' % (K, K)
                        else:
                            why = 'a loop lies between the check and the pop'
                        continue
                    if isinstance(K, int) and K >= used + NEED[nm]:
                        covered = True
                        why = 'len >= %d covers %d consumed + %d needed' % (K, used, NEED[nm])
                        break
                    why = 'check len >= %s does not cover %d already consumed + %d needed' % (K, used, NEED[nm])
                if covered:
                    rep.ok('R3-unsafe-pop-guard', key, why)
                else:
                    rep.violation('R3-unsafe-pop-guard', key, '%s calls Stack::%s without a sufficient length check: %s' % (f.nq, nm, why), f.where(bi))
    rep.floor('unsafe-stack-call-sites', n, 74)   # 93 call sites in the crate minus the 19 inside Stack's own unsafe fns


def loop_bound_is(f, og, K):
    """some Range { start: 0, end: K } is iterated in f"""
    for b in f.blocks:
        for s in b.stmts:
            if s.kind == 'assign' and s.rv.rv == 'agg' and s.rv.d.get('adt', '').endswith('range::Range'):
                names = s.rv.d['names']
                end = og.of_operand(s.rv.ops[names.index('end')])
                if all(o.root[0] == 'const' and str(o.root[2]).split('::')[-1] == K for o in end):
                    return True
    return False


def check_immediate_arithmetic(fx, rep):
    """R5: the EOF stack instructions decode their operand from one immediate byte.  Arithmetic on
    that byte is done in a width it cannot overflow: for every u8 addition in dupn / swapn / exchange
    the largest possible left operand (255 for the raw byte, reduced by `>> k` and `& mask`) plus the
    constant stays within u8.  (`imm + 1` in u8 overflows for 0xFF: DUPN 255 would panic or wrap to
    dup(0) instead of duplicating the 256th word / reporting underflow.)"""
    from cfg import Origins
    n = 0
    for nm in ('dupn', 'swapn', 'exchange'):
        f = fx.fns.get('revm_interpreter::instructions::stack::' + nm)
        if f is None:
            rep.undecided('R5-immediate-arithmetic', nm, 'not found')
            continue
        rep.fn(f)
        og = Origins(f, fx)

        def umax(oo, depth=0):
            best = 0
            for o in oo:
                r = o.root
                if r[0] == 'const' and r[1] is not None:
                    best = max(best, int(r[1]))
                elif r[0] == 'bin' and depth < 6 and len(r) > 3:
                    a, b = umax(list(r[2]), depth + 1), umax(list(r[3]), depth + 1)
                    op = r[1].replace('WithOverflow', '')
                    if op == 'Shr':
                        best = max(best, a >> min(b, 8))
                    elif op == 'BitAnd':
                        best = max(best, min(a, b))
                    elif op == 'Add':
                        best = max(best, a + b)
                    else:
                        best = max(best, 255)
                else:
                    best = max(best, 255)
            return best
        bad = None
        for b in f.blocks:
            if b.cleanup:
                continue
            for s_ in b.stmts:
                if s_.kind != 'assign' or s_.rv is None or s_.rv.rv != 'bin' or len(s_.rv.ops or []) != 2:
                    continue
                op = (s_.rv.d.get('op') or '')
                a, c_ = s_.rv.ops
                if not op.startswith(('Add', 'Mul', 'Sub')) or a.place is None or (f.local_ty(a.place.b) or '') != 'u8':
                    continue
                n += 1
                hi = umax(og.of_operand(a)) + umax(og.of_operand(c_)) if op.startswith('Add') else 256
                if hi > 255:
                    bad = '`%s` is computed in u8 with a left operand that can be %d' % (s_.render()[:50], umax(og.of_operand(a)))
        if bad:
            rep.violation('R5-immediate-arithmetic', nm, '%s: %s - the immediate 0xFF overflows the byte' % (nm, bad), f.where())
        else:
            rep.ok('R5-immediate-arithmetic', nm, 'no u8 arithmetic that can overflow')
    rep.floor('R5-u8-arithmetic-sites', n, 2)
