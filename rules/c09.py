"""C09 — gas used and fees paid follow the transaction gas rules (structural clauses).

R1 result-class tables: at every site that partitions InstructionResult (last_frame_return,
   call_return, create_return, insert_*_outcome, is_ok/is_revert/is_error, SuccessOrHalt::from)
   the ok / revert / other partition equals the reference and the sites agree with each other;
R2 last_frame_return: the gas is reset to new_spent(tx.gas_limit); ok => erase remaining + record
   refund, revert => erase remaining only, other => nothing (a halt uses the whole limit; refund is
   zero on revert/halt);
R3 Gas::set_final_refund table and its caller's LONDON gate (shared with C13);
R4 EIP-7623 floor in transact_preverified_inner: `spent_sub_refunded() < floor_gas` => set_spent(floor)
   and set_refund(0), after the refund handler and before reimbursement / reward;
R5 output: gas_used = spent - refunded in every ExecutionResult variant;
R6 payments: reimbursement = effective_gas_price * (remaining + refunded); reward =
   (effective_gas_price - basefee from LONDON | effective_gas_price) * (spent - refunded).
"""
from cfg import cfg_of, Origins, guards_of
from tables import match_table
import c13

META = {
    'level': 'other',
    'decides': 'the ok/revert/other partition of InstructionResult at every classification site, the gas hand-back table of the last frame, the refund cap and its fork gate, the calldata-floor branch, and the expression shape of gas_used, the reimbursement and the beneficiary reward',
    'does_not_decide': 'intrinsic <= used <= limit as an arithmetic fact over executions; the value of effective_gas_price',
    'explanation': 'Table extraction (switch on the InstructionResult discriminant) against a reference partition, per-class effect sets on the CFG, guard extraction for the EIP-7623 branch, and expression reconstruction (A9) by value-origin trees for the payment formulas.',
}

IR = 'revm_interpreter::instruction_result::InstructionResult'
G = 'revm_interpreter::gas::Gas::'
OK_REF = {'Continue', 'Stop', 'Return', 'SelfDestruct', 'ReturnContract'}
REVERT_REF = {'Revert', 'CallTooDeep', 'OutOfFunds', 'CreateInitCodeStartingEF00', 'InvalidEOFInitCode', 'InvalidExtDelegateCallTarget'}
SITE_EXCEPTIONS = {
    # EOF creation succeeds only by RETURNCONTRACT
    'insert_eofcreate_outcome': {'ok': {'ReturnContract'}},
}


def partition_sites(fx):
    adt = fx.adts[IR]
    byd = {v.get('discr', i): v['name'] for i, v in enumerate(adt['variants'])}
    allv = set(byd.values())
    out = []
    for f in fx.fns_all:
        if not f.crate or f.crate.endswith('-test') or not f.crate.startswith(('revm:', 'revm_interpreter:')):
            continue
        if f.impl_trait and f.impl_trait.startswith('core::fmt'):
            continue
        raw_has = any(b['term'].get('t') == 'switch' for b in f._blocks_raw)
        if not raw_has:
            continue
        txt = None
        for b in f._blocks_raw:
            if b['term'].get('t') != 'switch':
                continue
            if not any(s.get('r', {}).get('rv') == 'discr' and s['r'].get('adt', '').endswith('InstructionResult') for s in b['st']):
                continue
            groups = {}
            for v, tg in b['term']['arms']:
                groups.setdefault(tg, set()).add(byd.get(v, str(v)))
            listed = set().union(*groups.values()) if groups else set()
            rest = allv - listed
            out.append((f, b, groups, rest, b['term']['otherwise']))
    return out, allv


def run(ctx, rep):
    fx = ctx.facts('default')
    if IR not in fx.adts:
        rep.undecided('R1-class-tables', 'InstructionResult', 'ADT not found')
        return
    sites, allv = partition_sites(fx)
    n = 0
    for f, b, groups, rest, other in sites:
        name = f.nq.split('::')[-1]
        if f.impl_trait and 'From' in f.impl_trait:
            continue   # SuccessOrHalt::from handled as a table below
        if name in ('is_ok', 'is_revert', 'is_error'):
            continue   # boolean tables, compared as sets below
        rep.fn(f)
        exc = SITE_EXCEPTIONS.get(name, {})
        want_ok = exc.get('ok', OK_REF)
        where = '%s:%s' % (f.file, b['term'].get('ln'))
        # explicit arms (targets other than the default) and the default bucket
        explicit = [g for tg, g in groups.items() if tg != other]
        default = set(rest)
        for tg, g in groups.items():
            if tg == other:
                default |= g
        has_ok_arm = False
        has_rev_arm = False
        for cls in explicit:
            if cls & OK_REF:
                n += 1
                has_ok_arm = True
                key = '%s:ok-class' % name
                if cls == want_ok:
                    rep.ok('R1-class-tables', key, sorted(cls))
                else:
                    rep.violation('R1-class-tables', key, '%s treats %s as success-class (extra %s, missing %s)' % (name, sorted(cls), sorted(cls - want_ok), sorted(want_ok - cls)), where)
            elif cls & REVERT_REF:
                n += 1
                has_rev_arm = True
                key = '%s:revert-class' % name
                if cls == REVERT_REF:
                    rep.ok('R1-class-tables', key, sorted(cls))
                else:
                    rep.violation('R1-class-tables', key, '%s treats %s as revert-class (extra %s, missing %s)' % (name, sorted(cls), sorted(cls - REVERT_REF), sorted(REVERT_REF - cls)), where)
        if has_ok_arm and (default & want_ok):
            rep.violation('R1-class-tables', '%s:ok-class:default' % name, '%s: success-class results %s fall into the default (failure) bucket' % (name, sorted(default & want_ok)), where)
        if has_rev_arm and (default & REVERT_REF):
            rep.violation('R1-class-tables', '%s:revert-class:default' % name, '%s: revert-class results %s fall into the error bucket (their remaining gas would be consumed)' % (name, sorted(default & REVERT_REF)), where)
    rep.floor('class-partition-arms', n, 10)
    # the three boolean predicates
    from c21 import enum_predicate as _ep
    for pname, want in (('is_ok', OK_REF), ('is_revert', REVERT_REF)):
        pf = fx.fns.get(IR + '::' + pname)
        if pf is None:
            rep.undecided('R1-class-tables', pname, 'not found')
            continue
        rep.fn(pf)
        tb = _ep(fx, pf, IR)
        if tb is None:
            rep.undecided('R1-class-tables', pname, 'not a table', pf.where())
            continue
        got = {k for k, v in tb.items() if v}
        if got == want:
            rep.ok('R1-class-tables', pname, sorted(got))
        else:
            rep.violation('R1-class-tables', pname, 'InstructionResult::%s is true for %s (extra %s, missing %s)' % (pname, sorted(got), sorted(got - want), sorted(want - got)), pf.where())
    # is_error is exactly the complement
    fe = fx.fns.get(IR + '::is_error')
    if fe is not None:
        from c21 import enum_predicate
        tb = enum_predicate(fx, fe, IR)
        if tb is None:
            rep.undecided('R1-class-tables', 'is_error', 'not a table', fe.where())
        else:
            err = {k for k, v in tb.items() if v}
            want = allv - OK_REF - REVERT_REF - {'CallOrCreate'}
            if err == want:
                rep.ok('R1-class-tables', 'is_error:complement', '%d variants' % len(err))
            else:
                rep.violation('R1-class-tables', 'is_error:complement', 'is_error differs from the complement of ok+revert: extra %s missing %s' % (sorted(err - want), sorted(want - err)), fe.where())
    check_success_or_halt(fx, rep, allv)
    check_last_frame_return(fx, rep)
    c13.check_final_refund(fx, rep)
    check_cap_is_last(ctx, rep)
    check_floor(fx, rep)
    check_output(fx, rep)
    check_payments(fx, rep)
    # the amount deducted up front (gas_limit * price + blob fee at the *current* blob price): C08 R4
    import engine
    import c08
    c08.check_deduction(fx, engine.SubReport(rep, 'C08'))
    rep.assume('new InstructionResult variants default to the error class (all gas consumed) unless listed in the reference')


def check_cap_is_last(ctx, rep):
    """R3b: the refund cap covers every refund source.  In the refund handlers (mainnet and, in the
    thorough tier, optimism) every record_refund precedes set_final_refund on every path, and
    set_final_refund is applied at most once; the transaction driver calls the refund handler after
    the last frame returned and adds nothing to the counter afterwards (the EIP-7623 floor only
    clears it)."""
    from symx import Symx, Budget
    cfgs = [('default', 'revm::handler::mainnet::post_execution::refund')]
    if ctx.tier == 'thorough':
        cfgs.append(('optimism', 'revm::optimism::handler_register::refund'))
    for cfgn, fq in cfgs:
        fx = ctx.facts(cfgn)
        f = fx.fns.get(fq)
        key = fq.split('::')[-3] + '::refund'
        if f is None:
            rep.undecided('R3-refund-cap', key + ':cap-last', 'refund handler not found')
            continue
        rep.fn(f)
        try:
            rs = Symx(fx, max_paths=2000, snapshot_refs=True).run(f)
        except Budget:
            rep.undecided('R3-refund-cap', key + ':cap-last', 'path budget', f.where())
            continue
        bad = None
        capped = 0
        for r in rs:
            names = [e[0].split('::')[-1] for e in r.events if e[0].startswith('revm_interpreter::gas::Gas::')]
            caps = [i for i, n_ in enumerate(names) if n_ == 'set_final_refund']
            adds = [i for i, n_ in enumerate(names) if n_ in ('record_refund', 'set_refund')]
            if len(caps) > 1:
                bad = 'the cap is applied %d times on a path' % len(caps)
            if caps:
                capped += 1
                if any(i > caps[0] for i in adds):
                    bad = 'a refund is recorded after set_final_refund: it escapes the cap of spent/5 (spent/2 before London)'
        if bad or not capped:
            rep.violation('R3-refund-cap', key + ':cap-last', '%s: %s' % (fq.split('::')[-1], bad or 'no path applies set_final_refund'), f.where())
        else:
            rep.ok('R3-refund-cap', key + ':cap-last', 'every refund source precedes the cap')
    # the driver: nothing records a refund after the refund handler ran
    fx = ctx.facts('default')
    f = fx.fns.get('revm::evm::Evm::transact_preverified_inner')
    if f is None:
        rep.undecided('R3-refund-cap', 'driver:cap-last', 'transact_preverified_inner not found')
        return
    rep.fn(f)
    cfg = cfg_of(f)
    refund_calls = [bi for bi, t in f.calls() if (t.target_fn or '').endswith('PostExecutionHandler::refund')]
    later = []
    for bi, t in f.calls():
        if (t.target_fn or '').endswith(('Gas::record_refund',)) and any(cfg.reachable(rc, bi) for rc in refund_calls):
            later.append(bi)
    if len(refund_calls) != 1:
        rep.violation('R3-refund-cap', 'driver:cap-last', 'the refund handler is called %d times in transact_preverified_inner' % len(refund_calls), f.where())
    elif later:
        rep.violation('R3-refund-cap', 'driver:cap-last', 'a refund is recorded after the refund handler capped it', f.where(later[0]))
    else:
        rep.ok('R3-refund-cap', 'driver:cap-last', 'refund handler once, nothing recorded afterwards')


def check_success_or_halt(fx, rep, allv):
    f = None
    for g in fx.fns_all:
        if g.impl_trait == 'core::convert::From' and g.impl_self and g.impl_self.endswith('SuccessOrHalt') and g.name == 'from':
            f = g
    if f is None:
        rep.undecided('R1-class-tables', 'SuccessOrHalt::from', 'not found')
        return
    rep.fn(f)
    tb = match_table(fx, f, IR)
    bad = []
    for v in sorted(allv):
        sv = tb.get(v)
        kind = sv[2] if sv is not None and sv[0] == 'agg' else None
        if v in OK_REF - {'Continue'}:
            if kind != 'Success':
                bad.append((v, kind, 'Success'))
        elif v == 'Revert':
            if kind != 'Revert':
                bad.append((v, kind, 'Revert'))
        elif v in ('Continue', 'CallOrCreate'):
            if kind not in ('Internal',):
                bad.append((v, kind, 'Internal'))
        elif v == 'FatalExternalError':
            if kind != 'FatalExternalError':
                bad.append((v, kind, 'FatalExternalError'))
        elif v in REVERT_REF:
            # revert-class results surface either as Revert or as a Halt reason
            if kind not in ('Revert', 'Halt', 'Internal'):
                bad.append((v, kind, 'Revert/Halt'))
        else:
            if kind in ('Success', 'Revert') or kind is None:
                bad.append((v, kind, 'Halt/Internal'))
    if bad:
        for v, got, want in bad:
            rep.violation('R1-class-tables', 'SuccessOrHalt::from:%s' % v, 'InstructionResult::%s converts to %s, expected %s' % (v, got, want), f.where())
    else:
        rep.ok('R1-class-tables', 'SuccessOrHalt::from', '%d variants' % len(allv))


def check_last_frame_return(fx, rep):
    f = fx.fns.get('revm::handler::mainnet::execution::last_frame_return')
    if f is None:
        rep.undecided('R2-last-frame', 'last_frame_return', 'not found')
        return
    rep.fn(f)
    cfg = cfg_of(f)
    og = Origins(f, fx)
    adt = fx.adts[IR]
    byd = {v.get('discr', i): v['name'] for i, v in enumerate(adt['variants'])}
    sw = None
    for b in f.blocks:
        if b.term.kind == 'switch' and any(s.kind == 'assign' and s.rv.rv == 'discr' and s.rv.d.get('adt', '').endswith('InstructionResult') for s in b.stmts):
            sw = b
    if sw is None:
        rep.undecided('R2-last-frame', 'switch', 'no match on the instruction result', f.where())
        return
    groups = {}
    for v, tg in sw.term.d['arms']:
        groups.setdefault(tg, set()).add(byd.get(v))
    targets = {}
    for tg, vs in groups.items():
        if 'Stop' in vs:
            targets['ok'] = tg
        elif 'Revert' in vs:
            targets['revert'] = tg
    targets['other'] = sw.term.d['otherwise']
    want = {'ok': {'erase_cost', 'record_refund'}, 'revert': {'erase_cost'}, 'other': set()}
    for cls, tg in targets.items():
        others = [t for c, t in targets.items() if c != cls]
        r = cfg.reach_set(tg, banned_blocks=set(others))
        calls = set()
        for x in r:
            t = f.blocks[x].term
            if t.kind == 'call' and (t.target_fn or '').startswith(G):
                calls.add(t.target_fn[len(G):])
                # argument origins
                if t.target_fn.endswith('erase_cost'):
                    oo = og.of_operand(t.args[1])
                    if not all(o.path[-1:] == ('.remaining',) for o in oo):
                        rep.violation('R2-last-frame', '%s:erase-arg' % cls, 'erase_cost is given %s, not the frame\'s remaining gas' % [o.render() for o in oo], f.where(x))
                if t.target_fn.endswith('record_refund'):
                    oo = og.of_operand(t.args[1])
                    if not all(o.path[-1:] == ('.refunded',) for o in oo):
                        rep.violation('R2-last-frame', '%s:refund-arg' % cls, 'record_refund is given %s, not the frame\'s refund counter' % [o.render() for o in oo], f.where(x))
        if calls == want[cls]:
            rep.ok('R2-last-frame', cls, sorted(calls) or 'nothing handed back')
        else:
            rep.violation('R2-last-frame', cls, 'for %s-class results the last frame performs %s, expected %s' % (cls, sorted(calls), sorted(want[cls])), f.where(tg))
    for k in ('ok', 'revert'):
        if k not in targets:
            rep.violation('R2-last-frame', k + ':missing', 'no arm for the %s class' % k, f.where(sw.i))
    # reset to new_spent(tx.gas_limit) before the match
    ns = [(bi, t) for bi, t in f.calls() if t.target_fn == G + 'new_spent']
    good = False
    for bi, t in ns:
        oo = og.of_operand(t.args[0])
        if all(o.root == ('param', 1) and o.path[-2:] == ('.tx', '.gas_limit') for o in oo) and cfg.dominates(bi, sw.i):
            good = True
    if good:
        rep.ok('R2-last-frame', 'reset', '*gas = Gas::new_spent(tx.gas_limit) dominates the match')
    else:
        rep.violation('R2-last-frame', 'reset', 'the gas of the last frame is not reset to new_spent(tx.gas_limit) before classification', f.where())


def check_floor(fx, rep):
    f = fx.fns.get('revm::evm::Evm::transact_preverified_inner')
    if f is None:
        rep.undecided('R4-floor', 'transact_preverified_inner', 'not found')
        return
    rep.fn(f)
    cfg = cfg_of(f)
    og = Origins(f, fx)
    found = None
    for b in f.blocks:
        if b.cleanup or b.term.kind != 'switch':
            continue
        for o in og.of_operand(b.term.switch_discr()):
            r = o.root
            if r[0] == 'bin' and r[1] in ('Lt', 'Le', 'Gt', 'Ge'):
                a, c = r[2], r[3]
                a_ssr = all(x.root[0] == 'call' and x.root[1] == G + 'spent_sub_refunded' for x in a)
                c_floor = all(x.root == ('param', 2) and x.path == ('.floor_gas',) for x in c)
                a_floor = all(x.root == ('param', 2) and x.path == ('.floor_gas',) for x in a)
                c_ssr = all(x.root[0] == 'call' and x.root[1] == G + 'spent_sub_refunded' for x in c)
                if a_ssr and c_floor:
                    found = (b, r[1])
                elif a_floor and c_ssr:
                    found = (b, {'Gt': 'Lt', 'Ge': 'Le', 'Lt': 'Gt', 'Le': 'Ge'}[r[1]])
    if found is None:
        rep.violation('R4-floor', 'comparison', 'no comparison of spent_sub_refunded() with floor_gas in transact_preverified_inner (EIP-7623)', f.where())
        return
    b, op = found
    if op != 'Lt':
        rep.violation('R4-floor', 'comparison:op', 'the calldata floor is applied when spent_sub_refunded %s floor_gas, expected `<`' % op, f.where(b.i))
    else:
        rep.ok('R4-floor', 'comparison', 'spent_sub_refunded() < floor_gas')
    arms = dict(b.term.d['arms'])
    true_t = b.term.d['otherwise']
    false_t = arms.get(0)
    region = cfg.reach_set(true_t, banned_blocks={false_t}) if false_t is not None else set()
    got = {}
    for x in region:
        t = f.blocks[x].term
        if t.kind == 'call' and (t.target_fn or '') in (G + 'set_spent', G + 'set_refund'):
            got[t.target_fn[len(G):]] = og.of_operand(t.args[1])
        if x == false_t:
            break
    # restrict to the calls strictly inside the branch (before the join)
    join_reach = cfg.reach_set(false_t) if false_t is not None else set()
    inside = [x for x in region if x not in join_reach]
    got = {}
    for x in inside:
        t = f.blocks[x].term
        if t.kind == 'call' and (t.target_fn or '') in (G + 'set_spent', G + 'set_refund'):
            got[t.target_fn[len(G):]] = og.of_operand(t.args[1])
    ok1 = 'set_spent' in got and all(o.root == ('param', 2) and o.path == ('.floor_gas',) for o in got['set_spent'])
    ok2 = 'set_refund' in got and all(o.root[0] == 'const' and o.root[1] == 0 for o in got['set_refund'])
    if ok1 and ok2:
        rep.ok('R4-floor', 'effect', 'set_spent(floor_gas); set_refund(0)')
    else:
        rep.violation('R4-floor', 'effect', 'the floor branch performs %s, expected set_spent(floor_gas) and set_refund(0)' % {k: [o.render() for o in v] for k, v in got.items()}, f.where(true_t))
    # ordering: after post_execution.refund, before reimburse_caller / reward_beneficiary
    PE = 'revm::handler::handle_types::post_execution::PostExecutionHandler::'
    pos = {}
    for bi, t in f.calls():
        tf = t.target_fn or ''
        if tf.startswith(PE):
            pos[tf[len(PE):]] = bi
    good = 'refund' in pos and cfg.dominates(pos['refund'], b.i)
    for later in ('reimburse_caller', 'reward_beneficiary', 'output'):
        if later not in pos or not cfg.dominates(b.i, pos[later]):
            good = False
    if good:
        rep.ok('R4-floor', 'order', 'refund -> floor -> reimburse_caller -> reward_beneficiary -> output')
    else:
        rep.violation('R4-floor', 'order', 'the floor adjustment is not between the refund handler and the payments (%s)' % pos, f.where(b.i))


def _is_spent_minus_refunded(o):
    """origin tree for spent - refunded(as u64)"""
    r = o.root
    if r[0] != 'bin' or r[1] not in ('Sub', 'SubWithOverflow'):
        return False
    if r[1] == 'SubWithOverflow' and o.path != ('.0',):
        return False
    a, b = r[2], r[3]
    a_ok = all(x.root[0] == 'call' and x.root[1] == G + 'spent' for x in a)
    b_ok = all(_is_refunded_u64(x) for x in b)
    return a_ok and b_ok


def _is_refunded_u64(x):
    if x.root[0] == 'cast':
        return all(y.path[-1:] == ('.refunded',) for y in x.root[2])
    return False


def check_output(fx, rep):
    f = fx.fns.get('revm::handler::mainnet::post_execution::output')
    if f is None:
        rep.undecided('R5-output', 'output', 'not found')
        return
    rep.fn(f)
    og = Origins(f, fx)
    n = 0
    for b in f.blocks:
        if b.cleanup:
            continue
        for s in b.stmts:
            if s.kind == 'assign' and s.rv.rv == 'agg' and s.rv.d.get('adt', '').endswith('result::ExecutionResult'):
                names = s.rv.d['names']
                v = s.rv.d['variant']
                n += 1
                oo = og.of_operand(s.rv.ops[names.index('gas_used')])
                if all(_is_spent_minus_refunded(o) for o in oo):
                    rep.ok('R5-output', '%s.gas_used' % v, 'spent - refunded')
                else:
                    rep.violation('R5-output', '%s.gas_used' % v, 'ExecutionResult::%s.gas_used is %s, expected spent - refunded' % (v, [o.render() for o in oo]), f.where(b.i))
                if 'gas_refunded' in names:
                    ro = og.of_operand(s.rv.ops[names.index('gas_refunded')])
                    if all(_is_refunded_u64(o) for o in ro):
                        rep.ok('R5-output', '%s.gas_refunded' % v, 'refunded')
                    else:
                        rep.violation('R5-output', '%s.gas_refunded' % v, 'gas_refunded is %s' % [o.render() for o in ro], f.where(b.i))
    rep.floor('ExecutionResult-constructions', n, 3)


def _mul_operands(f, og, o):
    """o is the origin of a call to Mul::mul; return (lhs origins, rhs origins)"""
    if o.root[0] != 'call' or not o.root[1].endswith('Mul::mul'):
        return None
    t = f.blocks[o.root[2]].term
    return og.of_operand(t.args[0]), og.of_operand(t.args[1])


def check_payments(fx, rep):
    """the two balance credits as extracted expressions, evaluated on a value grid (robust to
    helper extraction and algebraic rewrites; private helpers are followed by symx)"""
    import itertools
    import c23
    from symx import Symx, Budget, render, lit_truth
    PEX = 'revm::handler::mainnet::post_execution::'
    grid = list(itertools.product((0, 1, 7, 10 ** 9), (0, 3, 10 ** 9 + 5), (0, 21000, 79000), (0, 1, 4800), (0, 5, 10 ** 18)))

    def credits(name):
        f = fx.fns.get(PEX + name)
        if f is None:
            rep.undecided('R6-payments', name, 'not found')
            return None, []
        rep.fn(f)
        try:
            rs = Symx(fx, max_paths=3000, snapshot_refs=True).run(f)
        except Budget:
            rep.undecided('R6-payments', name, 'path budget', f.where())
            return f, []
        out = []
        for r in rs:
            if r.ret[0] == 'agg' and r.ret[2] == 'Err':
                continue
            london = None
            for (sv, lit, _f, _b) in r.lits:
                if render(sv).startswith('enabled(SpecId::LONDON'):
                    london = lit_truth(lit)
            bal = [v for (root, path), v in r.stores.items() if path and path[-1] == '.balance']
            out.append((london, bal))
        return f, out

    def value(v, price, basefee, spent, refunded, bal, remaining):
        env = {'__sym__': lambda r_: bal if r_.endswith('.info.balance') else (basefee if r_.endswith('.block.basefee') else None),
               '__calls__': {'effective_gas_price': lambda sv, e: price, 'remaining': lambda sv, e: remaining,
                             'refunded': lambda sv, e: refunded, 'spent': lambda sv, e: spent}}
        return c23.ev(v, env)

    f, paths = credits('reimburse_caller')
    if f is not None:
        bad = None
        if not paths or any(len(b) != 1 for _l, b in paths):
            bad = 'the caller balance is not written exactly once'
        else:
            for price, basefee, spent, refunded, bal in grid:
                remaining = 100000 - spent
                for _l, b in paths:
                    try:
                        got = value(b[0], price, basefee, spent, refunded, bal, remaining)
                    except c23.NoValue as e:
                        bad = 'credit not evaluable (%s)' % e
                        break
                    want = bal + price * (remaining + refunded)
                    if got != want:
                        bad = 'with price %d, remaining %d, refunded %d and balance %d the caller ends with %d, expected %d' % (price, remaining, refunded, bal, got, want)
                        break
                if bad:
                    break
        if bad:
            rep.violation('R6-payments', 'reimburse_caller', 'reimbursement is not effective_gas_price * (remaining + refunded): %s' % bad, f.where())
        else:
            rep.ok('R6-payments', 'reimburse_caller', 'effective_gas_price * (remaining + refunded) on %d grid points' % len(grid))
    f, paths = credits('reward_beneficiary')
    if f is not None:
        bad = None
        if {l for l, _b in paths} != {True, False} or any(len(b) != 1 for _l, b in paths):
            bad = 'no London / pre-London pair of paths writing the beneficiary balance once'
        else:
            for price, basefee, spent, refunded, bal in grid:
                if refunded > spent:
                    continue
                for london, b in paths:
                    try:
                        got = value(b[0], price, basefee, spent, refunded, bal, 100000 - spent)
                    except c23.NoValue as e:
                        bad = 'credit not evaluable (%s)' % e
                        break
                    per_gas = max(price - basefee, 0) if london else price
                    want = bal + per_gas * (spent - refunded)
                    if got != want:
                        bad = '%s London with price %d, basefee %d, spent %d, refunded %d the beneficiary ends with %d, expected %d' % (
                            'from' if london else 'before', price, basefee, spent, refunded, got, want)
                        break
                if bad:
                    break
        if bad:
            rep.violation('R6-payments', 'reward_beneficiary', 'beneficiary reward formula differs: %s' % bad, f.where())
        else:
            rep.ok('R6-payments', 'reward_beneficiary', '(effective - basefee from LONDON, else effective) * (spent - refunded)')


def check_payments_origins(fx, rep):
    PEX = 'revm::handler::mainnet::post_execution::'
    EGP = 'revm_primitives::env::Env::effective_gas_price'
    # reimbursement
    f = fx.fns.get(PEX + 'reimburse_caller')
    if f is None:
        rep.undecided('R6-payments', 'reimburse_caller', 'not found')
    else:
        rep.fn(f)
        og = Origins(f, fx)
        good = False
        why = 'no saturating_add/checked_add credit found'
        for bi, t in f.calls():
            if (t.callee or '').endswith(('saturating_add', 'checked_add', 'Add::add')) and len(t.args) == 2:
                amt = og.of_operand(t.args[1])
                for o in amt:
                    mo = _mul_operands(f, og, o)
                    if mo is None:
                        why = 'credited amount is %s' % o.render()
                        continue
                    a, b = mo
                    price_ok = all(x.root[0] == 'call' and x.root[1] == EGP for x in a)
                    units_ok = True
                    for x in b:
                        r = x.root
                        if not (r[0] == 'bin' and r[1] in ('Add', 'AddWithOverflow')):
                            units_ok = False
                            continue
                        l, rr = r[2], r[3]
                        if not (all(y.path[-1:] == ('.remaining',) for y in l) and all(_is_refunded_u64(y) for y in rr)):
                            units_ok = False
                    if price_ok and units_ok:
                        good = True
                    else:
                        why = 'amount = %s * %s' % ([x.render() for x in a], [x.render() for x in b])
        if good:
            rep.ok('R6-payments', 'reimburse_caller', 'effective_gas_price * (remaining + refunded)')
        else:
            rep.violation('R6-payments', 'reimburse_caller', 'reimbursement is not effective_gas_price * (remaining + refunded): %s' % why, f.where())
    # reward
    f = fx.fns.get(PEX + 'reward_beneficiary')
    if f is None:
        rep.undecided('R6-payments', 'reward_beneficiary', 'not found')
        return
    rep.fn(f)
    og = Origins(f, fx)
    good = False
    why = 'no credit found'
    for bi, t in f.calls():
        if (t.callee or '').endswith(('saturating_add', 'checked_add', 'Add::add')) and len(t.args) == 2:
            for o in og.of_operand(t.args[1]):
                mo = _mul_operands(f, og, o)
                if mo is None:
                    continue
                a, b = mo
                kinds = set()
                for x in a:
                    if x.root[0] == 'call' and x.root[1] == EGP:
                        kinds.add('plain')
                    elif x.root[0] == 'call' and x.root[1].endswith('saturating_sub'):
                        tb = f.blocks[x.root[2]].term
                        l = og.of_operand(tb.args[0])
                        r = og.of_operand(tb.args[1])
                        if all(y.root[0] == 'call' and y.root[1] == EGP for y in l) and all(y.path[-2:] == ('.block', '.basefee') for y in r):
                            # guarded by SPEC::enabled(LONDON)
                            gs = guards_of(f, og, x.root[2])
                            lon = False
                            for g in gs:
                                for d in g.discr:
                                    if d.root[0] == 'call' and d.root[1].endswith('Spec::enabled') and g.truth() is True:
                                        ta = f.blocks[d.root[2]].term
                                        ao = og.of_operand(ta.args[0])
                                        if all(('LONDON' in str(z.root[2])) or (z.root[0] == 'agg' and z.root[2] == 'LONDON') for z in ao):
                                            lon = True
                            kinds.add('minus-basefee-london' if lon else 'minus-basefee-ungated')
                        else:
                            kinds.add('other-sub')
                    else:
                        kinds.add('other')
                units_ok = all(_is_spent_minus_refunded(x) for x in b)
                if kinds == {'plain', 'minus-basefee-london'} and units_ok:
                    good = True
                else:
                    why = 'price kinds %s, units %s' % (sorted(kinds), [x.render() for x in b])
    if good:
        rep.ok('R6-payments', 'reward_beneficiary', '(effective - basefee if LONDON else effective) * (spent - refunded)')
    else:
        rep.violation('R6-payments', 'reward_beneficiary', 'beneficiary reward formula differs: %s' % why, f.where())
