"""C07 — every frame returns with the journal depth it started from; depth limit 1024.

Decides (all CFG paths, not executions):
  R1 pairing in the three frame constructors and create_account_checkpoint (typestate),
  R2 exactly-once close in call_return / create_return / eofcreate_return,
  R3 depth guard: `depth() > 1024` dominates every checkpoint-opening call in the constructors,
  R4 who writes `JournaledState.depth`: only checkpoint(+1) / commit(-1) / revert(-1) / new,finalize(0),
  R5 frame loop wiring: run_the_loop hands each popped frame's own checkpoint to its *_return.
"""
from cfg import cfg_of, Origins
from typestate import TS, FROM_RESIDUAL

META = {
    'level': 'proof',
    'decides': 'checkpoint pairing on every CFG path of the frame constructors and return handlers; the depth comparison and its constant; the writers of the depth field',
    'does_not_decide': 'that depth is observed only through these comparisons; behaviour of user-replaced handlers',
    'explanation': 'Typestate (open/closed) dataflow over MIR CFGs with Result-variant-sensitive summaries that are themselves verified; exit classes by value origin of the returned FrameOrResult; dominance of the depth guard.',
}

JS = 'revm::journaled_state::JournaledState::'
CHECKPOINT = JS + 'checkpoint'
COMMIT = JS + 'checkpoint_commit'
REVERT = JS + 'checkpoint_revert'
CAC = JS + 'create_account_checkpoint'
FOR = 'revm::frame::FrameOrResult::'


def events(bi, t):
    n = t.target_fn
    if n == CHECKPOINT:
        return ('open',)
    if n in (COMMIT, REVERT):
        return ('close',)
    if n == CAC:
        return ('open_if', 'Ok')
    return None


def closure_ret_classes(facts, closure_nq):
    """classes of values a local closure can return"""
    f = facts.fns.get(closure_nq)
    if f is None:
        return None
    og = Origins(f, facts)
    out = set()
    for o in og.of_local(0, 12):
        c = class_of_origin(facts, f, og, o)
        out.add(c[0] if c else None)
    return out


def class_of_origin(facts, fn, og, o):
    r = o.root
    if r[0] == 'call':
        name = r[1]
        if name.startswith(FOR):
            m = name[len(FOR):]
            if m.endswith('_frame'):
                return ('Frame', m)
            if m.endswith('_result'):
                return ('Result', m)
        if name == FROM_RESIDUAL:
            return ('Err', 'propagated')
        t = fn.blocks[r[2]].term
        # call of a local closure through Fn::call
        if t.res and '{closure#' in t.res:
            cl = closure_ret_classes(facts, t.res)
            if cl and len(cl) == 1 and None not in cl:
                tag = 'dynamic'
                # the InstructionResult constant handed to the closure, for the key
                if len(t.args) >= 2:
                    for ao in og.of_operand(t.args[1]):
                        v = find_variant(ao)
                        if v:
                            tag = v
                return (list(cl)[0], tag)
        return None
    if r[0] == 'agg':
        head, variant = r[1], r[2]
        if head.endswith('result::Result') and variant == 'Err':
            return ('Err', 'constructed')
        if head.endswith('result::Result') and variant == 'Ok':
            subs = r[4][0] if r[4] else ()
            cs = {class_of_origin(facts, fn, og, s) for s in subs}
            if len(cs) == 1:
                return list(cs)[0]
    return None


def find_variant(o):
    """InstructionResult variant inside a (possibly nested) aggregate origin"""
    r = o.root
    if r[0] == 'agg':
        if r[1].endswith('InstructionResult') and r[2]:
            return r[2]
        for subs in r[4]:
            for s in subs:
                v = find_variant(s)
                if v:
                    return v
    return None


def make_classifier(facts):
    def classify(fn, og, bi, si, term):
        if term is not None:
            o = og._of_call(term, bi, 10)
        else:
            o = og._of_rvalue(fn.blocks[bi].stmts[si].rv, bi, si, 10)
        cs = [class_of_origin(facts, fn, og, x) for x in o]
        cs = [c for c in cs if c]
        if len(cs) == 1:
            return cs[0]
        return ('Unknown', 'unclassified')
    return classify


def run(ctx, rep):
    fx = ctx.facts('default')
    classify = make_classifier(fx)
    n_open_sites = 0
    n_close_sites = 0

    ctors = ['revm::context::evm_context::EvmContext::make_call_frame',
             'revm::context::evm_context::EvmContext::make_create_frame',
             'revm::context::evm_context::EvmContext::make_eofcreate_frame']
    for nq in ctors:
        fn = fx.fns.get(nq)
        if fn is None:
            rep.undecided('R1-pairing', nq.split('::')[-1], 'anchor function %s not found' % nq)
            continue
        rep.fn(fn)
        short = fn.name
        ts = TS(fn, fx, events, classify)
        exits = ts.run('none')
        opens = [bi for bi, t in fn.calls() if t.target_fn in (CHECKPOINT, CAC)]
        closes = [bi for bi, t in fn.calls() if t.target_fn in (COMMIT, REVERT)]
        n_open_sites += len(opens)
        n_close_sites += len(closes)
        if not opens:
            rep.undecided('R1-pairing', short, 'no checkpoint-opening call found in %s' % short, fn.where())
        seen = set()
        for r, (st, cls, tag) in exits:
            k = (str(st), cls, tag)
            if k in seen:
                continue
            seen.add(k)
            key = '%s:exit=%s(%s):checkpoint=%s' % (short, cls, tag, st if isinstance(st, str) else 'pending')
            if cls == 'Frame':
                if st == 'open':
                    rep.ok('R1-pairing', key)
                else:
                    rep.violation('R1-pairing', key, '%s returns a frame while its checkpoint is %s' % (short, st), fn.where(r))
            elif cls == 'Result':
                if st in ('none', 'closed'):
                    rep.ok('R1-pairing', key)
                else:
                    rep.violation('R1-pairing', key,
                                  '%s returns a result (%s) without committing or reverting the checkpoint it opened: journal depth leaks by one' % (short, tag),
                                  fn.where(r))
            elif cls == 'Err':
                rep.ok('R1-pairing', key, 'fatal error exit: exempt (Evm::clear follows, C02)', nontrivial=False)
            else:
                rep.undecided('R1-pairing', key, 'exit of %s could not be classified' % short, fn.where(r))
        for kind, bi, d in ts.problems:
            rep.violation('R1-pairing', '%s:%s' % (short, kind), '%s in %s' % (kind, short), fn.where(bi))
        # the checkpoint stored in the frame is the one opened here
        og = Origins(fn, fx)
        for bi, t in fn.calls():
            n = t.target_fn or ''
            if n.startswith(FOR) and n.endswith('_frame'):
                arg = t.args[1]
                oo = og.of_operand(arg)
                good = all((o.root[0] == 'call' and o.root[1] in (CHECKPOINT, CAC)) for o in oo)
                key = '%s:frame-checkpoint-origin' % short
                if good:
                    rep.ok('R1-frame-carries-own-checkpoint', key, [o.render() for o in oo])
                else:
                    rep.violation('R1-frame-carries-own-checkpoint', key,
                                  'checkpoint stored in the new frame does not originate from the checkpoint opened in %s: %s' % (short, oo), fn.where(bi))
        # R3 depth guard
        check_depth_guard(fx, fn, rep, opens)

    # create_account_checkpoint summary verification: Ok => open, Err => closed
    cac = fx.fns.get(CAC)
    if cac is None:
        rep.undecided('R1-summary', 'create_account_checkpoint', 'anchor not found')
    else:
        rep.fn(cac)

        def cls_cac(fn, og, bi, si, term):
            if term is not None:
                if (term.callee or '').endswith('FromResidual::from_residual'):
                    return ('Err', 'propagated with `?`')
                return ('Unknown', 'call')
            rv = fn.blocks[bi].stmts[si].rv
            if rv.rv == 'agg' and rv.d.get('adt', '').endswith('result::Result'):
                tag = 'Ok'
                if rv.d['variant'] == 'Err':
                    tag = 'dynamic'
                    for o in og.of_operand(rv.ops[0]):
                        v = find_variant(o)
                        if v:
                            tag = v
                return (rv.d['variant'], tag)
            return ('Unknown', 'unclassified')
        ts = TS(cac, fx, events, cls_cac)
        exits = ts.run('none')
        n_open_sites += sum(1 for bi, t in cac.calls() if t.target_fn == CHECKPOINT)
        n_close_sites += sum(1 for bi, t in cac.calls() if t.target_fn in (COMMIT, REVERT))
        seen = set()
        for r, (st, cls, tag) in exits:
            k = (st, cls, tag)
            if k in seen:
                continue
            seen.add(k)
            key = 'create_account_checkpoint:exit=%s(%s):checkpoint=%s' % (cls, tag, st)
            if (cls == 'Ok' and st == 'open') or (cls == 'Err' and st in ('none', 'closed')):
                rep.ok('R1-summary', key)
            elif cls in ('Ok', 'Err'):
                rep.violation('R1-summary', key, 'create_account_checkpoint returns %s(%s) with its checkpoint %s' % (cls, tag, st), cac.where(r))
            else:
                rep.undecided('R1-summary', key, 'unclassified exit', cac.where(r))
        for kind, bi, d in ts.problems:
            rep.violation('R1-summary', 'create_account_checkpoint:%s' % kind, kind, cac.where(bi))

    # R2 return handlers: exactly once
    rets = ['revm::context::inner_evm_context::InnerEvmContext::call_return',
            'revm::context::inner_evm_context::InnerEvmContext::create_return',
            'revm::context::inner_evm_context::InnerEvmContext::eofcreate_return']
    for nq in rets:
        fn = fx.fns.get(nq)
        if fn is None:
            rep.undecided('R2-exactly-once', nq.split('::')[-1], 'anchor not found')
            continue
        rep.fn(fn)
        ts = TS(fn, fx, events, None)
        exits = ts.run('open')
        closes = [(bi, t) for bi, t in fn.calls() if t.target_fn in (COMMIT, REVERT)]
        n_close_sites += len(closes)
        sts = {st for r, (st, c, tg) in exits}
        key = '%s:all-exits-closed' % fn.name
        if sts == {'closed'}:
            rep.ok('R2-exactly-once', key, '%d close sites' % len(closes))
        else:
            bad = [r for r, (st, c, tg) in exits if st != 'closed']
            rep.violation('R2-exactly-once', key, '%s can return with the frame checkpoint still open (neither commit nor revert on some path)' % fn.name, fn.where(bad[0] if bad else None))
        for kind, bi, d in ts.problems:
            rep.violation('R2-exactly-once', '%s:%s' % (fn.name, kind), '%s: checkpoint closed twice on a path' % fn.name, fn.where(bi))
        # reverts use the frame's checkpoint parameter
        og = Origins(fn, fx)
        cp_params = [i for i in range(1, fn.argc + 1) if fn.local_ty(i).endswith('JournalCheckpoint')]
        for bi, t in closes:
            if t.target_fn == REVERT:
                oo = og.of_operand(t.args[1])
                if cp_params and all(o.root == ('param', cp_params[0]) and not o.path for o in oo):
                    rep.ok('R2-revert-arg', '%s:revert-uses-frame-checkpoint' % fn.name, nontrivial=False)
                else:
                    rep.violation('R2-revert-arg', '%s:revert-uses-frame-checkpoint' % fn.name,
                                  'checkpoint_revert is called with %s, not the frame checkpoint parameter' % oo, fn.where(bi))

    rep.floor('checkpoint-open-sites', n_open_sites, 4)     # checkpoint x2 + create_account_checkpoint x2
    rep.floor('commit/revert-sites', n_close_sites, 17)

    check_depth_writers(fx, rep)
    check_loop_wiring(fx, rep)
    rep.assume('fatal Err exits (database errors) are exempt: Evm::transact clears the journal on every error exit (decided under C02/C31)')
    rep.assume('user-registered handlers that replace call/create/return handles are out of scope')


def check_depth_guard(fx, fn, rep, opens):
    """R3: every opening call is dominated by the not-taken edge of `depth() > 1024`"""
    cfg = cfg_of(fn)
    og = Origins(fn, fx)
    guards = []   # (switch block, target-on-false)
    for b in fn.blocks:
        if b.cleanup or b.term.kind != 'switch':
            continue
        d = b.term.switch_discr()
        if d.place is None:
            continue
        for o in og.of_place(d.place):
            r = o.root
            if r[0] == 'bin' and r[1] in ('Gt', 'Ge', 'Lt', 'Le', 'Eq', 'Ne'):
                a, c = r[2], r[3]
                is_depth = any(x.root[0] == 'call' and x.root[1] == JS + 'depth' for x in a)
                cval = [x.root[1] for x in c if x.root[0] == 'const']
                if is_depth:
                    guards.append((b.i, r[1], cval))
    key = '%s:depth-guard' % fn.name
    if not guards:
        rep.violation('R3-depth-limit', key, '%s has no comparison of journaled_state.depth() against the call stack limit' % fn.name, fn.where())
        return
    for gb, op, cval in guards:
        if op != 'Gt' or cval != [1024]:
            rep.violation('R3-depth-limit', key + ':form', 'depth comparison is `depth %s %s`, expected `depth > 1024`' % (op, cval), fn.where(gb))
            continue
        t = fn.blocks[gb].term
        false_tg = [tg for v, tg in t.d['arms'] if v == 0]
        if not false_tg:
            rep.undecided('R3-depth-limit', key, 'unexpected switch shape', fn.where(gb))
            continue
        ok = True
        for ob in opens:
            # every path to the opening call takes the (depth > limit) == false edge
            if cfg.reachable(0, ob, banned_edges={(gb, false_tg[0])}):
                ok = False
                rep.violation('R3-depth-limit', key + ':dominance', 'a checkpoint is opened on a path that skips the depth check', fn.where(ob))
        # and the taken branch returns CallTooDeep without opening anything
        true_tg = t.d['otherwise']
        reach_true = cfg.reach_set(true_tg)
        if any(ob in reach_true for ob in opens):
            ok = False
            rep.violation('R3-depth-limit', key + ':too-deep-branch', 'the depth-exceeded branch can still open a checkpoint', fn.where(gb))
        if ok:
            rep.ok('R3-depth-limit', key, 'depth() > 1024 guards %d opening call(s)' % len(opens))
    lim = fx.const_val('revm::evm::CALL_STACK_LIMIT')
    if lim != 1024:
        rep.violation('R3-depth-limit', 'CALL_STACK_LIMIT-value', 'CALL_STACK_LIMIT evaluates to %s, the specification says 1024' % lim)


def check_depth_writers(fx, rep):
    """R4: the depth field of JournaledState is assigned only where expected."""
    expected = {
        JS + 'checkpoint': '+1', COMMIT: '-1', REVERT: '-1',
        JS + 'new': '0', JS + 'finalize': '0',
        '<revm::journaled_state::JournaledState as core::clone::Clone>::clone': 'copy (derived Clone)',
    }
    found = {}
    for f in fx.fns_all:
        if f.crate is None or not f.crate.startswith('revm:'):
            continue
        for b in f.blocks:
            if b.cleanup:
                continue
            for s in b.stmts:
                if s.kind != 'assign':
                    continue
                p = s.place
                if p.pr and p.pr[-1] == '.depth':
                    base_ty = f.local_ty(p.b)
                    if 'JournaledState' not in base_ty and 'usize' not in base_ty:
                        continue
                    if 'JournaledState' not in base_ty:
                        continue
                    found.setdefault(f.nq, []).append((b.i, s))
                elif s.rv.rv == 'agg' and s.rv.d.get('adt', '').endswith('journaled_state::JournaledState') and 'depth' in s.rv.d.get('names', []):
                    found.setdefault(f.nq, []).append((b.i, s))
    # finalize writes `*depth = 0` through a destructured reference: detect via ref of .depth
    for nq, sites in found.items():
        f = fx.fns[nq]
        rep.fn(f)
        if nq in expected:
            rep.ok('R4-depth-writers', '%s:writes-depth' % f.name, expected[nq], nontrivial=False)
        else:
            rep.violation('R4-depth-writers', '%s:writes-depth' % f.name, 'unexpected writer of JournaledState.depth: %s' % nq, f.where(sites[0][0]))
    # +1 / -1 shape
    for nq, delta in ((JS + 'checkpoint', 'Add'), (COMMIT, 'Sub'), (REVERT, 'Sub')):
        f = fx.fns.get(nq)
        if f is None:
            rep.undecided('R4-depth-writers', nq.split('::')[-1], 'anchor missing')
            continue
        og = Origins(f, fx)
        good = False
        for b in f.blocks:
            for s in b.stmts:
                if s.kind == 'assign' and s.place.pr and s.place.pr[-1] == '.depth':
                    for o in og.of_operand(s.rv.ops[0]) if s.rv.ops else []:
                        r = o.root
                        if (r[0] == 'bin' and r[1] in (delta, delta + 'WithOverflow')
                                and all(x.root[0] == 'param' and x.path[-1:] == ('.depth',) for x in r[2])
                                and all(x.root[0] == 'const' and x.root[1] == 1 for x in r[3])):
                            good = True
        key = '%s:depth-delta' % f.name
        if good:
            rep.ok('R4-depth-writers', key, delta + ' 1')
        else:
            rep.violation('R4-depth-writers', key, '%s does not change depth by exactly one (%s 1)' % (f.name, delta), f.where())


def check_loop_wiring(fx, rep):
    """R5: the execution-handler dispatchers reach their own family's context function and hand
    over the frame's own checkpoint."""
    fam = {
        'call_return': ('revm::handler::mainnet::execution::call_return', 'InnerEvmContext::call_return'),
        'create_return': ('revm::handler::mainnet::execution::create_return', 'InnerEvmContext::create_return'),
        'eofcreate_return': ('revm::handler::mainnet::execution::eofcreate_return', 'InnerEvmContext::eofcreate_return'),
    }
    for name, (hq, target) in fam.items():
        f = fx.fns.get(hq)
        if f is None:
            rep.undecided('R5-wiring', name, 'mainnet handler %s not found' % hq)
            continue
        rep.fn(f)
        hits = [(bi, t) for bi, t in f.calls() if (t.target_fn or '').endswith(target)]
        others = [(bi, t) for bi, t in f.calls() if any((t.target_fn or '').endswith(o[1]) for k, o in fam.items() if k != name)]
        if len(hits) == 1 and not others:
            bi, t = hits[0]
            og = Origins(f, fx)
            cp = og.of_operand(t.args[-1])
            # checkpoint argument comes from the frame parameter's frame_data.checkpoint
            good = all(o.root[0] == 'param' and o.path and o.path[-1] == '.checkpoint' for o in cp)
            if good:
                rep.ok('R5-wiring', name, 'handler passes frame.frame_data.checkpoint')
            else:
                rep.violation('R5-wiring', name + ':checkpoint-arg', 'handler %s passes %s as checkpoint, expected the frame\'s own frame_data.checkpoint' % (name, cp), f.where(bi))
        else:
            rep.violation('R5-wiring', name, 'mainnet %s handler calls %d matching and %d sibling context functions' % (name, len(hits), len(others)), f.where())
