"""C01 — transactions execute as the execution specification says (the decidable skeleton).

Equivalence with an external specification over all programs is not statically decidable; decided:
R1 instruction table per opcode (legacy opcodes): for the handler each byte dispatches to, on every
   success path the number of stack items removed / added equals the specification's (delta, alpha)
   AND the (inputs, outputs) recorded in OPCODE_INFO_JUMPTABLE (writer/reader agreement - EOF
   validation trusts that table); the constant part of the gas charge equals the fee schedule;
   halting opcodes end with their result; the call/create family leaves its one result word to the
   outcome-insertion functions, which push exactly once on every path;
R2 handler wiring: the default function installed in each execution-handler slot, and the slot's
   dispatcher method, reach the slot's own context function and none of its siblings'; run_the_loop
   routes each InterpreterAction / Frame / FrameResult variant to the dispatcher of the same family;
R3 the rule sets of C05 (activation per fork), C09 (gas settlement and fees), C13 (gas accounting)
   and C14 (dynamic gas) run as part of this check under the rule prefix `Cxx/` (thorough: also
   C02, C03, C04, C08, C10, C11, C12): each is a necessary condition of spec-conformant execution.
"""
import os
import sys

sys.path.insert(0, os.path.join(os.path.dirname(os.path.abspath(__file__)), 'reference'))
import opcodes as REF       # noqa: E402
import c05                   # noqa: E402
import isummary              # noqa: E402
from symx import Symx, Budget, render   # noqa: E402
from cfg import cfg_of, Origins          # noqa: E402

META = {
    'level': 'other',
    'decides': 'per legacy opcode: dispatch target, stack items removed/added on every success path against the Yellow Paper and against the opcode-info table, static gas against the fee schedule, halting results; the deferred result push of calls and creates; the wiring of the execution handler slots and of the frame loop',
    'does_not_decide': 'the value each handler computes, nested call semantics, post-state equality with the execution specification (no static argument in reach); dynamic gas (C14), activation (C05), fees (C09) are decided there',
    'explanation': 'Path enumeration of each instruction handler with helper inlining (events: stack accessors, gas charges, result stores); const evaluation of OPCODE_INFO_JUMPTABLE; call-graph wiring of the handler slots.',
}

# every decidable part of "executes as specified" runs on every change (the whole set costs ~20 s):
# activation, settlement, gas accounting, dynamic gas, validation, arithmetic, jumps, journal revert,
# depth, balances, static mode, memory, stack, warm/cold
INCLUDED_QUICK = ('c05', 'c09', 'c13', 'c14', 'c02', 'c03', 'c04', 'c06', 'c07', 'c08', 'c10', 'c11', 'c12', 'c34')
INCLUDED_THOROUGH = ()

DEFERRED = {0xF0, 0xF1, 0xF2, 0xF4, 0xF5, 0xFA}      # CREATE, CALL, CALLCODE, DELEGATECALL, CREATE2, STATICCALL
HALT_RESULT = {0x00: 'Stop', 0xF3: 'Return', 0xFD: 'Revert', 0xFF: 'SelfDestruct'}


def run(ctx, rep):
    fx = ctx.facts('default')
    r = c05.read_instruction_table(fx, rep)
    if r is None:
        return
    table, default = r
    info = opcode_info(fx, rep)
    n = 0
    for b in range(256):
        ref = REF.OPCODES.get(b)
        if ref is None or 'eof' in ref[5]:
            continue
        name, fork, delta, alpha, gas, flags = ref
        ent = table[b]
        if ent is None or ent == default:
            continue    # reported by C05
        hname, fargs = ent
        h = fx.fns.get(hname)
        rep.fn(h)
        s = isummary.summarize(fx, hname, fargs)
        n += 1
        key = name
        where = h.where() if h else None
        if s.undecided:
            rep.undecided('R1-instruction-table', key, s.undecided, where)
            continue
        if b == 0xFE:
            if not s.success and s.errors == {'InvalidFEOpcode'}:
                rep.ok('R1-instruction-table', key, 'always halts with InvalidFEOpcode')
            else:
                rep.violation('R1-instruction-table', key, 'INVALID (0xFE) must always halt with InvalidFEOpcode (success paths: %d, errors %s)' % (len(s.success), sorted(s.errors)), where)
            continue
        if not s.success:
            rep.violation('R1-instruction-table', key + ':no-success-path', '%s has no path that completes' % name, where)
            continue
        if any(x['dynamic'] for x in s.success):
            rep.undecided('R1-instruction-table', key, 'stack effect depends on a loop or a non-constant count', where)
            continue
        effs = {(x['removed'], x['added']) for x in s.success}
        want_added = 0 if b in DEFERRED else alpha
        if effs != {(delta, want_added)}:
            rep.violation('R1-instruction-table', key + ':stack-effect',
                          'opcode 0x%02X %s removes/adds %s stack items on its success paths, the specification says (%d, %d)%s' % (
                              b, name, sorted(effs), delta, alpha, ' with the result word pushed by the outcome insertion' if b in DEFERRED else ''), where)
            continue
        # opcode info table (inputs, outputs)
        if info is not None:
            ii = info.get(b)
            if ii is None or (ii['inputs'], ii['outputs']) != (delta, alpha):
                rep.violation('R1-instruction-table', key + ':opcode-info', 'OPCODE_INFO_JUMPTABLE[0x%02X] records stack_io %s, handler and specification say (%d, %d)' % (b, ii and (ii['inputs'], ii['outputs']), delta, alpha), where)
                continue
            if ii['name'] is not None and ii['name'] != name and not (name == 'KECCAK256' and ii['name'] in ('KECCAK256', 'SHA3')):
                rep.violation('R1-instruction-table', key + ':mnemonic', 'byte 0x%02X is named %s in OPCODE_INFO_JUMPTABLE, the specification calls it %s' % (b, ii['name'], name), where)
                continue
            if (ii['terminating'] is True) != ('halt' in flags):
                rep.violation('R1-instruction-table', key + ':terminating', 'OPCODE_INFO terminating flag for %s is %s' % (name, ii['terminating']), where)
                continue
        # static gas
        if gas is not None:
            firsts = {(x['gas'][0] if x['gas'] else 0) for x in s.success}
            totals = {sum(g for g in x['gas'] if g is not None) if all(g is not None for g in x['gas']) else None for x in s.success}
            if b == 0xF5:
                # CREATE2's 32000 is the constant term of create2_cost (decided in C14)
                ok = all(any('create2_cost' in g for g in x['gas_src']) for x in s.success)
            elif b == 0xF0:
                ok = all(any(g == gas for g in x['gas']) for x in s.success)
            elif gas == 0:
                ok = all(not [g for g in x['gas'] if g] for x in s.success) or firsts == {0}
            else:
                ok = firsts == {gas}
            if not ok:
                rep.violation('R1-instruction-table', key + ':static-gas', 'opcode %s charges %s as its constant gas, the fee schedule says %d' % (name, sorted(firsts, key=str), gas), where)
                continue
        # halting result
        if b in HALT_RESULT:
            res = {x['result'] for x in s.success}
            if res != {HALT_RESULT[b]}:
                rep.violation('R1-instruction-table', key + ':result', '%s ends with %s, expected %s' % (name, sorted(map(str, res)), HALT_RESULT[b]), where)
                continue
        elif b in DEFERRED:
            res = {x['result'] for x in s.success}
            if res != {'CallOrCreate'}:
                rep.violation('R1-instruction-table', key + ':result', '%s ends with %s, expected CallOrCreate' % (name, sorted(map(str, res))), where)
                continue
        else:
            res = {x['result'] for x in s.success}
            if res - {None, 'Continue'}:
                rep.violation('R1-instruction-table', key + ':result', '%s sets the result %s on a success path' % (name, sorted(map(str, res))), where)
                continue
        rep.ok('R1-instruction-table', key, '(%d,%d) gas %s; %d paths' % (delta, alpha, gas, s.paths), nontrivial=True)
    rep.floor('legacy-opcodes-summarised', n, 140)
    check_outcome_push(fx, rep)
    check_wiring(fx, rep)
    check_early_exits(fx, rep)
    # R4: the specification's other decidable parts are the rule sets of the properties below; a
    # transaction executes as specified only if they hold too, so they run as part of this check
    import engine
    engine.run_included(ctx, rep, INCLUDED_QUICK + (INCLUDED_THOROUGH if ctx.tier == 'thorough' else ()))
    rep.assume('OSAKA-only (EOF) opcodes are outside the statement\'s quantifier (FRONTIER..PRAGUE); their guards are decided in C05')


def opcode_info(fx, rep):
    c = fx.consts.get('revm_interpreter::opcode::OPCODE_INFO_JUMPTABLE')
    if not c or 'val' not in c:
        rep.undecided('R1-instruction-table', 'OPCODE_INFO_JUMPTABLE', 'constant not evaluable')
        return None
    out = {}
    for b, ent in enumerate(c['val']['fields']):
        if isinstance(ent, dict) and ent.get('variant') == 'Some':
            d = dict(zip(ent['fields'][0].get('names', []), ent['fields'][0]['fields']))
            out[b] = {'inputs': d.get('inputs'), 'outputs': d.get('outputs'), 'terminating': d.get('terminating'), 'name': None}
    # mnemonics from the `pub const NAME: u8 = value` constants of the opcode module
    byval = {}
    for q, cc in fx.consts.items():
        if q.startswith('revm_interpreter::opcode::') and q.count('::') == 2 and isinstance(cc.get('val'), int) and cc.get('ty') == 'u8':
            nm = q.split('::')[-1]
            if nm not in ('NOP',):
                byval.setdefault(cc['val'], nm)
    for b, d in out.items():
        d['name'] = byval.get(b)
    return out


def check_outcome_push(fx, rep):
    I = 'revm_interpreter::interpreter::Interpreter::'
    for nm in ('insert_call_outcome', 'insert_create_outcome', 'insert_eofcreate_outcome'):
        f = fx.fns.get(I + nm)
        if f is None:
            rep.undecided('R1-deferred-push', nm, 'not found')
            continue
        rep.fn(f)
        try:
            rs = Symx(fx, max_paths=3000).run(f)
        except Budget:
            rep.undecided('R1-deferred-push', nm, 'budget', f.where())
            continue
        bad = []
        n = 0
        for p in rs:
            pushes = [e for e in p.events if e[0].startswith(isummary.STACK) and e[0].split('::')[-1] in ('push', 'push_b256')]
            # a failed push sets StackOverflow and returns: still one push attempt
            n += 1
            if len(pushes) != 1:
                bad.append(len(pushes))
        if bad:
            rep.violation('R1-deferred-push', nm, '%s pushes the result word %s times on some path (expected exactly once on every path)' % (nm, sorted(set(bad))), f.where())
        else:
            rep.ok('R1-deferred-push', nm, '%d paths, one push each' % n)
        check_outcome_values(fx, rep, f, nm)


def check_outcome_values(fx, rep, f, nm):
    """the word pushed for the finished callee, per class of its result: CALL family 1 on success and 0
    otherwise (EOF EXT*CALL: 0 / 1 on revert / 2 on failure); CREATE family the new address on success
    and 0 otherwise; unused gas comes back on success and revert, the refund counter on success only."""
    import c09
    import c15
    try:
        rs = Symx(fx, max_paths=3000, snapshot_refs=True).run(f)
    except Budget:
        return
    cells = {}
    for p in rs:
        cls = None
        eof = None
        for (sv, lit, _f, _b) in p.lits:
            txt = render(sv)
            if txt.startswith('discr(') and 'instruction_result' in c15.render_deep(sv):
                if lit[0] == 'eq':
                    v = fx.variant_by_discr(c09.IR, lit[1])
                    cls = 'ok' if v in c09.OK_REF else ('revert' if v in c09.REVERT_REF else 'other')
                else:
                    cls = 'other'
            if 'is_eof' in txt:
                eof = lit != ('eq', 0)
        if cls is None:
            continue
        pushes = [e for e in p.events if e[0].startswith(isummary.STACK) and e[0].split('::')[-1] in ('push', 'push_b256')]
        if len(pushes) != 1:
            continue
        val = c15.render_deep(pushes[0][1][1])
        if val.endswith('Uint::ZERO'):
            val = '0'
        gas = tuple(sorted({e[0].split('::')[-1] for e in p.events if e[0].split('::')[-1] in ('erase_cost', 'record_refund')}))
        cells.setdefault((cls, eof), set()).add((val, gas))
    call = nm == 'insert_call_outcome'
    bad = None
    for (cls, eof), got in sorted(cells.items(), key=str):
        if call:
            want_val = {('ok', False): '1', ('ok', True): '0', ('revert', False): '0', ('revert', True): '1', ('other', False): '0', ('other', True): '2'}.get((cls, bool(eof)))
        else:
            want_val = 'address' if cls == 'ok' else '0'
        want_gas = {'ok': ('erase_cost', 'record_refund'), 'revert': ('erase_cost',), 'other': ()}[cls]
        for val, gas in got:
            okv = ('address' in val and 'into_word' in val) if want_val == 'address' else (val == want_val)
            if not okv:
                bad = 'after a callee that ended in class `%s`%s the word pushed is %s, expected %s' % (cls, ' (EOF)' if eof else '', val[:60], want_val)
            elif not set(gas) <= set(want_gas):
                bad = 'after a callee that ended in class `%s` the gas operations are %s, expected %s' % (cls, list(gas), list(want_gas))
        if not any(set(g) == set(want_gas) for _v, g in got):
            bad = bad or 'after a callee that ended in class `%s` no path performs %s' % (cls, list(want_gas))
    if bad or len(cells) < 3:
        rep.violation('R1-deferred-push', nm + ':value', '%s: %s' % (nm, bad or 'result classes not recognised (%s)' % sorted(cells, key=str)), f.where())
    else:
        rep.ok('R1-deferred-push', nm + ':value', '%d (class, eof) cells' % len(cells))


SLOTS = {
    # slot (ExecutionHandler dispatcher / mainnet default) : context function it must reach
    'call': 'revm::context::evm_context::EvmContext::make_call_frame',
    'create': 'revm::context::evm_context::EvmContext::make_create_frame',
    'eofcreate': 'revm::context::evm_context::EvmContext::make_eofcreate_frame',
    'call_return': 'revm::context::inner_evm_context::InnerEvmContext::call_return',
    'create_return': 'revm::context::inner_evm_context::InnerEvmContext::create_return',
    'eofcreate_return': 'revm::context::inner_evm_context::InnerEvmContext::eofcreate_return',
    'insert_call_outcome': 'revm_interpreter::interpreter::Interpreter::insert_call_outcome',
    'insert_create_outcome': 'revm_interpreter::interpreter::Interpreter::insert_create_outcome',
    'insert_eofcreate_outcome': 'revm_interpreter::interpreter::Interpreter::insert_eofcreate_outcome',
}


def reaches(fx, start, depth=4):
    seen = set()
    out = set()
    work = [(start, 0)]
    while work:
        n, d = work.pop()
        if n in seen or d > depth:
            continue
        seen.add(n)
        f = fx.fns.get(n)
        if f is None:
            continue
        for _, t in f.calls():
            for nm in t.names():
                out.add(nm)
                if nm in fx.fns and 'revm' in nm:
                    work.append((nm, d + 1))
    return out


def check_wiring(fx, rep):
    M = 'revm::handler::mainnet::execution::'
    targets = set(SLOTS.values())
    n = 0
    for slot, want in SLOTS.items():
        f = fx.fns.get(M + slot)
        if f is None:
            rep.undecided('R2-wiring', slot, 'mainnet handler not found')
            continue
        rep.fn(f)
        got = reaches(fx, f.nq, depth=2) & targets
        n += 1
        if got == {want}:
            rep.ok('R2-wiring', 'mainnet::' + slot, want.split('::')[-1])
        else:
            rep.violation('R2-wiring', 'mainnet::' + slot, 'the mainnet `%s` handler reaches %s, expected only %s' % (slot, sorted(x.split('::')[-1] for x in got), want.split('::')[-1]), f.where())
    # ExecutionHandler::new installs mainnet::<slot> into the field of the same name
    f = fx.fns.get('revm::handler::handle_types::execution::ExecutionHandler::new')
    if f is not None:
        rep.fn(f)
        og = Origins(f, fx)
        for b in f.blocks:
            for s in b.stmts:
                if s.kind == 'assign' and s.rv.rv == 'agg' and s.rv.d.get('adt', '').endswith('ExecutionHandler'):
                    for fld, op in zip(s.rv.d['names'], s.rv.ops):
                        if fld not in SLOTS:
                            continue
                        fns = set()
                        for o in og.of_operand(op):
                            fns |= fn_items(f, og, o)
                        n += 1
                        if fns == {M + fld}:
                            rep.ok('R2-wiring', 'slot:' + fld, 'mainnet::' + fld)
                        else:
                            rep.violation('R2-wiring', 'slot:' + fld, 'ExecutionHandler::new installs %s into the `%s` slot' % (sorted(x.split('::')[-1] for x in fns), fld), f.where(b.i))
    # dispatcher methods call the field of the same name
    for slot in SLOTS:
        g = fx.fns.get('revm::handler::handle_types::execution::ExecutionHandler::' + slot)
        if g is None:
            continue
        rep.fn(g)
        og = Origins(g, fx)
        ok = False
        for _, t in g.calls():
            if (t.callee or '').endswith(('Fn::call', 'FnMut::call_mut')):
                for o in og.of_operand(t.args[0]):
                    if o.root == ('param', 1) and o.path and o.path[0] == '.' + slot:
                        ok = True
        n += 1
        if ok:
            rep.ok('R2-wiring', 'dispatch:' + slot, 'self.%s' % slot)
        else:
            rep.violation('R2-wiring', 'dispatch:' + slot, 'ExecutionHandler::%s does not invoke the `%s` handle' % (slot, slot), g.where())
    # the frame loop
    loop = fx.fns.get('revm::evm::Evm::run_the_loop')
    if loop is not None:
        rep.fn(loop)
        check_loop_arms(fx, rep, loop)
    n += check_frame_kinds(fx, rep)
    rep.floor('wiring-instances', n, 28)


def check_frame_kinds(fx, rep):
    """each frame constructor answers in its own kind: make_call_frame builds call frames / call
    results, make_create_frame create ones, make_eofcreate_frame EOF-create ones (the frame loop, the
    return handlers and the inspector's input stacks are all selected by that kind)."""
    E = 'revm::context::evm_context::EvmContext::'
    want = {'make_call_frame': 'call', 'make_create_frame': 'create', 'make_eofcreate_frame': 'eofcreate'}
    n = 0
    for nm, kind in want.items():
        f = fx.fns.get(E + nm)
        if f is None:
            rep.undecided('R2-wiring', 'kind:' + nm, 'not found')
            continue
        rep.fn(f)
        used = set()
        for g in [f] + list(fx.closures_of(f.nq)):
            for _, t in g.calls():
                c = t.target_fn or ''
                if '::FrameOrResult::new_' in c:
                    used.add(c.split('::new_')[-1])
            for b in g.blocks:
                for st in b.stmts:
                    if st.kind == 'assign' and st.rv.rv == 'agg' and st.rv.d.get('adt', '').split('::')[-1] in ('Frame', 'FrameResult') and st.rv.d.get('variant'):
                        used.add({'Call': 'call', 'Create': 'create', 'EOFCreate': 'eofcreate'}.get(st.rv.d['variant'], st.rv.d['variant']) + '_direct')
        kinds = {u.rsplit('_', 1)[0] for u in used}
        n += 1
        if kinds == {kind} and any(u.endswith('_frame') or u.endswith('_direct') for u in used) and any(u.endswith('_result') or u.endswith('_direct') for u in used):
            rep.ok('R2-wiring', 'kind:' + nm, sorted(used))
        else:
            rep.violation('R2-wiring', 'kind:' + nm, '%s builds %s; every frame and every early result it returns must be of kind `%s` (a result of another kind is routed to the wrong return handler and inspector stack)' % (nm, sorted(used), kind), f.where())
    return n


CLEAN_EXITS = {
    # early results a CALL/CREATE answers with before anything of the caller's state is touched: the
    # caller's frame is not reverted afterwards, so whatever was journaled before these exits stays.
    'make_call_frame': ('CallTooDeep',),
    'make_create_frame': ('CallTooDeep', 'OutOfFunds', 'CreateInitCodeStartingEF00'),
    'make_eofcreate_frame': ('CallTooDeep', 'OutOfFunds'),
}
JOURNAL_WRITERS = {'inc_nonce', 'transfer', 'touch', 'create_account_checkpoint', 'checkpoint', 'set_code',
                   'set_code_with_hash', 'sstore', 'tstore', 'selfdestruct', 'log', 'checkpoint_commit', 'checkpoint_revert'}


def check_early_exits(fx, rep):
    """R3: the failed-precondition exits of the frame constructors (depth limit, insufficient balance,
    EF00 init code) are taken before any journaled write: a CREATE that cannot pay its endowment
    must leave the creator's nonce alone, a too-deep CALL must not move value."""
    import re
    from symx import Symx, Budget, render
    E = 'revm::context::evm_context::EvmContext::'
    n = 0
    for nm, codes in CLEAN_EXITS.items():
        f = fx.fns.get(E + nm)
        if f is None:
            rep.undecided('R3-early-exits', nm, 'not found')
            continue
        rep.fn(f)
        try:
            rs = Symx(fx, max_paths=6000, snapshot_refs=True).run(f)
        except Budget:
            rep.undecided('R3-early-exits', nm, 'path budget', f.where())
            continue
        seen = {}
        for r in rs:
            m = re.search(r'result: InstructionResult::(\w+)\(\)', render(r.ret))
            if not m or m.group(1) not in codes:
                continue
            wr = [e[0].split('::')[-1] for e in r.events
                  if ('JournaledState' in e[0] or 'InnerEvmContext' in e[0] or 'EvmContext' in e[0]) and e[0].split('::')[-1] in JOURNAL_WRITERS]
            seen.setdefault(m.group(1), set()).update(wr)
        for code in codes:
            n += 1
            if code not in seen:
                rep.violation('R3-early-exits', '%s:%s' % (nm, code), '%s has no exit answering %s (the precondition is not checked before the frame is built)' % (nm, code), f.where())
            elif seen[code]:
                rep.violation('R3-early-exits', '%s:%s' % (nm, code), '%s answers %s after %s: the write stays in the caller\'s journal although the call/create did not happen' % (nm, code, sorted(seen[code])), f.where())
            else:
                rep.ok('R3-early-exits', '%s:%s' % (nm, code), 'no journaled write before the exit')
    rep.floor('R3-early-exits', n, 6)


def fn_items(f, og, o, depth=0):
    """function items an origin denotes (through Arc::new / Box::new / casts)"""
    r = o.root
    if r[0] == 'fn':
        return {r[1]}
    if r[0] == 'call' and depth < 4 and r[1].endswith(('Arc::new', 'Box::new', 'sync::Arc::new')):
        t = f.blocks[r[2]].term
        out = set()
        for x in og.of_operand(t.args[0]):
            out |= fn_items(f, og, x, depth + 1)
        return out
    if r[0] == 'cast':
        out = set()
        for x in r[2]:
            out |= fn_items(f, og, x, depth + 1)
        return out
    return set()


def check_loop_arms(fx, rep, loop):
    """each arm of the matches in run_the_loop calls the dispatcher of its own family"""
    E = 'revm::handler::handle_types::execution::ExecutionHandler::'
    fam = {
        ('InterpreterAction', 'Call'): 'call', ('InterpreterAction', 'Create'): 'create', ('InterpreterAction', 'EOFCreate'): 'eofcreate',
        ('Frame', 'Call'): 'call_return', ('Frame', 'Create'): 'create_return', ('Frame', 'EOFCreate'): 'eofcreate_return',
        ('FrameResult', 'Call'): 'insert_call_outcome', ('FrameResult', 'Create'): 'insert_create_outcome', ('FrameResult', 'EOFCreate'): 'insert_eofcreate_outcome',
    }
    cfg = cfg_of(loop)
    all_disp = {E + v for v in fam.values()}
    done = 0
    for b in loop.blocks:
        if b.cleanup or b.term.kind != 'switch':
            continue
        adt = None
        for s in b.stmts:
            if s.kind == 'assign' and s.rv.rv == 'discr':
                adt = s.rv.d.get('adt', '')
        if adt is None:
            continue
        short = adt.split('::')[-1]
        if short not in ('InterpreterAction', 'Frame', 'FrameResult'):
            continue
        arms = {}
        for v, tg in b.term.d['arms']:
            arms.setdefault(tg, []).append(fx.variant_by_discr(adt, v))
        per_arm = {}
        for tg, vs in arms.items():
            others = set(arms) - {tg}
            region = cfg.reach_set(tg, banned_blocks=others | {b.i})
            called = set()
            for x in sorted(region):
                t = loop.blocks[x].term
                # dispatcher calls in blocks dominated by the arm target belong to the arm
                if t.kind == 'call' and (t.target_fn or '') in all_disp and cfg.dominates(tg, x):
                    called.add(t.target_fn[len(E):])
            per_arm[tg] = called
        if not any(per_arm.values()):
            continue        # a drop-elaboration switch on the same enum, not a routing match
        siblings = {w for (s_, _v), w in fam.items() if s_ == short}
        for tg, vs in arms.items():
            for v in vs:
                want = fam.get((short, v))
                if want is None:
                    continue
                called = per_arm[tg]
                done += 1
                key = 'loop:%s::%s' % (short, v)
                if want in called and not (called - {want}) & siblings:
                    rep.ok('R2-wiring', key, want)
                else:
                    rep.violation('R2-wiring', key, 'run_the_loop handles %s::%s by calling %s, expected %s' % (short, v, sorted(called), want), loop.where(tg))
    if done < 9:
        rep.violation('R2-wiring', 'loop:arms', 'only %d of the 9 routing arms of run_the_loop were recognised' % done, loop.where())
