"""C28 — attaching an observing inspector does not change execution (structural clauses).

R1 pass-through: every handler replaced by inspector_handle_register invokes the wrapped handler
   exactly once on every path where the inspector did not supply an outcome and returns its result
   (start wrappers: the frame-or-result of the wrapped handler; end / last-frame wrappers: the
   wrapped handler's result), and hands on the inputs / outcome it was given (possibly as rewritten
   by the inspector hook, which for an observing inspector is the identity - R3);
R2 instruction wrapper: the instruction pointer is moved back by one for `step` and forward by one
   again before the wrapped instruction runs, on the path that continues;
R3 effect purity of the observing inspectors (trait defaults used by NoOpInspector, GasInspector,
   TracerEip3155 [cfg serde-json]): no method writes through its interpreter / context parameters,
   calls only read-only accessors on them, and every *_end method returns the outcome it was given;
   the one accepted write - GasInspector::{call_end, create_end}: `outcome.result.gas.spend_all()`
   under `result.is_error()` - is tied to a checked justification: the is_error class is disjoint
   from the ok and revert classes, whose remaining gas is the only one ever read (C09 tables).
"""
import insp
from cfg import Origins, guards_of
from symx import Symx, Budget, render

META = {
    'level': 'other',
    'decides': 'that the inspector wrappers delegate exactly once and pass results through, the instruction-pointer bracket, and that the three observing inspectors do not write through the interpreter/context and return the outcome they received (with the one justified exception); that each handler wrapper delegates to the previous handler of the slot it replaces',
    'does_not_decide': 'equality of results, gas, logs and state with and without an inspector over executions',
    'explanation': 'Path enumeration of the wrapper closures (delegate counts, returned value), effect inventory of the Inspector impl methods (stores and &mut-taking calls on the observed parameters), origin of returned outcomes, table disjointness shared with C09.',
}

INSPECTOR_TRAIT = 'revm::inspector::Inspector'
OBSERVERS = ('NoOpInspector', 'GasInspector', 'TracerEip3155')
# std methods taking their receiver / arguments by shared reference (callees without MIR)
STD_SHARED = {'eq', 'ne', 'clone', 'fmt', 'deref', 'as_ref', 'len', 'is_empty', 'borrow', 'cmp', 'partial_cmp', 'hash', 'to_string', 'to_owned'}
# calls that take the interpreter / context by (mutable) reference but only read
READ_ONLY = ('Gas::remaining', 'Gas::limit', 'Gas::refunded', 'Gas::spent', 'Interpreter::gas', 'Interpreter::stack', 'Stack::data', 'Stack::len',
             'Interpreter::current_opcode', 'Interpreter::program_counter', 'SharedMemory::len', 'SharedMemory::context_memory',
             'JournaledState::depth', 'Interpreter::contract', 'Deref::deref', 'DerefMut::deref_mut', 'Clone::clone', 'Interpreter::is_eof',
             'Interpreter::bytecode', 'Contract::is_eof', 'Interpreter::memory', 'Interpreter::pc')


def run(ctx, rep):
    fx = ctx.facts('default')
    r = insp.load(fx, rep)
    if r is not None:
        parent, cls = r
        check_passthrough(fx, rep, cls)
        check_wrapped_slot(fx, rep, parent)
        check_instruction_wrappers(fx, rep, cls)
    import c29
    c29.check_instruction(fx, _Rename(rep, 'R2-instruction-wrapper'))
    check_purity(ctx, rep)
    check_observers_cannot_panic(ctx, rep)
    check_justification(fx, rep)
    rep.assume('an inspector that rewrites inputs or outcomes is by definition not "observing"; the wrappers faithfully forward whatever the hook returns')


def check_wrapped_slot(fx, rep, parent):
    """R1b: the handler a wrapper delegates to is the one it replaces.  For every
    `handler.X.SLOT = Arc::new(closure)` in inspector_handle_register, the previous-handler value the
    closure captured is a clone of the same `handler.X.SLOT` (a wrapper that captured another slot's
    handler would run, e.g., the CREATE outcome logic for an EOFCREATE whenever an inspector is on)."""
    from cfg import Origins
    og = Origins(parent, fx)
    n = 0
    for b in parent.blocks:
        if b.cleanup:
            continue
        for s_ in b.stmts:
            if s_.kind != 'assign' or s_.place.b != 1 or not s_.place.pr or s_.rv is None or not s_.rv.ops:
                continue
            slot = tuple(p for p in s_.place.pr if p != '*')
            clos = None
            for o in og.of_operand(s_.rv.ops[0]):
                if o.root[0] == 'call' and o.root[1].endswith('Arc::new'):
                    for a in og.of_operand(parent.blocks[o.root[2]].term.args[0]):
                        if a.root[0] == 'agg' and '{closure' in str(a.root[1]):
                            clos = a
            if clos is None:
                continue
            n += 1
            key = ''.join(slot)[1:]
            prev_slots = set()
            for cap in clos.root[4]:
                for c in cap:
                    if c.root == ('param', 1) and c.path:
                        prev_slots.add(c.path)      # Origins reads a clone as its source
                    if c.root[0] == 'call' and c.root[1].endswith('::clone'):
                        for src in og.of_operand(parent.blocks[c.root[2]].term.args[0]):
                            if src.root == ('param', 1) and src.path:
                                prev_slots.add(src.path)
            if prev_slots == {slot}:
                rep.ok('R1-pass-through', key + ':wraps-own-slot', 'previous handler = handler%s' % ''.join(slot))
            else:
                rep.violation('R1-pass-through', key + ':wraps-own-slot', 'the wrapper installed as handler%s delegates to %s: with an inspector attached another handler runs than without' % (
                    ''.join(slot), sorted(''.join(p) for p in prev_slots) or 'no previous handler'), parent.where(b.i))
    rep.floor('R1-wrapped-slots', n, 7)


def check_instruction_wrappers(fx, rep, cls):
    """the LOG / SELFDESTRUCT wrappers installed with update_boxed: on EVERY path the wrapped
    instruction runs exactly once, with the wrapper's own interpreter and host, and before any
    inspector hook is consulted (an early return in front of it would skip the instruction whenever
    an inspector is attached)."""
    n = 0
    for c in cls:
        if c.role not in ('log', 'selfdestruct'):
            continue
        rep.fn(c.fn)
        paths = c.run(fx)
        if paths is None:
            rep.undecided('R2-instruction-wrapper', c.role + ':prev-once', 'path budget', c.fn.where())
            continue
        n += 1
        bad = None
        for p in paths:
            tk = insp.tokens(p)
            prevs = [i for i, t in enumerate(tk) if t[0] == 'prev']
            hooks = [i for i, t in enumerate(tk) if t[0] == 'insp']
            if len(prevs) != 1:
                bad = 'the wrapped instruction runs %d times on a path' % len(prevs)
                break
            if hooks and hooks[0] < prevs[0]:
                bad = 'an inspector hook is called before the wrapped instruction ran'
                break
            args = tk[prevs[0]][2]
            txt = render(args[1]) if len(args) > 1 else ''
            if 'arg' not in txt:
                bad = 'the wrapped instruction is called with %s' % txt[:60]
                break
        if bad:
            rep.violation('R2-instruction-wrapper', c.role + ':prev-once', 'the %s wrapper: %s' % (c.role.upper(), bad), c.fn.where())
        else:
            rep.ok('R2-instruction-wrapper', c.role + ':prev-once', 'wrapped instruction runs exactly once on %d paths' % len(paths))
    if n < 2:
        rep.violation('R2-instruction-wrapper', 'wrappers-found', 'only %d of the LOG / SELFDESTRUCT wrappers were recognised' % n)


class _Rename:
    """forward to a report under another rule name"""

    def __init__(self, rep, rule):
        self.rep = rep
        self.rule = rule

    def ok(self, rule, *a, **k):
        self.rep.ok(self.rule, *a, **k)

    def violation(self, rule, *a, **k):
        self.rep.violation(self.rule, *a, **k)

    def undecided(self, rule, *a, **k):
        self.rep.undecided(self.rule, *a, **k)

    def fn(self, f):
        self.rep.fn(f)


def check_passthrough(fx, rep, cls):
    n = 0
    for c in cls:
        if c.role in ('log', 'selfdestruct') or c.role.startswith('unknown'):
            continue
        rep.fn(c.fn)
        paths = c.run(fx)
        if paths is None:
            rep.undecided('R1-pass-through', c.role, 'path budget', c.fn.where())
            continue
        ok = True
        for p in paths:
            tk = insp.tokens(p)
            prevs = [t for t in tk if t[0] == 'prev']
            hooks = [t for t in tk if t[0] == 'insp' and t[1] in ('call', 'create', 'eofcreate')]
            supplied = False
            for (sv, lit, _f, _b) in p.lits:
                if sv[0] == 'discr' and sv[1][0] == 'call' and sv[1][1].startswith(insp.INSPECTOR) and sv[1][1].split('::')[-1] in ('call', 'create', 'eofcreate'):
                    supplied = lit == ('eq', 1)
            n += 1
            if supplied:
                continue
            if len(prevs) != 1:
                ok = False
                rep.violation('R1-pass-through', c.role + ':delegate-count', 'wrapper (%s) invokes the wrapped handler %d times on a path without inspector outcome' % (c.role, len(prevs)), c.fn.where())
                break
            # the returned value is the wrapped handler's result
            pv = prevs[0]
            r = render(p.ret)
            if not (p.ret[0] == 'call' and p.ret[1].endswith(('Fn::call', 'FnMut::call_mut'))) and 'call(' not in r:
                ok = False
                rep.violation('R1-pass-through', c.role + ':result', 'wrapper (%s) does not return the wrapped handler\'s result: %s' % (c.role, r[:100]), c.fn.where())
                break
            # arguments: context first, the rest are the wrapper's own parameters or the hook's outcome
            args = pv[2][1]
            if args[0] == 'agg':
                for a in args[4][1:]:
                    ra = render(a)
                    if not ("('arg'," in ra or 'arg' in ra or '_end(' in ra or 'clone' in ra):
                        ok = False
                        rep.violation('R1-pass-through', c.role + ':arguments', 'wrapper (%s) passes %s to the wrapped handler' % (c.role, ra[:80]), c.fn.where())
        if ok:
            rep.ok('R1-pass-through', c.role, 'delegates once and returns the wrapped handler\'s result')
    rep.floor('wrapper-paths-checked', n, 10)


def observed_params(f):
    """indices of parameters holding the interpreter / context (observed, must not be written)"""
    out = []
    for i in range(2, f.argc + 1):
        ty = f.local_ty(i)
        if ty.startswith('&mut') and ('Interpreter' in ty or 'EvmContext' in ty):
            out.append(i)
    return out


def is_observer_method(fx, name):
    """the (resolved) callee is an Inspector method of one of the observing inspectors"""
    g = fx.fns.get(name)
    if g is None:
        return False
    return g.impl_trait == INSPECTOR_TRAIT and g.impl_self is not None and any(o in g.impl_self for o in OBSERVERS)


def writes_through(fx, f, obs, depth, seen):
    """descriptions of possible writes through the observed parameters of f (transitively through
    workspace helpers; delegation to another observing inspector's hook is accepted - that hook is
    checked on its own)"""
    bad = []
    if (f.nq, tuple(obs)) in seen or depth > 3:
        return bad
    seen.add((f.nq, tuple(obs)))
    og = Origins(f, fx)
    for b in f.blocks:
        if b.cleanup:
            continue
        for s in b.stmts:
            if s.kind == 'assign' and '*' in s.place.pr:
                for o in og.of_place(s.place):
                    if o.root[0] == 'param' and o.root[1] in obs:
                        bad.append('%s: store to %s' % (f.name, o.render()))
        t = b.term
        if t.kind != 'call':
            continue
        passed = {}
        for ai, a in enumerate(t.args):
            if a.place is None:
                continue
            ty = f.local_ty(a.place.b) if not a.place.pr else ''
            if not ty.startswith('&mut'):
                continue
            for o in og.of_operand(a):
                if o.root[0] == 'param' and o.root[1] in obs:
                    passed[ai] = o
        if not passed:
            continue
        nm = t.target_fn or t.callee or '?'
        if nm.endswith(READ_ONLY):
            continue
        if t.res and is_observer_method(fx, t.res):
            continue
        callee = fx.fns.get(nm)
        if callee is not None and callee.crate and callee.crate.startswith('revm:'):
            sub = writes_through(fx, callee, [i + 1 for i in passed], depth + 1, seen)
            bad.extend(sub)
            continue
        for ai, o in passed.items():
            bad.append('%s: %s(&mut %s)' % (f.name, nm.split('::')[-1], o.render()))
    return bad


def check_purity(ctx, rep):
    seen = set()
    n = 0
    for cfgn in ('default', 'serde-json'):
        fx = ctx.facts(cfgn)
        fns = []
        for f in fx.fns_all:
            if f.kind != 'AssocFn' or not f.crate or f.crate.endswith('-test'):
                continue
            if f.impl_trait == INSPECTOR_TRAIT and f.impl_self and any(o in f.impl_self for o in OBSERVERS):
                fns.append((f.impl_self.split('::')[-1].split('<')[0], f))
            elif f.d.get('trait_default_of') and f.nq.startswith(INSPECTOR_TRAIT + '::'):
                fns.append(('Inspector(default, used by NoOpInspector)', f))
        for who, f in fns:
            ident = (who, f.name)
            if ident in seen:
                continue
            seen.add(ident)
            rep.fn(f)
            n += 1
            og = Origins(f, fx)
            obs = observed_params(f)
            key = '%s::%s' % (who.split('(')[0], f.name)
            bad = writes_through(fx, f, obs, 0, set())
            if bad:
                rep.violation('R3-observer-purity', key + ':writes', '%s::%s can write through the observed interpreter/context: %s' % (who, f.name, sorted(set(bad))[:3]), f.where())
            # *_end methods return their outcome parameter
            if f.name.endswith('_end') and f.name != 'step_end':
                outcome_param = f.argc
                # private helpers of the inspector modules are inlined so that a write moved into a
                # helper is still seen as a write on the outcome
                helpers = {g.nq for g in fx.fns_all if g.nq.startswith('revm::inspector::') and g.impl_trait != INSPECTOR_TRAIT and g.nq != f.nq}
                try:
                    rs = Symx(fx, pure={'revm_interpreter::instruction_result::InstructionResult::is_error'}, max_paths=500, inline=helpers).run(f)
                except Budget:
                    rep.undecided('R3-observer-purity', key + ':outcome', 'budget', f.where())
                    continue
                odd = []
                for p in rs:
                    base = p.ret
                    mods = ()
                    if base[0] == 'with':
                        mods = base[2]
                        base = base[1]
                    if base[0] == 'call' and base[1].split('::')[-1] == f.name and is_observer_method(fx, base[1]) and base[2] and base[2][-1] == ('sym', 'arg%d' % outcome_param):
                        continue      # delegates to another observing inspector's hook with the same outcome
                    if base != ('sym', 'arg%d' % outcome_param):
                        odd.append('returns %s' % render(p.ret)[:80])
                        continue
                    ev = [e for e in p.events if e[0].endswith('Gas::spend_all')]
                    for e in ev:
                        # accepted only under is_error() == true on this path, on the outcome's own gas
                        guard = any(sv[0] == 'call' and sv[1].endswith('InstructionResult::is_error') and lit != ('eq', 0) for (sv, lit, _f, _b) in p.lits)
                        tgt = render(e[1][0])
                        if not guard or 'result.gas' not in tgt:
                            odd.append('spend_all on %s without the is_error guard' % tgt[:60])
                    # the outcome handed by `&mut` to anything else (after helper inlining)
                    for e in p.events:
                        if e[0].endswith('Gas::spend_all'):
                            continue
                        callee = fx.fns.get(e[0])
                        short = e[0].split('::')[-1]
                        for i, a in enumerate(e[1]):
                            if a and a[0] == 'ref' and a[1][0] == 'local' and 'outcome' in (f.local_name(a[1][2]) or ''):
                                if callee is not None and i + 1 <= callee.argc:
                                    mutable = callee.local_ty(i + 1).startswith('&mut')
                                else:
                                    mutable = short not in STD_SHARED
                                if mutable:
                                    odd.append('passes the outcome mutably to %s' % short)
                if odd:
                    rep.violation('R3-observer-purity', key + ':outcome', '%s::%s does not return the outcome it was given unchanged: %s' % (who, f.name, sorted(set(odd))[:2]), f.where())
                elif not bad:
                    rep.ok('R3-observer-purity', key, 'no write through interp/context; returns its outcome')
            elif not bad:
                rep.ok('R3-observer-purity', key, 'no write through interp/context')
    rep.floor('observer-methods', n, 12)


def check_justification(fx, rep):
    """is_error is disjoint from the classes whose remaining gas is read"""
    import c09
    from c21 import enum_predicate
    f = fx.fns.get(c09.IR + '::is_error')
    if f is None:
        rep.undecided('R3-justification', 'is_error', 'not found')
        return
    tb = enum_predicate(fx, f, c09.IR)
    if tb is None:
        rep.undecided('R3-justification', 'is_error', 'not a table', f.where())
        return
    err = {k for k, v in tb.items() if v}
    clash = err & (c09.OK_REF | c09.REVERT_REF)
    if clash:
        rep.violation('R3-justification', 'is_error-disjoint', 'GasInspector spends all gas of outcomes whose result is_error(); %s are also ok/revert results whose remaining gas is handed back to the caller' % sorted(clash), f.where())
    else:
        rep.ok('R3-justification', 'is_error-disjoint', 'is_error (%d variants) is disjoint from ok and revert classes: the gas zeroed by GasInspector is never read' % len(err))


PANIC_SOURCES = ('::unwrap', '::expect', '::unwrap_unchecked', 'panicking::panic', 'panicking::panic_fmt', 'unwrap_failed', 'expect_failed',
                 'ruint::from::<impl ruint::Uint>::from', 'ruint::from::<impl ruint::Uint>::to', 'ruint::from::<impl ruint::Uint>::saturating_to')


def check_observers_cannot_panic(ctx, rep):
    """R5: an observing inspector that panics changes execution (the same transaction completes
    without it).  The hook bodies of the no-op, gas and EIP-3155 inspectors - and the helpers of
    their modules - contain no unwrap / expect / panic and no panicking integer conversion
    (ruint's `Uint::from` panics on a negative or too wide source, the refund counter is an i64)."""
    n = 0
    seen = set()
    for cfgn in ('default', 'serde-json'):
        fx = ctx.facts(cfgn)
        for g in fx.fns_all:
            nq = g.nq
            if '::test' in nq or not any(m in nq for m in ('revm::inspector::eip3155', 'revm::inspector::gas', 'revm::inspector::noop')):
                continue
            if nq in seen:
                continue
            seen.add(nq)
            n += 1
            rep.fn(g)
            for bi, t in g.calls():
                nm = t.target_fn or t.callee or ''
                if t.exp:
                    continue            # inside a macro expansion of the standard library (format!, write!)
                if any(nm.endswith(p) or p in nm for p in PANIC_SOURCES):
                    src = [(g.local_ty(a.place.b) or '?') if a.place is not None else 'const' for a in t.args[:1]]
                    if 'ruint::from' in nm and src and src[0] in ('u8', 'u16', 'u32', 'u64', 'usize', 'u128', 'bool'):
                        continue        # an unsigned source no wider than 256 bits always fits
                    who = nq.split('inspector::')[-1]
                    rep.violation('R5-observers-cannot-panic', who, '%s calls %s(%s), which can panic: with this inspector attached a transaction can abort that completes without it' % (who, nm.split('::')[-1] if 'ruint' not in nm else 'Uint::' + nm.split('::')[-1], ', '.join(src)), g.where(bi))
    rep.floor('R5-observer-functions', n, 20)
    if n:
        rep.ok('R5-observers-cannot-panic', 'all', '%d functions of the three observer modules' % n)
