"""CFG utilities over the MIR facts: dominance, edge dominance (guards), reachability,
must-pass-through, forward typestate dataflow, and value-origin chasing (A1, A2, A4, A7)."""
from collections import deque

from facts import Place, Operand, strip_generics


class CFG:
    def __init__(self, fn):
        self.fn = fn
        self.blocks = fn.blocks
        n = len(self.blocks)
        self.n = n
        self.succ = [[] for _ in range(n)]
        self.pred = [[] for _ in range(n)]
        for b in self.blocks:
            if b.cleanup:
                continue
            ss = []
            for s in b.term.succs(unwind=False):
                if s not in ss and not self.blocks[s].cleanup:
                    ss.append(s)
            self.succ[b.i] = ss
            for s in ss:
                self.pred[s].append(b.i)
        self.reach = self._reach_from(0)
        self.returns = [b.i for b in self.blocks if b.term.kind == 'return' and b.i in self.reach]
        self._dom = None

    # ------------------------------------------------------------------ reachability
    def _reach_from(self, start, banned_blocks=(), banned_edges=()):
        seen = set()
        if start in banned_blocks:
            return seen
        dq = deque([start])
        seen.add(start)
        while dq:
            b = dq.popleft()
            for s in self.succ[b]:
                if s in seen or s in banned_blocks or (b, s) in banned_edges:
                    continue
                seen.add(s)
                dq.append(s)
        return seen

    def reachable(self, a, b, banned_blocks=(), banned_edges=()):
        return b in self._reach_from(a, banned_blocks, banned_edges)

    def reach_set(self, a, banned_blocks=(), banned_edges=()):
        return self._reach_from(a, banned_blocks, banned_edges)

    # ------------------------------------------------------------------ dominators
    def dom(self):
        if self._dom is not None:
            return self._dom
        order = self._rpo()
        idx = {b: i for i, b in enumerate(order)}
        idom = {0: 0}
        changed = True
        while changed:
            changed = False
            for b in order[1:]:
                ps = [p for p in self.pred[b] if p in idom]
                if not ps:
                    continue
                new = ps[0]
                for p in ps[1:]:
                    new = self._intersect(idom, idx, p, new)
                if idom.get(b) != new:
                    idom[b] = new
                    changed = True
        self._dom = idom
        return idom

    @staticmethod
    def _intersect(idom, idx, a, b):
        while a != b:
            while idx[a] > idx[b]:
                a = idom[a]
            while idx[b] > idx[a]:
                b = idom[b]
        return a

    def _rpo(self):
        seen = set()
        order = []
        stack = [(0, iter(self.succ[0]))]
        seen.add(0)
        while stack:
            b, it = stack[-1]
            adv = False
            for s in it:
                if s not in seen:
                    seen.add(s)
                    stack.append((s, iter(self.succ[s])))
                    adv = True
                    break
            if not adv:
                order.append(b)
                stack.pop()
        order.reverse()
        return order

    def dominates(self, a, b):
        """block a dominates block b (every path entry->b passes a)"""
        idom = self.dom()
        if b not in idom:
            return False
        x = b
        while True:
            if x == a:
                return True
            if x == 0:
                return a == 0
            x = idom[x]

    def dominators(self, b):
        idom = self.dom()
        r = []
        if b not in idom:
            return r
        x = b
        while True:
            r.append(x)
            if x == 0:
                break
            x = idom[x]
        return r

    # ------------------------------------------------------------------ guards
    def edge_guards(self, site):
        """All (switch block, frozenset(values) or 'otherwise', target) edges that every path from
        entry to `site` must traverse.  values are the switch values leading to that target."""
        out = []
        for d in self.dominators(site):
            t = self.blocks[d].term
            if t.kind != 'switch' or d == site:
                continue
            targets = {}
            for v, tg in t.d['arms']:
                targets.setdefault(tg, []).append(v)
            targets.setdefault(t.d['otherwise'], []).append('otherwise')
            for tg, vals in targets.items():
                if not self.reachable(0, site, banned_edges={(d, tg)}):
                    out.append((d, tuple(vals), tg))
        return out

    def must_pass(self, start, through, targets, banned_edges=()):
        """True iff every path from `start` to any block in `targets` passes a block in `through`."""
        r = self._reach_from(start, banned_blocks=set(through), banned_edges=banned_edges)
        return not any(t in r for t in targets)

    def paths(self, start, ends, limit=20000, banned=()):
        """enumerate acyclic paths (lists of blocks) from start to any block in `ends`"""
        ends = set(ends)
        res = []
        stack = [(start, [start])]
        count = 0
        while stack:
            b, path = stack.pop()
            if b in ends:
                res.append(path)
                count += 1
                if count >= limit:
                    return res, False
                continue
            for s in self.succ[b]:
                if s in path or s in banned:
                    continue
                stack.append((s, path + [s]))
        return res, True

    # ------------------------------------------------------------------ forward dataflow
    def forward(self, init, transfer, edge=None, start=0, max_iter=100000):
        """May-analysis over sets of hashable abstract states.
        transfer(block_index, state) -> iterable of states after the block;
        edge(block_index, succ, state) -> state or None (infeasible) applied per out-edge.
        Returns (in_states, out_states) dicts: block -> set(states)."""
        ins = {start: {init}}
        outs = {}
        work = deque([start])
        it = 0
        while work:
            it += 1
            if it > max_iter:
                raise RuntimeError('dataflow did not converge')
            b = work.popleft()
            o = set()
            for st in ins.get(b, ()):
                for r in transfer(b, st):
                    o.add(r)
            if outs.get(b) == o:
                continue
            outs[b] = o
            for s in self.succ[b]:
                new = set()
                for st in o:
                    st2 = edge(b, s, st) if edge else st
                    if st2 is not None:
                        new.add(st2)
                cur = ins.setdefault(s, set())
                if not new <= cur:
                    cur |= new
                    if s not in work:
                        work.append(s)
                elif s not in outs and s not in work and new:
                    work.append(s)
        return ins, outs


def cfg_of(fn):
    if fn._cfg is None:
        fn._cfg = CFG(fn)
    return fn._cfg


# =========================================================================== value origin (A2)

TRANSPARENT_CALLS = (
    'core::ops::deref::Deref::deref', 'core::ops::deref::DerefMut::deref_mut',
    'core::clone::Clone::clone', 'core::convert::AsRef::as_ref', 'core::convert::AsMut::as_mut',
    'core::borrow::Borrow::borrow', 'core::borrow::BorrowMut::borrow_mut',
    'core::option::Option::as_ref', 'core::option::Option::as_mut',
    'core::option::Option::as_deref', 'core::option::Option::as_deref_mut',
    'core::convert::Into::into', 'core::convert::From::from',
    'core::result::Result::map_err',
    'ruint::from::<impl ruint::Uint>::from',      # U256::from(integer): value preserving
)
TRY_BRANCH = 'core::ops::try_trait::Try::branch'

UNWRAP_CALLS = {
    'core::option::Option::unwrap': '@Some', 'core::option::Option::expect': '@Some',
    'core::option::Option::unwrap_unchecked': '@Some',
    'core::result::Result::unwrap': '@Ok', 'core::result::Result::expect': '@Ok',
}


class Origin:
    """root: tuple describing where the value ultimately comes from; path: field path applied."""
    __slots__ = ('root', 'path')

    def __init__(self, root, path=()):
        self.root = root
        self.path = tuple(path)

    def ext(self, more):
        return Origin(self.root, self.path + tuple(more))

    def key(self):
        return (self.root, self.path)

    def __eq__(self, o):
        return isinstance(o, Origin) and self.key() == o.key()

    def __hash__(self):
        return hash(self.key())

    def kind(self):
        return self.root[0]

    def render(self):
        r = self.root
        k = r[0]
        if k == 'param':
            s = 'arg%d' % r[1]
        elif k == 'const':
            s = 'const(%s)' % (r[1],)
        elif k == 'call':
            s = 'call[%s@bb%d]' % (r[1].split('::')[-1], r[2])
        elif k == 'local':
            s = '_%d' % r[1]
        else:
            s = str(r)
        return s + ''.join(self.path)

    __repr__ = render


class Origins:
    """Reaching-definition chase for one function.  References are treated as aliases of the
    place they point to (derefs and borrows are dropped from paths)."""

    def __init__(self, fn, facts=None, depth=12):
        self.fn = fn
        self.facts = facts
        self.depth = depth
        self.defs = {}          # local -> list of (kind, bi, si) full definitions
        self.partial = {}       # local -> list of (path, bi, si)
        for b in fn.blocks:
            if b.cleanup:
                continue
            for si, s in enumerate(b.stmts):
                if s.kind == 'assign':
                    pl = s.place
                    if not pl.pr:
                        self.defs.setdefault(pl.b, []).append(('stmt', b.i, si))
                    elif '*' not in pl.pr:
                        self.partial.setdefault(pl.b, []).append((pl.pr, b.i, si))
            t = b.term
            if t.kind == 'call' and t.dest is not None:
                if not t.dest.pr:
                    self.defs.setdefault(t.dest.b, []).append(('call', b.i, None))
                elif '*' not in t.dest.pr:
                    self.partial.setdefault(t.dest.b, []).append((t.dest.pr, b.i, None))

    # ------------------------------------------------------------------
    def of_operand(self, op, depth=None):
        if op.kind == 'const':
            k = op.k
            if 'fn' in k:
                return [Origin(('fn', strip_generics(k['fn'])))]
            if 'i' in k:
                return [Origin(('const', k['i'], k.get('s')))]
            if 'promoted' in k:
                pf = self.fn.promoted(k['promoted'])
                if pf is not None:
                    po = Origins(pf, self.facts, depth=8).of_local(0, 8)
                    if po and all(x.root[0] in ('const', 'agg', 'fn') for x in po):
                        return po
            return [Origin(('const', None, k.get('static') or k.get('uneval') or k.get('s')))]
        if op.place is None:
            return [Origin(('unknown',))]
        return self.of_place(op.place, depth)

    def of_place(self, place, depth=None):
        depth = self.depth if depth is None else depth
        pr = tuple(p for p in place.pr if p != '*')
        if place.b == 1 and pr and self.fn.kind == 'Closure':
            # captured variables: name the environment field after the captured variable
            for uv in self.fn.upvars:
                up = tuple(p for p in uv['p']['pr'] if p != '*')
                if uv['p']['b'] == 1 and pr[:len(up)] == up:
                    pr = ('.' + uv['name'],) + pr[len(up):]
                    break
        res = []
        for o in self.of_local(place.b, depth):
            res.append(self._apply(o, pr))
        return res

    def _apply(self, o, pr):
        """apply a field path to an origin, selecting aggregate fields when possible"""
        for i, p in enumerate(pr):
            if o.root[0] == 'agg' and not o.path and p.startswith('.'):
                names, ops = o.root[3], o.root[4]
                nm = p[1:]
                idx = None
                if nm in names:
                    idx = names.index(nm)
                elif nm.isdigit() and int(nm) < len(ops) and not names:
                    idx = int(nm)
                if idx is not None and idx < len(ops) and ops[idx] is not None:
                    subs = ops[idx]
                    if len(subs) == 1:
                        o = subs[0]
                        continue
            if o.root[0] == 'agg' and not o.path and p.startswith('@'):
                continue  # downcast on a known aggregate: keep
            return o.ext(pr[i:])
        return o

    def of_local(self, l, depth):
        fn = self.fn
        if depth <= 0:
            return [Origin(('local', l))]
        if 1 <= l <= fn.argc:
            # parameters may be reassigned, but that is rare; treat defs as extra
            if l not in self.defs:
                return [Origin(('param', l))]
        ds = self.defs.get(l, [])
        if not ds:
            if l == 0:
                return [Origin(('ret',))]
            return [Origin(('local', l))]
        out = []
        for kind, bi, si in ds:
            if kind == 'stmt':
                out.extend(self._of_rvalue(fn.blocks[bi].stmts[si].rv, bi, si, depth - 1))
            else:
                out.extend(self._of_call(fn.blocks[bi].term, bi, depth - 1))
        if 1 <= l <= fn.argc:
            out.append(Origin(('param', l)))
        # dedupe
        seen = []
        for o in out:
            if o not in seen:
                seen.append(o)
        return seen

    def _of_rvalue(self, rv, bi, si, depth):
        k = rv.rv
        if k == 'use':
            return self.of_operand(rv.ops[0], depth)
        if k in ('ref', 'rawptr'):
            return self.of_place(rv.place, depth)
        if k == 'cast':
            kind = rv.d['kind']
            inner = self.of_operand(rv.ops[0], depth)
            if kind.startswith('PtrToPtr') or 'Unsize' in kind or 'Transmute' in kind or 'MutToConstPointer' in kind:
                return inner
            if 'ReifyFnPointer' in kind:
                return inner
            return [Origin(('cast', rv.d['ty'], tuple(inner)))]
        if k == 'bin':
            a = tuple(self.of_operand(rv.ops[0], depth))
            b = tuple(self.of_operand(rv.ops[1], depth))
            return [Origin(('bin', rv.op, a, b))]
        if k == 'un':
            a = tuple(self.of_operand(rv.ops[0], depth))
            return [Origin(('un', rv.op, a))]
        if k == 'discr':
            return [Origin(('discr', tuple(self.of_place(rv.place, depth))))]
        if k == 'agg':
            d = rv.d
            head = d.get('adt') or d.get('closure') or d['agg']
            head = strip_generics(head)
            names = tuple(d.get('names', []))
            ops = tuple(tuple(self.of_operand(o, depth)) for o in rv.ops)
            return [Origin(('agg', head, d.get('variant'), names, ops, bi, si))]
        return [Origin(('rv', k, bi, si))]

    def _of_call(self, t, bi, depth):
        names = t.names()
        for nm in names:
            if nm in TRANSPARENT_CALLS and t.args:
                # deref of a local wrapper with a known getter body: use its summary if available
                summ = self._getter_summary(t)
                base = self.of_operand(t.args[0], depth)
                if summ is not None:
                    return [o.ext(summ) for o in base]
                return base
            if nm == TRY_BRANCH and t.args:
                return [o.ext(('?',)) for o in self.of_operand(t.args[0], depth)]
            if nm in UNWRAP_CALLS and t.args:
                return [o.ext((UNWRAP_CALLS[nm],)) for o in self.of_operand(t.args[0], depth)]
        summ = self._getter_summary(t)
        if summ is not None and t.args:
            return [o.ext(summ) for o in self.of_operand(t.args[0], depth)]
        through = self._through_new_private(t, bi, depth)
        if through is not None:
            return through
        return [Origin(('call', t.target_fn or '?', bi))]

    def _through_new_private(self, t, bi, depth):
        """a value computed by a NEW small private helper (one that is not part of the pinned tree,
        i.e. the product of a refactor) is described by the helper's own return expression with the
        helper's parameters replaced by the arguments of this call; calls made inside the helper are
        attributed to the call site"""
        if self.facts is None or depth <= 0:
            return None
        try:
            from symx import KNOWN_PRIVATE
        except Exception:
            return None
        name = t.target_fn or ''
        g = self.facts.fns.get(name)
        if g is None or name in KNOWN_PRIVATE or not str(g.d.get('vis', '')).startswith('Restricted') \
                or len(g.blocks) > 16 or g.kind not in ('Fn', 'AssocFn') or g.nq == self.fn.nq:
            return None
        inner = Origins(g, self.facts)
        rets = inner.of_local(0, 6)

        def tr(o):
            r = o.root
            if r[0] == 'param':
                i = r[1] - 1
                if i >= len(t.args):
                    return None
                base = self.of_operand(t.args[i], depth)
                return [b.ext(o.path) if o.path else b for b in base]
            if r[0] == 'call':
                x = Origin(('call', r[1], bi))
                return [x.ext(o.path) if o.path else x]
            if r[0] == 'const':
                return [o]
            if r[0] == 'bin':
                a = trs(r[2])
                b = trs(r[3])
                if a is None or b is None:
                    return None
                return [Origin(('bin', r[1], tuple(a), tuple(b)))]
            if r[0] == 'un':
                a = trs(r[2])
                return None if a is None else [Origin(('un', r[1], tuple(a)))]
            if r[0] == 'cast':
                a = trs(r[2])
                return None if a is None else [Origin(('cast', r[1], tuple(a)))]
            return None

        def trs(os_):
            out = []
            for x in os_:
                y = tr(x)
                if y is None:
                    return None
                out.extend(y)
            return out
        return trs(rets)

    _summ_cache = {}

    def _getter_summary(self, t):
        """If the (resolved) callee is a crate-local function that merely returns a field path of
        its first parameter, return that path."""
        if self.facts is None:
            return None
        name = t.res or t.callee
        if not name:
            return None
        key = (id(self.facts), name)
        if key in Origins._summ_cache:
            return Origins._summ_cache[key]
        Origins._summ_cache[key] = None
        f = self.facts.fns.get(name)
        r = None
        if f is not None and f.argc >= 1 and len(f.blocks) <= 6:
            # pure: no calls except transparent ones
            ok = True
            for b in f.blocks:
                if b.cleanup:
                    continue
                if b.term.kind == 'call':
                    if not any(n in TRANSPARENT_CALLS for n in b.term.names()):
                        ok = False
                elif b.term.kind not in ('return', 'goto', 'unreachable'):
                    ok = False
                for s in b.stmts:
                    if s.kind == 'assign' and '*' in s.place.pr:
                        ok = False
            if ok:
                og = Origins(f, None, depth=8)
                rs = og.of_local(0, 8)
                if len(rs) == 1 and rs[0].root == ('param', 1):
                    r = rs[0].path
        Origins._summ_cache[key] = r
        return r


def origin_is_param_path(o, idx, path_suffix=None):
    if o.root != ('param', idx):
        return False
    if path_suffix is None:
        return True
    ps = tuple(path_suffix)
    return o.path[-len(ps):] == ps if ps else True


# =========================================================================== guards (A7)

class Guard:
    """One dominating branch edge: every path to the site takes switch block `sb` to `target`."""

    def __init__(self, fn, og, sb, vals, target):
        self.fn = fn
        self.sb = sb
        self.vals = vals
        self.target = target
        t = fn.blocks[sb].term
        self.term = t
        self.discr = og.of_operand(t.switch_discr())
        self.dty = t.d.get('dty')

    def truth(self):
        """for boolean switches: the truth value taken, else None"""
        if self.dty != 'bool':
            return None
        if self.vals == (0,):
            return False
        if self.vals == ('otherwise',):
            listed = [v for v, _ in self.term.d['arms']]
            if listed == [0]:
                return True
            if listed == [1]:
                return False
        if self.vals == (1,):
            return True
        return None

    def render(self):
        return 'bb%d:%s -> %s' % (self.sb, [o.render() for o in self.discr], self.vals)

    __repr__ = render


def _flag_def_blocks(fn, og, local, depth=0):
    """if `local` is a boolean flag assigned only constants (the shape `matches!` and `&&`/`||`
    lower to), return {value: [blocks assigning it]} else None"""
    ds = og.defs.get(local, [])
    if not ds:
        return None
    out = {}
    for kind, bi, si in ds:
        if kind != 'stmt':
            return None
        rv = fn.blocks[bi].stmts[si].rv
        if rv.rv != 'use':
            return None
        op = rv.ops[0]
        if op.kind == 'const' and op.const_int() is not None:
            out.setdefault(int(op.const_int()), []).append(bi)
        elif op.place is not None and not op.place.pr and depth < 2 and len(ds) == 1:
            return _flag_def_blocks(fn, og, op.place.b, depth + 1)
        else:
            return None
    return out


def guards_of(fn, og, site, _depth=0):
    """dominating branch edges of `site`; a guard on a materialised boolean flag (matches!, &&, ||)
    is expanded into the guards of the block(s) that set the flag to the taken value"""
    cfg = cfg_of(fn)
    res = [Guard(fn, og, sb, vals, tg) for sb, vals, tg in cfg.edge_guards(site)]
    if _depth >= 3:
        return res
    extra = []
    for g in res:
        tv = g.truth()
        if tv is None:
            continue
        d = g.term.switch_discr()
        if d.place is None or d.place.pr:
            continue
        fd = _flag_def_blocks(fn, og, d.place.b)
        if not fd:
            continue
        blocks = fd.get(1 if tv else 0, [])
        if not blocks:
            continue
        sets = []
        for b in blocks:
            sets.append(guards_of(fn, og, b, _depth + 1))
        if len(sets) == 1:
            extra.extend(sets[0])
        else:
            # keep the guards common to every block that sets the flag to this value
            first = sets[0]
            for x in first:
                if all(any(y.sb == x.sb and y.vals == x.vals for y in s) for s in sets[1:]):
                    extra.append(x)
            # and merged guards: same switch block, different value sets -> union of values
            by_sb = {}
            for s in sets:
                for y in s:
                    by_sb.setdefault(y.sb, []).append(y)
            for sb, ys in by_sb.items():
                if len(ys) == len(sets) and len({y.vals for y in ys}) > 1:
                    merged = Guard(fn, og, sb, tuple(sorted({v for y in ys for v in y.vals}, key=str)), ys[0].target)
                    extra.append(merged)
    seen = set()
    out = []
    for g in res + extra:
        k = (g.sb, g.vals)
        if k not in seen:
            seen.add(k)
            out.append(g)
    return out


def origin_calls(o, name_suffix):
    """does origin o come from a call whose callee ends with name_suffix?"""
    return o.root[0] == 'call' and (o.root[1] == name_suffix or o.root[1].endswith(name_suffix))
