"""C21 — creation collides with any address that has code, nonce or storage (EIP-7610).

R1 collision decision in create_account_checkpoint: the non-colliding continuation is guarded by
   code_hash == KECCAK_EMPTY, nonce == 0 and !address_has_storage; the colliding exit returns
   Err(CreateCollision) after reverting (pairing itself is C07's summary rule);
R2 in make_create_frame / make_eofcreate_frame the address_has_storage argument originates from
   Database::has_storage(db, created_address) with the same address value that is created, and the
   query precedes (dominates) account creation;
R3 CreateCollision is neither an ok nor a revert result (so the gas passed is consumed) at the
   classification macros' use sites of the create outcome path;
R4 every database wrapper answers the has-storage query itself (C20 R1 restricted to has_storage*).
"""
from cfg import cfg_of, Origins, guards_of, origin_calls
import c20

META = {
    'level': 'other',
    'decides': 'the three-way collision guard and its result; that the has-storage argument is the database\'s answer for the created address; that no database wrapper answers the query with the trait default',
    'does_not_decide': 'that an implementor\'s own has_storage answer is correct; post-state equality at the target',
    'explanation': 'Dominating-guard extraction (A7) on create_account_checkpoint, value-origin analysis (A2) of the has-storage argument in both create constructors, sibling-impl rule shared with C20.',
}

JS = 'revm::journaled_state::JournaledState::'
CAC = JS + 'create_account_checkpoint'
KECCAK_EMPTY_BYTES = bytes.fromhex('c5d2460186f7233c927e7db2dcc703c0e500b653ca82273b7bfad8045d85a470')


def run(ctx, rep):
    fx = ctx.facts('default')
    cac = fx.fns.get(CAC)
    if cac is None:
        rep.undecided('R1-collision-guard', 'create_account_checkpoint', 'anchor not found')
    else:
        rep.fn(cac)
        check_collision_guard(fx, cac, rep)
    check_state_answers_from_cache(fx, rep)

    n_sites = 0
    for nq in ('revm::context::evm_context::EvmContext::make_create_frame',
               'revm::context::evm_context::EvmContext::make_eofcreate_frame'):
        fn = fx.fns.get(nq)
        if fn is None:
            rep.undecided('R2-has-storage-origin', nq.split('::')[-1], 'anchor not found')
            continue
        rep.fn(fn)
        og = Origins(fn, fx)
        cfg = cfg_of(fn)
        sites = [(bi, t) for bi, t in fn.calls() if t.target_fn == CAC]
        if len(sites) != 1:
            rep.undecided('R2-has-storage-origin', fn.name, 'expected one create_account_checkpoint call, found %d' % len(sites), fn.where())
            continue
        n_sites += 1
        bi, t = sites[0]
        # args: self, caller, address, address_has_storage, balance, spec_id
        addr_o = og.of_operand(t.args[2])
        hs_o = og.of_operand(t.args[3])
        key = fn.name
        ok = True
        hs_calls = []
        for o in hs_o:
            if origin_calls(o, 'db::Database::has_storage'):
                hs_calls.append(o.root[2])
            else:
                ok = False
        if not ok or not hs_calls:
            rep.violation('R2-has-storage-origin', key + ':origin',
                          'address_has_storage passed to create_account_checkpoint is %s, not the result of Database::has_storage' % [o.render() for o in hs_o], fn.where(bi))
            continue
        good = True
        for cb in hs_calls:
            ht = fn.blocks[cb].term
            q_addr = og.of_operand(ht.args[1])
            if set(q_addr) != set(addr_o):
                good = False
                rep.violation('R2-has-storage-origin', key + ':same-address',
                              'has_storage is asked about %s but the account created is %s' % ([o.render() for o in q_addr], [o.render() for o in addr_o]), fn.where(cb))
            # receiver is the context's database
            recv = og.of_operand(ht.args[0])
            if not all(o.root == ('param', 1) and o.path[-1:] == ('.db',) for o in recv):
                good = False
                rep.violation('R2-has-storage-origin', key + ':receiver', 'has_storage receiver is %s, not the context database' % recv, fn.where(cb))
            if not cfg.dominates(cb, bi):
                good = False
                rep.violation('R2-has-storage-origin', key + ':dominates', 'the has_storage query does not dominate create_account_checkpoint', fn.where(cb))
            # a database error propagates: the `?` Break edge reaches a return without the creation
            if not og.of_operand(t.args[3])[0].path[:1] == ('?',):
                good = False
                rep.violation('R2-has-storage-origin', key + ':error-propagates', 'the has_storage result is not unwrapped with `?` (a database error would be dropped)', fn.where(cb))
        if good:
            rep.ok('R2-has-storage-origin', key, 'has_storage(db, %s) -> create_account_checkpoint' % addr_o[0].render())
    rep.floor('create-sites', n_sites, 2)

    check_collision_class(fx, rep)

    # R4
    n = 0
    for im in fx.impls:
        tr = im.get('trait', '')
        if not tr.endswith(c20.DB_TRAITS):
            continue
        if not c20.wraps_database(im):
            continue
        n += 1
        key = '%s as %s' % (c20.short_self(im['self']), tr.split('::')[-1])
        inh = [m for m in im['inherited'] if m.startswith('has_storage')]
        if inh:
            rep.violation('R4-wrappers-answer', '%s:%s' % (key, inh[0]),
                          '%s inherits `%s` (always false): a collision with storage held behind this wrapper is missed' % (im['self'], inh[0]),
                          '%s:%s' % (im['file'], im['line']))
        else:
            rep.ok('R4-wrappers-answer', key)
    rep.floor('database-wrapper-impls', n, 13)
    # the caching wrapper's own answer: forwarded for exactly the account states in which the wrapped
    # database still holds the storage
    ng = c20.check_cleared_guard(fx, rep, rule='R4-cachedb-has-storage-guard', only=('has_storage_ref', 'has_storage'))
    rep.floor('cachedb-has-storage-guards', ng, 1)
    rep.assume('leaf databases may answer has_storage with the default; an implementor\'s own answer is trusted')


def check_state_answers_from_cache(fx, rep):
    """R5: the block-state database holds the slots written earlier in its own cache.  State::
    has_storage must look at them before any other answer: with a cached account present, `false`
    (or the question to the wrapped database) is only reached after the scan of the cached slots
    found no non-zero value, and a hit answers `true`."""
    from symx import Symx, Budget, render
    g = None
    for x in fx.fns_all:
        if x.name == 'has_storage' and (x.impl_self or '').startswith('revm::db::states::state::State') and (x.impl_trait or '').endswith('::Database'):
            g = x
    if g is None:
        rep.undecided('R5-state-has-storage', 'State::has_storage', 'impl not found')
        return
    rep.fn(g)
    try:
        rs = Symx(fx, max_paths=2000, snapshot_refs=True).run(g)
    except Budget:
        rep.undecided('R5-state-has-storage', 'State::has_storage', 'path budget', g.where())
        return
    problems = []
    seen_true = False
    for r in rs:
        ret = render(r.ret)
        if ret.startswith('Result::Err'):
            continue
        cached = None
        scan = None
        for (sv, lit, _f, _b) in r.lits:
            txt = render(sv)
            if txt.startswith('discr(') and '.account' in c15_deep(sv) and 'load_cache_account' in c15_deep(sv):
                cached = (lit == ('eq', 1))
            if txt.startswith('any('):
                scan = (lit != ('eq', 0))
        if ret == 'Result::Ok{0: 1}':
            if scan is True:
                seen_true = True
            else:
                problems.append('`true` is answered without a non-zero cached slot')
            continue
        if cached is not False and scan is not False:
            problems.append('with a cached account present, %s is reached without scanning the cached slots first (a storage-known account with non-zero slots would be reported empty)' % ('`false`' if ret == 'Result::Ok{0: 0}' else 'the wrapped database'))
    if not seen_true:
        problems.append('no path answers `true` from the cached slots')
    if problems:
        rep.violation('R5-state-has-storage', 'State::has_storage', 'State::has_storage: ' + sorted(set(problems))[0], g.where())
    else:
        rep.ok('R5-state-has-storage', 'State::has_storage', 'cached slots first, then storage knowledge, then the wrapped database')


def c15_deep(v):
    import c15
    return c15.render_deep(v)


def check_collision_guard(fx, cac, rep):
    og = Origins(cac, fx)
    cfg = cfg_of(cac)
    # continuation marker: the call that marks the account created
    cont = [bi for bi, t in cac.calls() if (t.target_fn or '').endswith('Account::mark_created')]
    if len(cont) != 1:
        rep.undecided('R1-collision-guard', 'continuation', 'mark_created call not found exactly once', cac.where())
        return
    gs = guards_of(cac, og, cont[0])
    want = {'code_hash': False, 'nonce': False, 'has_storage': False}
    found = {}
    has_storage_param = [i for i in range(1, cac.argc + 1) if cac.local_name(i) == 'address_has_storage' or (cac.local_ty(i) == 'bool')]
    for g in gs:
        tv = g.truth()
        for o in g.discr:
            r = o.root
            if r[0] == 'call' and r[1].endswith('PartialEq::ne'):
                t = cac.blocks[r[2]].term
                a = og.of_operand(t.args[0])
                b = og.of_operand(t.args[1])
                if any(x.path[-2:] == ('.info', '.code_hash') for x in a) and is_keccak_empty(fx, b):
                    found['code_hash'] = (tv, g.sb)
            elif r[0] == 'call' and r[1].endswith('PartialEq::eq'):
                t = cac.blocks[r[2]].term
                a = og.of_operand(t.args[0])
                b = og.of_operand(t.args[1])
                if any(x.path[-2:] == ('.info', '.code_hash') for x in a) and is_keccak_empty(fx, b):
                    found['code_hash'] = (None if tv is None else (not tv), g.sb)
            elif r[0] == 'bin' and r[1] in ('Ne', 'Eq'):
                a, b = r[2], r[3]
                if any(x.path[-2:] == ('.info', '.nonce') for x in a) and all(x.root[0] == 'const' and x.root[1] == 0 for x in b):
                    v = tv if r[1] == 'Ne' else (None if tv is None else (not tv))
                    found['nonce'] = (v, g.sb)
            elif r[0] == 'param' and not o.path and r[1] in has_storage_param and cac.local_ty(r[1]) == 'bool':
                found['has_storage'] = (tv, g.sb)
    for k in want:
        key = 'create_account_checkpoint:guard:%s' % k
        if k not in found:
            rep.violation('R1-collision-guard', key, 'account creation continues without testing the `%s` collision condition' % k, cac.where(cont[0]))
        elif found[k][0] is not False:
            rep.violation('R1-collision-guard', key + ':polarity', 'creation continues when the `%s` collision condition is %s' % (k, found[k][0]), cac.where(found[k][1]))
        else:
            rep.ok('R1-collision-guard', key, 'continuation requires %s-collision == false' % k)
    # the colliding branch yields Err(CreateCollision)
    coll = []
    for b in cac.blocks:
        for s in b.stmts:
            if s.kind == 'assign' and s.rv.rv == 'agg' and s.rv.d.get('variant') == 'CreateCollision':
                coll.append(b.i)
    if not coll:
        rep.violation('R1-collision-guard', 'create_account_checkpoint:result', 'no path produces CreateCollision', cac.where())
    else:
        # each guard's other edge must reach a CreateCollision block without reaching the continuation
        for k, (tv, sb) in found.items():
            t = cac.blocks[sb].term
            other = [s for s in cfg.succ[sb] if cfg.reachable(s, cont[0]) is False]
            good = any(any(c in cfg.reach_set(s) for c in coll) for s in other)
            key = 'create_account_checkpoint:collision-result:%s' % k
            if good:
                rep.ok('R1-collision-guard', key, 'collision branch produces CreateCollision')
            else:
                rep.violation('R1-collision-guard', key, 'the `%s` collision branch does not produce CreateCollision' % k, cac.where(sb))


def is_keccak_empty(fx, origins):
    for o in origins:
        r = o.root
        if r[0] == 'const':
            s = r[2] or ''
            if 'KECCAK_EMPTY' in s:
                v = fx.const_val('revm_primitives::constants::KECCAK_EMPTY') or fx.const_val('KECCAK_EMPTY')
                bs = const_bytes(v)
                return bs == KECCAK_EMPTY_BYTES
    return False


def const_bytes(v):
    """flatten a destructured FixedBytes / array constant into bytes"""
    if v is None:
        return None
    if isinstance(v, int):
        return bytes([v])
    if isinstance(v, dict):
        if 'fields' in v:
            out = b''
            for f in v['fields']:
                bs = const_bytes(f)
                if bs is None:
                    return None
                out += bs
            return out
        if 'bytes' in v:
            return bytes(v['bytes'])
    return None


def check_collision_class(fx, rep):
    """R3: CreateCollision is in neither the ok nor the revert class of InstructionResult."""
    for name, want in (('is_ok', False), ('is_revert', False), ('is_error', True)):
        f = fx.fns.get('revm_interpreter::instruction_result::InstructionResult::' + name)
        if f is None:
            rep.undecided('R3-collision-class', name, 'InstructionResult::%s not found' % name)
            continue
        rep.fn(f)
        got = enum_predicate(fx, f, 'revm_interpreter::instruction_result::InstructionResult')
        if got is None:
            rep.undecided('R3-collision-class', name, 'could not read %s as a table' % name, f.where())
            continue
        v = got.get('CreateCollision')
        if v == want:
            rep.ok('R3-collision-class', 'CreateCollision:%s=%s' % (name, want))
        else:
            rep.violation('R3-collision-class', 'CreateCollision:%s' % name, 'InstructionResult::CreateCollision.%s() is %s; a collision must consume the gas passed (error class)' % (name, v), f.where())


def enum_predicate(fx, f, adt_q):
    """Read `fn(self) -> bool` implemented as a match on the enum discriminant: variant -> bool."""
    adt = fx.adts.get(adt_q) or fx.adt(adt_q)
    if adt is None:
        return None
    cfg = cfg_of(f)
    sw = [b for b in f.blocks if b.term.kind == 'switch' and not b.cleanup]
    if len(sw) != 1:
        return None
    t = sw[0].term

    def leaf(bi, depth=0):
        b = f.blocks[bi]
        for s in b.stmts:
            if s.kind == 'assign' and s.place.b == 0 and not s.place.pr and s.rv.rv == 'use':
                ci = s.rv.ops[0].const_int()
                if ci is not None:
                    return bool(ci)
        if b.term.kind == 'goto' and depth < 4:
            return leaf(b.term.d['target'], depth + 1)
        return None
    res = {}
    arms = dict((v, tg) for v, tg in t.d['arms'])
    for i, v in enumerate(adt['variants']):
        d = v.get('discr', i)
        tg = arms.get(d, t.d['otherwise'])
        res[v['name']] = leaf(tg)
    if any(x is None for x in res.values()):
        return None
    return res
