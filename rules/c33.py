"""C33 — Optimism transactions charge and distribute fees consistently (cfg `optimism`).

The ether sum over arbitrary executions is not decided as such; it reduces to identities between
the amounts the handlers debit and credit, and those are decided:
R1 operator fee identity: charge(gas_limit) debited up front minus operator_fee_refund(gas)
   credited back equals charge(gas used) paid to the operator vault - the two L1BlockInfo
   functions are extracted as expressions and evaluated on a grid of (scalar, constant, limit,
   remaining, refunded), before and from ISTHMUS;
R2 L1 cost: balance check, debit and vault credit all use calculate_tx_l1_cost(enveloped_tx,
   SPEC_ID) (one cached value);
R3 routing, non-deposit: deduct_caller debits the L1 cost and charge(U256(tx.gas_limit));
   reimburse_caller adds operator_fee_refund(gas) to the caller after the mainnet reimbursement;
   reward_beneficiary pays the beneficiary through the mainnet handler, the L1 cost to the L1 fee
   vault, basefee * (spent - refunded) to the base fee vault and charge(spent - refunded) to the
   operator fee vault, each vault being the predeploy address;
R4 the balance check of validate_tx_against_state adds up every amount deduct_caller debits
   (gas_limit * gas_price, value, L1 cost, operator charge, blob fee), so the saturating
   subtractions never clip;
R5 deposits: no L1 / operator / vault movements; the mint is added before the gas deduction; a
   failed deposit (end handler) commits exactly the caller with nonce + 1 and balance + mint.
"""
import itertools

from symx import Symx, Budget, K, render, lit_truth
import c23

META = {
    'level': 'other',
    'decides': 'the operator-fee refund identity (on a value grid of the extracted expressions), that debit and credit of the L1 cost come from the same call, the routing of each fee to its predeploy vault with the gas-used amount, that the balance check covers every debit, and the deposit branches',
    'does_not_decide': 'the L1 cost formulas themselves (Bedrock/Ecotone/Fjord scalars, FastLZ estimate), and the ether sum over whole executions (it follows from these identities and from C08/C09 for the mainnet part)',
    'explanation': 'Path enumeration of the Optimism handlers in the optimism build; event sequences (load_account -> credit) with symbolic amounts; grid evaluation of operator_fee_charge / operator_fee_refund.',
}

H = 'revm::optimism::handler_register::'
L1 = 'revm::optimism::l1block::L1BlockInfo::'
VAULTS = {
    'L1_FEE_RECIPIENT': 0x420000000000000000000000000000000000001A,
    'BASE_FEE_RECIPIENT': 0x4200000000000000000000000000000000000019,
    'OPERATOR_FEE_RECIPIENT': 0x420000000000000000000000000000000000001B,
}


def run(ctx, rep):
    fx = ctx.facts('optimism')
    check_operator_identity(fx, rep)
    check_routing(fx, rep)
    check_balance_check(fx, rep)
    check_deposits(fx, rep)
    check_register_wiring(fx, rep)
    rep.assume('the beneficiary payment and the gas reimbursement of the mainnet handlers are decided in C09; balances do not overflow (C08 F7)')


# ------------------------------------------------------------------ R1

def fee_paths(fx, name):
    f = fx.fns.get(L1 + name)
    if f is None:
        return None, None
    inline = {L1 + 'operator_fee_charge'} - {L1 + name}
    rs = Symx(fx, max_paths=500, snapshot_refs=True, inline=inline, pure={'revm_primitives::specification::SpecId::is_enabled_in'}).run(f)
    return f, rs


def eval_fee(rs, env, isthmus):
    out = set()
    for r in rs:
        ok = True
        for (sv, lit, _f, _b) in r.lits:
            txt = render(sv)
            if 'is_enabled_in' in txt:
                if lit_truth(lit) != isthmus:
                    ok = False
            else:
                try:
                    v = c23.ev(sv, env)
                except c23.NoValue:
                    continue
                if (lit[0] == 'eq' and v != lit[1]) or (lit[0] == 'ne' and v in lit[1]):
                    ok = False
        if ok:
            ret = r.ret
            if ret[0] == 'sym' and str(ret[1]).endswith('Uint::ZERO'):
                out.add(0)
            else:
                out.add(c23.ev(ret, env))
    return out


def check_operator_identity(fx, rep):
    fc, charge = fee_paths(fx, 'operator_fee_charge')
    fr, refund = fee_paths(fx, 'operator_fee_refund')
    if charge is None or refund is None:
        rep.undecided('R1-operator-fee-identity', 'functions', 'operator_fee_charge / operator_fee_refund not found')
        return
    rep.fn(fc)
    rep.fn(fr)
    S = 'arg1.operator_fee_scalar@Some.0'
    Cn = 'arg1.operator_fee_constant@Some.0'
    bad = None
    cells = 0
    for isthmus in (False, True):
        for s, c, limit, rem, rfd in itertools.product((0, 1, 999999, 1000000, 1500000, 12345678), (0, 7, 10 ** 9),
                                                       (21000, 100000, 30000000), (0, 1, 20999, 50000), (0, 1, 4800)):
            if rem + rfd > limit:
                continue
            calls = {'remaining': lambda sv, env, v=rem: v, 'refunded': lambda sv, env, v=rfd: v, 'limit': lambda sv, env, v=limit: v,
                     'spent': lambda sv, env, v=limit - rem: v}
            try:
                up_front = eval_fee(charge, {S: s, Cn: c, 'arg2': limit, '__calls__': calls}, isthmus)
                used = eval_fee(charge, {S: s, Cn: c, 'arg2': limit - rem - rfd, '__calls__': calls}, isthmus)
                back = eval_fee(refund, {S: s, Cn: c, '__calls__': calls}, isthmus)
            except c23.NoValue as e:
                bad = 'expressions not evaluable (%s)' % e
                break
            cells += 1
            if len(up_front) != 1 or len(used) != 1 or len(back) != 1:
                bad = 'ambiguous paths'
                break
            a, u, b = list(up_front)[0], list(used)[0], list(back)[0]
            if a - b != u:
                bad = ('%s ISTHMUS, scalar=%d constant=%d gas_limit=%d remaining=%d refunded=%d: the caller is charged %d up front and refunded %d, a net %d, '
                       'while the operator vault receives %d') % ('from' if isthmus else 'before', s, c, limit, rem, rfd, a, b, a - b, u)
                break
        if bad:
            break
    if bad:
        rep.violation('R1-operator-fee-identity', 'charge(limit)-refund(gas)=charge(used)', 'operator fee: ' + bad, fr.where())
    else:
        rep.ok('R1-operator-fee-identity', 'charge(limit)-refund(gas)=charge(used)', '%d grid cells' % cells)


# ------------------------------------------------------------------ R2 / R3

def addr_of(v):
    """integer value of an Address constant"""
    txt = render(v)
    import re
    m = re.search(r'tuple\(([0-9, ]+)\)', txt)
    if not m:
        return None
    n = 0
    for x in m.group(1).split(','):
        n = (n << 8) | int(x)
    return n


def handler_paths(fx, name):
    f = fx.fns.get(H + name)
    if f is None:
        return None, []
    return f, Symx(fx, max_paths=6000, snapshot_refs=True, spec=255).run(f)


def deposit_flag(r):
    """True if the path is a deposit (source_hash is Some)"""
    for (sv, lit, _f, _b) in r.lits:
        txt = render(sv)
        if 'source_hash' in txt or txt.startswith(('is_none(&deref(', 'is_some(&deref(')):
            tv = lit_truth(lit)
            if txt.startswith('is_none('):
                return not tv
            if txt.startswith('is_some('):
                return tv
    return None


def check_routing(fx, rep):
    # deduct_caller
    f, rs = handler_paths(fx, 'deduct_caller')
    if f is None:
        rep.undecided('R3-routing', 'deduct_caller', 'not found')
    else:
        rep.fn(f)
        problems = []
        n = 0
        for r in rs:
            if r.ret[0] == 'agg' and r.ret[2] == 'Err':
                continue
            dep = deposit_flag(r)
            ev = [(e[0].split('::')[-1], e) for e in r.events]
            names = [x for x, _ in ev]
            l1 = [e for x, e in ev if x == 'calculate_tx_l1_cost']
            oc = [e for x, e in ev if x == 'operator_fee_charge']
            n += 1
            if dep:
                if l1 or oc:
                    problems.append('a deposit is charged an L1 / operator fee')
            else:
                if len(l1) != 1 or 'enveloped_tx' not in render(l1[0][1][1]):
                    problems.append('the L1 cost debited is not calculate_tx_l1_cost(enveloped_tx, ..)')
                if len(oc) != 1 or 'tx.gas_limit' not in render(oc[0][1][1]):
                    problems.append('the operator fee debited is not charge(tx.gas_limit)')
                bal = [v for (root, path), v in r.stores.items() if path and path[-1] == '.balance']
                txt = render(bal[-1]) if bal else ''
                if txt.count('saturating_sub(') < 2 or 'calculate_tx_l1_cost' not in c23_render(bal[-1] if bal else ('sym', '')) or 'operator_fee_charge' not in c23_render(bal[-1] if bal else ('sym', '')):
                    problems.append('the caller balance is not reduced by both the L1 cost and the operator charge')
            # mint before the gas deduction
            if 'add_assign' in names and 'deduct_caller_inner' in names and names.index('add_assign') > names.index('deduct_caller_inner'):
                problems.append('the mint is added after the gas deduction')
            if 'deduct_caller_inner' not in names:
                problems.append('the mainnet gas deduction is skipped')
        if n < 4:
            problems.append('only %d paths recognised' % n)
        if problems:
            rep.violation('R3-routing', 'deduct_caller', 'optimism deduct_caller: ' + sorted(set(problems))[0], f.where())
        else:
            rep.ok('R3-routing', 'deduct_caller', 'mint, gas, then (non-deposit) L1 cost and charge(gas_limit)')
    # reimburse_caller
    f, rs = handler_paths(fx, 'reimburse_caller')
    if f is None:
        rep.undecided('R3-routing', 'reimburse_caller', 'not found')
    else:
        rep.fn(f)
        problems = []
        seen = set()
        for r in rs:
            if r.ret[0] == 'agg' and r.ret[2] == 'Err':
                continue
            dep = deposit_flag(r)
            names = [e[0].split('::')[-1] for e in r.events]
            seen.add(dep)
            if 'reimburse_caller' not in names:
                problems.append('the mainnet reimbursement is skipped')
            rf = [e for e in r.events if e[0].endswith('operator_fee_refund')]
            if dep and rf:
                problems.append('a deposit receives an operator fee refund')
            if dep is False:
                if len(rf) != 1 or render(rf[0][1][1]) not in ('&arg2', 'arg2', "&('arg', 2)"):
                    problems.append('the refund is not operator_fee_refund(gas) of the final gas')
                la = [e for e in r.events if e[0].endswith('JournaledState::load_account')]
                if not la or 'tx.caller' not in render(la[-1][1][1]):
                    problems.append('the operator fee refund is not credited to the caller')
                bal = [v for (root, path), v in r.stores.items() if path and path[-1] == '.balance']
                if not bal or 'operator_fee_refund' not in c23_render(bal[-1]) or not render(bal[-1]).startswith('saturating_add('):
                    problems.append('the caller balance is not increased by the refund')
        if seen != {True, False}:
            problems.append('deposit / non-deposit paths not recognised')
        if problems:
            rep.violation('R3-routing', 'reimburse_caller', 'optimism reimburse_caller: ' + sorted(set(problems))[0], f.where())
        else:
            rep.ok('R3-routing', 'reimburse_caller', 'mainnet reimbursement, then operator_fee_refund(gas) to the caller')
    # reward_beneficiary
    f, rs = handler_paths(fx, 'reward_beneficiary')
    if f is None:
        rep.undecided('R3-routing', 'reward_beneficiary', 'not found')
        return
    rep.fn(f)
    problems = []
    seen = set()
    used = 'Sub(spent(&arg2), (refunded(&arg2) as u64))'
    for r in rs:
        if r.ret[0] == 'agg' and r.ret[2] == 'Err':
            continue
        dep = deposit_flag(r)
        seen.add(dep)
        credits = {}
        cur = None
        mainnet = False
        for e in r.events:
            short = e[0].split('::')[-1]
            if e[0].endswith('mainnet::post_execution::reward_beneficiary') or (short == 'reward_beneficiary' and 'mainnet' in e[0]):
                mainnet = True
            if e[0].endswith('JournaledState::load_account'):
                cur = addr_of(e[1][1])
            if short == 'add_assign' and cur is not None:
                credits.setdefault(cur, []).append(e[1][1])
        if dep:
            if mainnet or credits:
                problems.append('a deposit pays fees (%s)' % ('beneficiary' if mainnet else 'vaults'))
            continue
        if not mainnet:
            problems.append('the beneficiary is not paid through the mainnet handler')
        for vname, addr in VAULTS.items():
            c = fx.consts.get('revm::optimism::l1block::' + vname) or fx.consts.get('revm::optimism::' + vname)
            if addr not in credits:
                problems.append('%s (0x%040x) receives nothing' % (vname, addr))
                continue
            amt = c23_render(credits[addr][0])
            if vname == 'L1_FEE_RECIPIENT' and not ('calculate_tx_l1_cost' in amt and 'enveloped_tx' in amt):
                problems.append('the L1 fee vault receives %s, not calculate_tx_l1_cost(enveloped_tx, ..)' % amt[:60])
            if vname == 'BASE_FEE_RECIPIENT' and not ('basefee' in amt and used in amt and amt.startswith('mul(')):
                problems.append('the base fee vault receives %s, not basefee * (spent - refunded)' % amt[:80])
            if vname == 'OPERATOR_FEE_RECIPIENT' and not (amt.startswith('operator_fee_charge(') and used in amt):
                problems.append('the operator fee vault receives %s, not charge(spent - refunded)' % amt[:80])
        extra = set(credits) - set(VAULTS.values())
        if extra:
            problems.append('unexpected credit to %s' % sorted('0x%040x' % x for x in extra))
    if seen != {True, False}:
        problems.append('deposit / non-deposit paths not recognised')
    if problems:
        rep.violation('R3-routing', 'reward_beneficiary', 'optimism reward_beneficiary: ' + sorted(set(problems))[0], f.where())
    else:
        rep.ok('R3-routing', 'reward_beneficiary', 'beneficiary (mainnet), L1 cost, basefee*used, charge(used) to the three predeploy vaults')


def render_origin(o):
    return o.render() if hasattr(o, 'render') else str(o)


def c23_render(v, depth=0):
    """deep render (symx.render cuts at depth 6)"""
    import c15
    return c15.render_deep(v)


# ------------------------------------------------------------------ R4

def check_balance_check(fx, rep):
    f, rs = handler_paths(fx, 'validate_tx_against_state')
    if f is None:
        rep.undecided('R4-balance-check', 'validate_tx_against_state', 'not found')
        return
    rep.fn(f)
    closures = list(fx.closures_of(f.nq))
    have = set()
    for g in [f] + closures:
        for _, t in g.calls():
            c_ = (t.callee or '').split('::')[-1]
            if c_ in ('checked_mul', 'checked_add', 'calculate_tx_l1_cost', 'operator_fee_charge', 'calc_max_data_fee'):
                have.add(c_)
    # each checked_add closure adds one captured amount
    caps = set()
    from cfg import Origins
    for g in closures:
        og = Origins(g, fx)
        for _, t in g.calls():
            if (t.callee or '').split('::')[-1] == 'checked_add' and len(t.args) > 1:
                for o in og.of_operand(t.args[1]):
                    if o.root == ('param', 1) and o.path:
                        caps.add(o.path[0].lstrip('.'))
                    else:
                        caps.add(render_origin(o))
    need = {'tx_l1_cost', 'operator_fee_charge'}
    problems = []
    if not need <= caps:
        problems.append('the balance check does not add %s' % sorted(need - caps))
    if not {'checked_mul', 'checked_add', 'calculate_tx_l1_cost', 'operator_fee_charge'} <= have:
        problems.append('missing %s' % sorted({'checked_mul', 'checked_add', 'calculate_tx_l1_cost', 'operator_fee_charge'} - have))
    # the comparison result gates LackOfFundForMaxFee
    lack = False
    for r in rs:
        if r.ret[0] == 'agg' and r.ret[2] == 'Err' and 'LackOfFundForMaxFee' in c23_render(r.ret):
            lack = True
    if not lack:
        problems.append('no path rejects a caller without funds')
    if problems:
        rep.violation('R4-balance-check', 'validate_tx_against_state', 'optimism validate_tx_against_state: ' + sorted(set(problems))[0], f.where())
    else:
        rep.ok('R4-balance-check', 'validate_tx_against_state', 'gas_limit*gas_price + value + L1 cost + operator charge (+ blob fee) <= balance')


# ------------------------------------------------------------------ R5

def check_deposits(fx, rep):
    f = fx.fns.get(H + 'end')
    if f is None:
        rep.undecided('R5-deposits', 'end', 'not found')
        return
    rep.fn(f)
    cl = list(fx.closures_of(f.nq))
    if not cl:
        rep.undecided('R5-deposits', 'end', 'or_else closure not found')
        return
    g = cl[0]
    rep.fn(g)
    try:
        rs = Symx(fx, max_paths=4000, snapshot_refs=True, spec=255).run(g)
    except Budget:
        rep.undecided('R5-deposits', 'end', 'path budget', g.where())
        return
    problems = []
    ok_paths = 0
    for r in rs:
        if not (r.ret[0] == 'agg' and r.ret[2] == 'Ok'):
            continue
        ok_paths += 1
        names = [e[0].split('::')[-1] for e in r.events]
        txt = ' '.join(render(a) for e in r.events for a in e[1])
        if 'mark_touch' not in names:
            problems.append('the caller account of a failed deposit is not marked touched (its changes would not be committed)')
        sat = [e for e in r.events if e[0].split('::')[-1] == 'saturating_add']
        if not any('nonce' in render(e[1][0]) and render(e[1][1]) == '1' for e in sat):
            problems.append('the nonce is not incremented by one')
        if not any('balance' in render(e[1][0]) and 'mint' in c23_render(e[1][1]) for e in sat):
            problems.append('the mint is not added to the balance')
        if 'FailedDeposit' not in c23_render(r.ret):
            problems.append('the result is not Halt(FailedDeposit)')
        dep = [lit_truth(l[1]) for l in r.lits if 'source_hash' in render(l[0]) or render(l[0]).startswith('is_some(')]
        if True not in dep:
            problems.append('a non-deposit error is turned into a result')
    if ok_paths == 0:
        problems.append('no failed-deposit path recognised')
    if problems:
        rep.violation('R5-deposits', 'end', 'optimism end handler: ' + sorted(set(problems))[0], g.where())
    else:
        rep.ok('R5-deposits', 'end', 'failed deposit: nonce + 1, balance + mint, touched, Halt(FailedDeposit)')


OP_REGISTER_SLOTS = {
    '.validation.env': 'validate_env', '.validation.tx_against_state': 'validate_tx_against_state',
    '.pre_execution.load_precompiles': 'load_precompiles', '.pre_execution.deduct_caller': 'deduct_caller',
    '.execution.last_frame_return': 'last_frame_return', '.post_execution.refund': 'refund',
    '.post_execution.reimburse_caller': 'reimburse_caller', '.post_execution.reward_beneficiary': 'reward_beneficiary',
    '.post_execution.output': 'output', '.post_execution.end': 'end', '.post_execution.clear': 'clear',
}


def check_register_wiring(fx, rep):
    """R6: the Optimism register installs, for every spec arm, each of its eleven handles into the
    slot of the same name: the fee logic decided in R1-R5 lives in these functions, and `clear` drops
    the cached L1 block info (without it the next transaction is charged from a stale L1 block)."""
    from cfg import Origins
    parent = 'revm::optimism::handler_register::optimism_handle_register'
    cls = fx.closures_of(parent)
    if not cls:
        rep.undecided('R6-register-wiring', 'closure', 'register closure not found')
        return
    counts = {}
    wrong = []
    for c in cls:
        rep.fn(c)
        og = Origins(c, fx)
        for b in c.blocks:
            if b.cleanup:
                continue
            for s_ in b.stmts:
                if s_.kind != 'assign' or not s_.place.pr or s_.rv is None or not s_.rv.ops:
                    continue
                slot = ''.join(p for p in s_.place.pr if p != '*')
                slot = slot[slot.find('.'):] if '.' in slot else slot
                for known in OP_REGISTER_SLOTS:
                    if slot.endswith(known):
                        slot = known
                if slot not in OP_REGISTER_SLOTS:
                    continue
                counts[slot] = counts.get(slot, 0) + 1
                # the function item boxed into the slot
                items = set()

                def walk(oo, depth=0):
                    for o in oo:
                        if o.root[0] == 'fn':
                            items.add(o.root[1])
                        elif o.root[0] == 'call' and depth < 4:
                            t = c.blocks[o.root[2]].term
                            if t.args:
                                walk(og.of_operand(t.args[0]), depth + 1)
                        elif o.root[0] == 'agg' and depth < 4 and len(o.root) > 4:
                            for fld_o in o.root[4]:
                                walk(list(fld_o), depth + 1)
                walk(og.of_operand(s_.rv.ops[0]))
                want = 'revm::optimism::handler_register::' + OP_REGISTER_SLOTS[slot]
                if items and items != {want}:
                    wrong.append('%s <- %s' % (slot, sorted(items)))
    arms = max(counts.values()) if counts else 0
    missing = sorted(s for s in OP_REGISTER_SLOTS if counts.get(s, 0) != arms)
    if not counts:
        rep.undecided('R6-register-wiring', 'slots', 'no handler slot assignment recognised')
    elif missing:
        rep.violation('R6-register-wiring', 'slots', 'the Optimism register does not install %s in every spec arm (%s of %d arms): the mainnet handle stays in place there' % (
            missing, [counts.get(s, 0) for s in missing], arms), cls[0].where())
    elif wrong:
        rep.violation('R6-register-wiring', 'slots', 'the Optimism register installs another function than the slot\'s own: %s' % sorted(set(wrong))[0], cls[0].where())
    else:
        rep.ok('R6-register-wiring', 'slots', '11 handles x %d spec arms, each slot gets the function of its name' % arms)
