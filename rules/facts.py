"""Facts loader and MIR object model for the rule engine (python3 stdlib only).

A fact file is JSON lines written by the mirfacts driver.  This module turns them into
Fn / Block / Stmt / Term objects with helpers for rendering and for name normalisation.
Keys used by rules are *normalised definition paths* (generic arguments stripped), never
line numbers; line numbers are carried for report text only.
"""
import glob
import json
import os
import re


# --------------------------------------------------------------------------- names

def strip_generics(q):
    """Remove generic argument lists from a definition path, keeping `<T as Trait>` / `<impl T>`
    qualifiers (with their own generics stripped)."""
    out = []
    i = 0
    n = len(q)

    def match(i):
        # q[i] == '<' ; return index just after the matching '>'
        depth = 0
        j = i
        while j < n:
            c = q[j]
            if c == '<':
                depth += 1
            elif c == '>' and (j == 0 or q[j - 1] != '-'):
                depth -= 1
                if depth == 0:
                    return j + 1
            j += 1
        return n

    while i < n:
        c = q[i]
        if c == '<':
            j = match(i)
            inner = q[i + 1:j - 1]
            prev = ''.join(out)
            is_qual = inner.startswith('impl ') or _has_top_level_as(inner)
            prev_ident = bool(prev) and (prev[-1].isalnum() or prev[-1] == '_')
            if is_qual and not prev_ident:
                out.append('<' + strip_generics(inner) + '>')
            elif (not prev_ident) and not prev.endswith('::'):
                # a bare `<T>` qualifier at the start of a path, e.g. `<T>::method`
                out.append('<' + strip_generics(inner) + '>')
            else:
                # generic argument list; drop it (and a preceding `::` turbofish marker)
                if prev.endswith('::'):
                    out[:] = [prev[:-2]]
            i = j
        else:
            out.append(c)
            i += 1
    return ''.join(out)


def _has_top_level_as(s):
    depth = 0
    i = 0
    while i < len(s):
        c = s[i]
        if c in '<([':
            depth += 1
        elif c in ')]':
            depth -= 1
        elif c == '>' and (i == 0 or s[i - 1] != '-'):
            depth -= 1
        elif depth == 0 and s.startswith(' as ', i):
            return True
        i += 1
    return False


def short(q):
    """last two path segments of a normalised name, for report text"""
    q = strip_generics(q)
    parts = q.split('::')
    return '::'.join(parts[-2:])


# --------------------------------------------------------------------------- MIR model
COMPACT = True

class Place:
    __slots__ = ('b', 'pr')

    def __init__(self, d):
        self.b = d['b']
        self.pr = tuple(d['pr'])

    def key(self):
        return (self.b, self.pr)

    def is_local(self):
        return not self.pr

    def __eq__(self, o):
        return isinstance(o, Place) and self.b == o.b and self.pr == o.pr

    def __hash__(self):
        return hash((self.b, self.pr))

    def fields(self):
        """field names along the projection (without the dot)"""
        return [p[1:] for p in self.pr if p.startswith('.')]

    def render(self):
        s = '_%d' % self.b
        for p in self.pr:
            if p == '*':
                s = '(*%s)' % s
            elif p.startswith('.'):
                s = s + p
            elif p.startswith('@'):
                s = '(%s as %s)' % (s, p[1:])
            else:
                s = s + p
        return s

    __repr__ = render


class Operand:
    """kind: 'copy' | 'move' | 'const' | 'other'"""
    __slots__ = ('kind', 'place', 'k')

    def __init__(self, d):
        if 'c' in d:
            self.kind, self.place, self.k = 'copy', Place(d['c']), None
        elif 'm' in d:
            self.kind, self.place, self.k = 'move', Place(d['m']), None
        elif 'k' in d:
            self.kind, self.place, self.k = 'const', None, d['k']
        else:
            self.kind, self.place, self.k = 'other', None, d

    def is_const(self):
        return self.kind == 'const'

    def const_int(self):
        if self.kind == 'const':
            return self.k.get('i')
        return None

    def const_fn(self):
        if self.kind == 'const' and 'fn' in self.k:
            return strip_generics(self.k['fn'])
        return None

    def render(self):
        if self.kind in ('copy', 'move'):
            return ('move ' if self.kind == 'move' else '') + self.place.render()
        if self.kind == 'const':
            if 'fn' in self.k:
                if COMPACT:
                    return 'fn ' + '::'.join(strip_generics(self.k['fn']).split('::')[-3:])
                return 'fn ' + self.k.get('fnfull', self.k['fn'])
            if 'i' in self.k and not self.k.get('s', '').replace('_', '').split('_')[0].lstrip('-').isdigit():
                return 'const %s /*%s*/' % (self.k.get('s'), self.k['i'])
            return 'const ' + str(self.k.get('s'))
        return str(self.k)

    __repr__ = render


class Rvalue:
    __slots__ = ('d', 'rv', 'ops', 'place')

    def __init__(self, d):
        self.d = d
        self.rv = d['rv']
        self.ops = []
        self.place = None
        if self.rv in ('use', 'cast', 'un', 'repeat'):
            self.ops = [Operand(d['a'])]
        elif self.rv == 'bin':
            self.ops = [Operand(d['a']), Operand(d['b'])]
        elif self.rv == 'agg':
            self.ops = [Operand(o) for o in d['ops']]
        elif self.rv in ('ref', 'rawptr', 'discr'):
            self.place = Place(d['p'])

    @property
    def op(self):
        return self.d.get('op')

    def render(self):
        d = self.d
        rv = self.rv
        if rv == 'use':
            return self.ops[0].render()
        if rv == 'ref':
            return ('&mut ' if d['mut'] else '&') + self.place.render()
        if rv == 'rawptr':
            return ('&raw mut ' if d['mut'] else '&raw const ') + self.place.render()
        if rv == 'cast':
            if COMPACT:
                return '%s as (%s)' % (self.ops[0].render(), d['kind'].split('(')[0] + ('(' + d['kind'].split('(')[1].split(',')[0] + ')' if '(' in d['kind'] else ''))
            return '%s as %s (%s)' % (self.ops[0].render(), d['ty'], d['kind'])
        if rv == 'bin':
            return '%s(%s, %s)' % (d['op'], self.ops[0].render(), self.ops[1].render())
        if rv == 'un':
            return '%s(%s)' % (d['op'], self.ops[0].render())
        if rv == 'discr':
            return 'discriminant(%s)' % self.place.render()
        if rv == 'repeat':
            return '[%s; %s]' % (self.ops[0].render(), d['n'])
        if rv == 'agg':
            k = d['agg']
            names = d.get('names', [])
            if k == 'adt':
                head = '%s::%s' % (short(d['adt']), d['variant'])
            elif k == 'closure':
                head = '{closure %s}' % d['closure'].split('::')[-1]
            else:
                head = k
            if names and len(names) == len(self.ops):
                body = ', '.join('%s: %s' % (n, o.render()) for n, o in zip(names, self.ops))
            else:
                body = ', '.join(o.render() for o in self.ops)
            return '%s { %s }' % (head, body)
        return d.get('s', rv)

    __repr__ = render


class Stmt:
    __slots__ = ('kind', 'place', 'rv', 'ln', 'exp', 'd')

    def __init__(self, d):
        self.d = d
        self.kind = d['s']
        self.ln = d.get('ln', 0)
        self.exp = bool(d.get('x'))
        self.place = Place(d['p']) if 'p' in d else None
        self.rv = Rvalue(d['r']) if 'r' in d else None

    def render(self):
        if self.kind == 'assign':
            return '%s = %s' % (self.place.render(), self.rv.render())
        if self.kind == 'setdiscr':
            return 'discriminant(%s) = %s' % (self.place.render(), self.d['variant'])
        return self.d.get('d', self.kind)

    __repr__ = render


class Term:
    __slots__ = ('d', 'kind', 'ln', 'exp', 'args', 'dest', 'callee', 'res', 'callee_raw')

    def __init__(self, d):
        self.d = d
        self.kind = d['t']
        self.ln = d.get('ln', 0)
        self.exp = bool(d.get('x'))
        self.args = [Operand(a) for a in d.get('args', [])]
        self.dest = Place(d['dest']) if 'dest' in d else None
        self.callee_raw = d.get('callee')
        self.callee = strip_generics(d['callee']) if 'callee' in d else None
        self.res = strip_generics(d['res']) if 'res' in d else None

    # resolved callee when it is a workspace (revm*) function, else the declared callee: a trait
    # method of a foreign type keeps its trait-level name (`core::ops::try_trait::Try::branch`)
    @property
    def target_fn(self):
        if self.res and 'revm' in self.res:
            return self.res
        return self.callee or self.res

    def names(self):
        """all names this call may be known under (declared trait method and resolved impl)"""
        r = []
        if self.callee:
            r.append(self.callee)
        if self.res and self.res != self.callee:
            r.append(self.res)
        return r

    def cargs(self):
        return self.d.get('cargs', [])

    def succs(self, unwind=False):
        d = self.d
        k = self.kind
        out = []
        if k == 'goto':
            out = [d['target']]
        elif k == 'switch':
            out = [t for _, t in d['arms']] + [d['otherwise']]
        elif k in ('call', 'drop', 'assert'):
            if 'target' in d:
                out = [d['target']]
            if unwind and 'unwind' in d:
                out.append(d['unwind'])
        elif k == 'other':
            out = list(d.get('succ', []))
        return out

    def switch_discr(self):
        return Operand(self.d['d']) if self.kind == 'switch' else None

    def render(self):
        d = self.d
        k = self.kind
        if k == 'goto':
            return 'goto bb%d' % d['target']
        if k == 'switch':
            arms = ', '.join('%s: bb%d' % (v, t) for v, t in d['arms'])
            return 'switchInt(%s) [%s, otherwise: bb%d]' % (Operand(d['d']).render(), arms, d['otherwise'])
        if k == 'call':
            if 'cfull' in d:
                if COMPACT:
                    name = '::'.join((self.target_fn or '?').split('::')[-3:])
                    ca = [a for a in self.cargs() if a.startswith('const ') or a.endswith('Spec') or a in ('SPEC',)]
                    if ca:
                        name += '::<%s>' % ','.join(ca)
                else:
                    name = d['cfull']
                    if self.res and self.res != self.callee:
                        name += ' [=> %s]' % self.res
            else:
                name = '(indirect %s)' % Operand(d['fnop']).render()
            tgt = ' -> bb%d' % d['target'] if 'target' in d else ' -> !'
            return '%s = %s(%s)%s' % (self.dest.render(), name, ', '.join(a.render() for a in self.args), tgt)
        if k == 'drop':
            return 'drop(%s) -> bb%d' % (Place(d['p']).render(), d['target'])
        if k == 'assert':
            return 'assert(%s == %s, %s) -> bb%d' % (Operand(d['cond']).render(), d['expected'], d['msg'], d['target'])
        return k

    __repr__ = render


class Block:
    __slots__ = ('i', 'stmts', 'term', 'cleanup')

    def __init__(self, i, d):
        self.i = i
        self.stmts = [Stmt(s) for s in d['st']]
        self.term = Term(d['term'])
        self.cleanup = bool(d.get('cleanup'))


class Fn:
    def __init__(self, d, crate):
        self.d = d
        self.crate = crate
        self.q = d['q']
        self.nq = strip_generics(d['q'])
        self.kind = d['kind']
        self.file = d['file']
        self.line = d['line']
        self.name = d.get('name') or self.nq.split('::')[-1]
        self.parent = strip_generics(d['parent']) if 'parent' in d else None
        self.generics = d.get('generics', [])
        self.unsafe = d.get('unsafe', False)
        self.vis = d.get('vis')
        self.impl_trait = strip_generics(d['impl_trait']) if 'impl_trait' in d else None
        self.impl_self = d.get('impl_self')
        m = d['mir']
        self.argc = m['argc']
        self.locals = m['locals']
        self.upvars = m.get('upvars', [])
        self._promoted_raw = d.get('promoted', [])
        self._promoted = {}
        self._blocks_raw = m['blocks']
        self._blocks = None
        self._cfg = None

    @property
    def blocks(self):
        if self._blocks is None:
            self._blocks = [Block(i, b) for i, b in enumerate(self._blocks_raw)]
        return self._blocks

    def promoted(self, idx):
        """the promoted constant body number idx as a pseudo Fn (or None)"""
        if idx in self._promoted:
            return self._promoted[idx]
        r = None
        if idx < len(self._promoted_raw):
            d = dict(self.d)
            d = {'q': self.q + '::promoted[%d]' % idx, 'kind': 'Promoted', 'file': self.file, 'line': self.line,
                 'mir': self._promoted_raw[idx]}
            r = Fn(d, self.crate)
        self._promoted[idx] = r
        return r

    def local_name(self, i):
        return self.locals[i].get('n')

    def local_ty(self, i):
        return self.locals[i]['ty']

    def local_by_name(self, name):
        return [i for i, l in enumerate(self.locals) if l.get('n') == name]

    def calls(self):
        """yield (block index, Term) for every call terminator in non-cleanup blocks"""
        for b in self.blocks:
            if b.term.kind == 'call' and not b.cleanup:
                yield b.i, b.term

    def calls_to(self, *suffixes):
        for bi, t in self.calls():
            for nm in t.names():
                if any(nm == s or nm.endswith('::' + s) or nm.endswith(s) for s in suffixes):
                    yield bi, t
                    break

    def where(self, bi=None, ln=None):
        if ln is None and bi is not None:
            ln = self.blocks[bi].term.ln
        return '%s:%s' % (self.file, ln if ln else self.line)

    def dump(self, cleanup=False):
        lines = ['fn %s  [%s:%d] argc=%d' % (self.q, self.file, self.line, self.argc)]
        for i, l in enumerate(self.locals):
            if l.get('n'):
                ty = l['ty'] if not COMPACT else strip_generics(l['ty'])[-60:]
                lines.append('  let _%d: %s  // %s' % (i, ty, l['n']))
        for b in self.blocks:
            if b.cleanup and not cleanup:
                continue
            lines.append(' bb%d%s:' % (b.i, ' (cleanup)' if b.cleanup else ''))
            for s in b.stmts:
                lines.append('    %s;  // L%d' % (s.render(), s.ln))
            lines.append('    %s;  // L%d' % (b.term.render(), b.term.ln))
        return '\n'.join(lines)


class Facts:
    """All facts of one build configuration."""

    def __init__(self, directory):
        self.dir = directory
        self.fns = {}        # normalised qname -> Fn  (first wins; duplicates kept in fns_all)
        self.fns_all = []
        self.consts = {}     # normalised qname -> dict
        self.adts = {}       # normalised qname -> dict
        self.impls = []
        self.traits = {}
        self.crates = {}
        files = sorted(glob.glob(os.path.join(directory, '*.jsonl')))
        # parsed-JSON cache (marshal is several times faster than json for these files)
        import marshal
        cache = os.path.join(directory, 'parsed.marshal')
        parsed = None
        if os.path.exists(cache):
            try:
                with open(cache, 'rb') as fh:
                    parsed = marshal.load(fh)
            except Exception:
                parsed = None
        if parsed is None:
            parsed = []
            for f in files:
                with open(f) as fh:
                    parsed.append([json.loads(line) for line in fh])
            try:
                tmp = cache + '.%d' % os.getpid()
                with open(tmp, 'wb') as fh:
                    marshal.dump(parsed, fh)
                os.rename(tmp, cache)
            except Exception:
                pass
        for lines in parsed:
            crate = None
            if True:
                for d in lines:
                    k = d['k']
                    if k == 'crate':
                        crate = d['name'] + ':' + d['tag']
                        self.crates[crate] = d
                    elif k == 'fn':
                        fn = Fn(d, crate)
                        self.fns_all.append(fn)
                        self.fns.setdefault(fn.nq, fn)
                    elif k == 'const':
                        self.consts.setdefault(strip_generics(d['q']), d)
                    elif k == 'adt':
                        self.adts.setdefault(strip_generics(d['q']), d)
                    elif k == 'impl':
                        d['crate'] = crate
                        self.impls.append(d)
                    elif k == 'trait':
                        self.traits[strip_generics(d['q'])] = d

    # lookup helpers ------------------------------------------------------------------
    def callers_of(self, *names):
        """functions (non-test crates) that contain a call whose declared or resolved callee is one
        of `names` (normalised).  Built once from the raw facts, without materialising MIR objects."""
        if not hasattr(self, '_call_index'):
            memo = {}
            idx = {}
            for f in self.fns_all:
                for b in f._blocks_raw:
                    t = b['term']
                    if t.get('t') != 'call' or b.get('cleanup'):
                        continue
                    for k in ('callee', 'res'):
                        v = t.get(k)
                        if v is None:
                            continue
                        n = memo.get(v)
                        if n is None:
                            n = strip_generics(v)
                            memo[v] = n
                        idx.setdefault(n, set()).add(f)
            self._call_index = idx
        out = []
        seen = set()
        for n in names:
            for f in self._call_index.get(n, ()):
                if id(f) not in seen:
                    seen.add(id(f))
                    out.append(f)
        out.sort(key=lambda f: f.nq)
        return out

    def fn(self, nq):
        return self.fns.get(nq)

    def find_fns(self, suffix):
        return [f for f in self.fns_all if f.nq == suffix or f.nq.endswith('::' + suffix)]

    def one_fn(self, suffix):
        r = self.find_fns(suffix)
        # prefer exact matches that are not closures
        r = [f for f in r if f.kind != 'Closure']
        if len(r) == 1:
            return r[0]
        return None

    def closures_of(self, parent_nq):
        return [f for f in self.fns_all if f.parent == parent_nq and f.kind == 'Closure']

    def inline_consts_of(self, parent_nq):
        return [f for f in self.fns_all if f.parent == parent_nq and f.kind == 'InlineConst']

    def const_val(self, suffix):
        for q, d in self.consts.items():
            if q == suffix or q.endswith('::' + suffix):
                return d.get('val')
        return None

    def adt(self, suffix):
        for q, d in self.adts.items():
            if q == suffix or q.endswith('::' + suffix):
                return d
        return None

    def variant_by_discr(self, adt_q, value):
        a = self.adts.get(strip_generics(adt_q)) or self.adt(adt_q)
        if not a:
            return None
        for i, v in enumerate(a['variants']):
            dv = v.get('discr', i)
            if dv == value:
                return v['name']
        return None

    def discr_of(self, adt_q, variant):
        a = self.adts.get(strip_generics(adt_q)) or self.adt(adt_q)
        if not a:
            return None
        for i, v in enumerate(a['variants']):
            if v['name'] == variant:
                return v.get('discr', i)
        return None


if __name__ == '__main__':
    import sys
    fx = Facts(sys.argv[1])
    pat = sys.argv[2]
    for f in fx.fns_all:
        if re.search(pat, f.nq):
            print(f.dump(cleanup='--cleanup' in sys.argv))
            print()
