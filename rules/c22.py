"""C22 — disabling the beneficiary reward is honoured and survives reconfiguration.

R1 PostExecutionHandler::new(flag): the reward handle is Some exactly on the flag==true branch;
R2 PostExecutionHandler::reward_beneficiary (dispatcher) calls nothing when the handle is None;
R3 every call that supplies a `with_reward_beneficiary` argument passes either its own parameter
   (pass-through), the existing handler's setting (derived from self.post_execution
   .reward_beneficiary), or - only in the listed fresh-handler constructors - a constant;
R4 (cfg optimism) the optimism register installs its reward handle only under its captured flag
   and passes that flag on unchanged.
"""
from cfg import cfg_of, Origins, guards_of

META = {
    'level': 'other',
    'decides': 'the switch that installs the reward handle, the no-op dispatch when it is absent, and the origin of the with_reward_beneficiary argument on every handler (re)construction path; (cfg optimism) that outside optimism::reward_beneficiary only the caller account is loaded for writing',
    'does_not_decide': 'that every other effect of the transaction is identical with and without rewards (an equivalence over executions)',
    'explanation': 'Value-origin analysis (A2) of the flag argument at all call sites of the handler constructors across the workspace; dominating-guard extraction on the switch in PostExecutionHandler::new.',
}

FLAG_FNS = {
    # callee (normalised)                                              : index of the flag argument
    'revm::handler::Handler::mainnet': 0,
    'revm::handler::Handler::mainnet_with_spec': 1,
    'revm::handler::Handler::optimism': 0,
    'revm::handler::Handler::optimism_with_spec': 1,
    'revm::handler::handle_types::post_execution::PostExecutionHandler::new': 0,
    'revm::optimism::handler_register::optimism_handle_register': 0,
}
# functions that build a brand-new default handler (nothing to preserve): a constant is fine
FRESH = {
    'revm::handler::Handler::new': 'EvmHandler::new builds the default handler from a HandlerCfg',
    'revm::builder::EvmBuilder::optimism': 'SetGenericStage: no handler has been customised yet',
    'revm::builder::EvmBuilder::mainnet': 'SetGenericStage: no handler has been customised yet',
    'revm::builder::EvmBuilder::reset_handler_with_mainnet': 'explicit reset to the default mainnet handler',
}


def run(ctx, rep):
    cfgs = ['default', 'optimism']
    seen = set()
    n_sites = 0
    for cfg in cfgs:
        fx = ctx.facts(cfg)
        if cfg == 'default':
            check_new(fx, rep)
            check_dispatch(fx, rep)
        for f in fx.fns_all:
            if not f.crate or not f.crate.startswith('revm:') or f.crate.endswith('-test'):
                continue
            for bi, t in f.calls():
                tf = t.target_fn
                if tf not in FLAG_FNS:
                    continue
                ident = (f.nq, tf, sum(1 for b2, t2 in f.calls() if t2.target_fn == tf and b2 < bi))
                if ident in seen:
                    continue
                seen.add(ident)
                n_sites += 1
                rep.fn(f)
                og = Origins(f, fx)
                arg = t.args[FLAG_FNS[tf]]
                oo = og.of_operand(arg)
                key = '%s->%s' % (short_fn(f.nq), tf.split('::')[-1])
                verdicts = [classify_flag(f, o, og) for o in oo]
                if all(v in ('param', 'self-setting', 'captured') for v in verdicts):
                    rep.ok('R3-flag-origin', key, verdicts)
                elif all(v == 'const' for v in verdicts):
                    base = f.parent or f.nq
                    if base in FRESH:
                        rep.ok('R3-flag-origin', key, 'constant in fresh-handler constructor: ' + FRESH[base], nontrivial=False)
                    else:
                        val = [o.root[1] for o in oo]
                        rep.violation('R3-flag-origin', key,
                                      '%s rebuilds the handler with with_reward_beneficiary = constant %s instead of the existing handler\'s setting: a disabled beneficiary reward is silently re-enabled' % (short_fn(f.nq), val),
                                      f.where(bi))
                else:
                    rep.undecided('R3-flag-origin', key, 'flag argument has origin %s' % oo, f.where(bi))
        if cfg == 'optimism':
            check_optimism_register(fx, rep)
            check_optimism_payees(fx, rep)
        if cfg == 'default':
            check_fresh_callers(fx, rep)
    rep.floor('flag-call-sites', n_sites, 9)


def check_fresh_callers(fx, rep):
    """R5: the fresh-handler constructors put the reward back to its default.  They may be used where
    no handler exists yet, never from a method of an existing handler (a reconfiguration would
    silently re-enable a disabled reward)."""
    n = 0
    for fresh in FRESH:
        if not fresh.startswith('revm::handler::Handler::'):
            continue
        for f in fx.callers_of(fresh):
            if not f.crate or f.crate.endswith('-test') or '::test' in f.nq:
                continue
            n += 1
            rep.fn(f)
            has_handler = [i for i in range(1, f.argc + 1) if 'handler::Handler<' in (f.local_ty(i) or '') or 'evm::Evm<' in (f.local_ty(i) or '')]
            key = '%s->%s' % (short_fn(f.nq), fresh.split('::')[-1])
            if has_handler:
                rep.violation('R5-fresh-constructor-callers', key,
                              '%s replaces an existing handler by %s, which builds the default handler (reward enabled): a disabled beneficiary reward does not survive this reconfiguration' % (short_fn(f.nq), fresh.split('::', 2)[-1]), f.where())
            else:
                rep.ok('R5-fresh-constructor-callers', key, 'no existing handler in scope')
    rep.floor('R5-fresh-callers', n, 1)


def short_fn(nq):
    return '::'.join(nq.split('::')[-2:])


def classify_flag(f, o, og=None):
    r = o.root
    if r[0] == 'const':
        return 'const'
    if r[0] == 'param':
        ty = f.local_ty(r[1])
        if f.kind == 'Closure' and r[1] == 1:
            return 'captured'
        if ty == 'bool' and not o.path:
            return 'param'
        if '.post_execution' in o.path and '.reward_beneficiary' in o.path:
            return 'self-setting'
        return 'other'
    if r[0] == 'call' and r[1] == 'core::option::Option::is_some' and og is not None:
        t = f.blocks[r[2]].term
        ao = og.of_operand(t.args[0])
        if ao and all(x.root == ('param', 1) and x.path[-2:] == ('.post_execution', '.reward_beneficiary') for x in ao):
            return 'self-setting'
    return 'other'


def check_new(fx, rep):
    f = fx.fns.get('revm::handler::handle_types::post_execution::PostExecutionHandler::new')
    if f is None:
        rep.undecided('R1-switch', 'PostExecutionHandler::new', 'anchor not found')
        return
    rep.fn(f)
    og = Origins(f, fx)
    some_b, none_b = [], []
    target_local = None
    # the aggregate's reward_beneficiary operand
    for b in f.blocks:
        for s in b.stmts:
            if s.kind == 'assign' and s.rv.rv == 'agg' and s.rv.d.get('adt', '').endswith('PostExecutionHandler'):
                names = s.rv.d['names']
                op = s.rv.ops[names.index('reward_beneficiary')]
                target_local = op.place.b if op.place else None
    if target_local is None:
        rep.undecided('R1-switch', 'PostExecutionHandler::new', 'reward_beneficiary field operand not found', f.where())
        return
    for b in f.blocks:
        for s in b.stmts:
            if s.kind == 'assign' and s.place.b == target_local and not s.place.pr and s.rv.rv == 'agg':
                v = s.rv.d.get('variant')
                (some_b if v == 'Some' else none_b).append(b.i)
    ok = bool(some_b) and bool(none_b)
    for blocks, want in ((some_b, True), (none_b, False)):
        for bi in blocks:
            gs = [g for g in guards_of(f, og, bi) if any(o.root == ('param', 1) and not o.path for o in g.discr)]
            if not gs or gs[0].truth() is not want:
                ok = False
                rep.violation('R1-switch', 'PostExecutionHandler::new:%s' % ('Some' if want else 'None'),
                              'reward handle is %s on a path not guarded by with_reward_beneficiary == %s' % ('installed' if want else 'absent', want), f.where(bi))
    if ok:
        # the installed handle is the mainnet reward function
        rep.ok('R1-switch', 'PostExecutionHandler::new', 'Some iff flag')
    elif not some_b or not none_b:
        rep.violation('R1-switch', 'PostExecutionHandler::new:shape', 'reward handle is not conditional on the flag (Some sites %d, None sites %d)' % (len(some_b), len(none_b)), f.where())


def check_dispatch(fx, rep):
    f = fx.fns.get('revm::handler::handle_types::post_execution::PostExecutionHandler::reward_beneficiary')
    if f is None:
        rep.undecided('R2-dispatch', 'reward_beneficiary', 'anchor not found')
        return
    rep.fn(f)
    cfg = cfg_of(f)
    og = Origins(f, fx)
    sw = [b for b in f.blocks if b.term.kind == 'switch']
    good = False
    for b in sw:
        d = og.of_operand(b.term.switch_discr())
        if any(o.root[0] == 'discr' and any(x.root == ('param', 1) and x.path[-1:] == ('.reward_beneficiary',) for x in o.root[1]) for o in d):
            arms = dict(b.term.d['arms'])
            none_t = arms.get(0, b.term.d['otherwise']) if 1 in arms else arms.get(0)
            if none_t is None:
                continue
            # on the None edge no call happens before return
            r = cfg.reach_set(none_t, banned_blocks={arms.get(1)} if 1 in arms else ())
            calls = [x for x in r if f.blocks[x].term.kind == 'call']
            if not calls:
                good = True
            else:
                rep.violation('R2-dispatch', 'reward_beneficiary:none-branch', 'the dispatcher performs a call although no reward handle is installed', f.where(calls[0]))
                return
    if good:
        rep.ok('R2-dispatch', 'reward_beneficiary', 'None => Ok(()) without any call')
    else:
        rep.violation('R2-dispatch', 'reward_beneficiary:shape', 'dispatcher does not test whether a reward handle is installed', f.where())


def check_optimism_register(fx, rep):
    """the boxed register closure: handle set only under the captured flag"""
    parent = 'revm::optimism::handler_register::optimism_handle_register'
    cls = fx.closures_of(parent)
    if not cls:
        rep.undecided('R4-optimism-register', 'closure', 'register closure not found')
        return
    for c in cls:
        rep.fn(c)
        og = Origins(c, fx)
        sets = []
        for b in c.blocks:
            if b.cleanup:
                continue
            for s in b.stmts:
                if s.kind == 'assign' and s.place.pr and s.place.pr[-1] == '.reward_beneficiary' and '.post_execution' in s.place.pr:
                    sets.append(b.i)
        if not sets:
            rep.undecided('R4-optimism-register', 'set-site', 'no assignment to post_execution.reward_beneficiary in the register closure', c.where())
            continue
        for bi in sets:
            gs = guards_of(c, og, bi)
            flag_guard = [g for g in gs if any(o.root == ('param', 1) and o.path and 'with_reward_beneficiary' in o.path[-1] for o in g.discr)]
            if flag_guard and flag_guard[0].truth() is True:
                rep.ok('R4-optimism-register', 'reward-handle-under-flag')
            else:
                rep.violation('R4-optimism-register', 'reward-handle-under-flag', 'the optimism register installs its reward handle on a path not guarded by the captured flag', c.where(bi))


def check_optimism_payees(fx, rep):
    """R4b (cfg optimism): the switch governs the reward handle only, so every credit to someone
    other than the transaction's caller (coinbase, the L1 / base-fee / operator-fee vaults) must be
    made by `optimism::reward_beneficiary`.  In the handles the register installs unconditionally
    every account loaded for writing is the caller's."""
    P = 'revm::optimism::handler_register::'
    n = 0
    for g in fx.fns_all:
        if not g.nq.startswith(P) or '::test' in g.nq or g.nq.startswith(P + 'reward_beneficiary'):
            continue
        og = None
        for bi, t in g.calls():
            nm = t.target_fn or ''
            if not nm.endswith(('JournaledState::load_account', 'JournaledState::load_code', 'JournaledState::load_account_delegated',
                                'InnerEvmContext::load_account', 'JournaledState::transfer')):
                continue
            og = og or Origins(g, fx)
            n += 1
            who = g.nq[len(P):]
            for a in (t.args[1:3] if nm.endswith('transfer') else t.args[1:2]):
                oo = og.of_operand(a)
                if oo and all(o.path[-2:] == ('.tx', '.caller') for o in oo):
                    rep.ok('R4-optimism-register', 'payees:' + who, 'only the caller account')
                else:
                    rep.violation('R4-optimism-register', 'payees:' + who, 'optimism::%s loads %s for writing: a payee other than the caller outside reward_beneficiary is paid even when the beneficiary reward is switched off' % (
                        who, [o.render() for o in oo]), g.where(bi))
    rep.floor('R4-optimism-payee-sites', n, 3)
