"""Reference opcode table, written from the Yellow Paper (appendix H) and the EIPs that added
opcodes - NOT transcribed from revm.  One row per assigned byte:

  byte: (mnemonic, introducing fork, delta (items removed), alpha (items added), static gas, flags)

static gas: the constant part charged before any dynamic component; None where the whole charge is
fork dependent or dynamic (decided by the gas-function tables of C14 instead).
flags: 'eof' = only defined inside EOF containers (revm: OSAKA), undefined in legacy code;
       'halt' = terminates the frame; 'legacy_only' = rejected by EOF validation.
EIP numbers in comments.
"""

F = 'FRONTIER'
OPCODES = {
    0x00: ('STOP', F, 0, 0, 0, ('halt',)),
    0x01: ('ADD', F, 2, 1, 3, ()),
    0x02: ('MUL', F, 2, 1, 5, ()),
    0x03: ('SUB', F, 2, 1, 3, ()),
    0x04: ('DIV', F, 2, 1, 5, ()),
    0x05: ('SDIV', F, 2, 1, 5, ()),
    0x06: ('MOD', F, 2, 1, 5, ()),
    0x07: ('SMOD', F, 2, 1, 5, ()),
    0x08: ('ADDMOD', F, 3, 1, 8, ()),
    0x09: ('MULMOD', F, 3, 1, 8, ()),
    0x0A: ('EXP', F, 2, 1, None, ()),            # 10 + 10|50 per byte (EIP-160)
    0x0B: ('SIGNEXTEND', F, 2, 1, 5, ()),
    0x10: ('LT', F, 2, 1, 3, ()),
    0x11: ('GT', F, 2, 1, 3, ()),
    0x12: ('SLT', F, 2, 1, 3, ()),
    0x13: ('SGT', F, 2, 1, 3, ()),
    0x14: ('EQ', F, 2, 1, 3, ()),
    0x15: ('ISZERO', F, 1, 1, 3, ()),
    0x16: ('AND', F, 2, 1, 3, ()),
    0x17: ('OR', F, 2, 1, 3, ()),
    0x18: ('XOR', F, 2, 1, 3, ()),
    0x19: ('NOT', F, 1, 1, 3, ()),
    0x1A: ('BYTE', F, 2, 1, 3, ()),
    0x1B: ('SHL', 'CONSTANTINOPLE', 2, 1, 3, ()),    # EIP-145
    0x1C: ('SHR', 'CONSTANTINOPLE', 2, 1, 3, ()),
    0x1D: ('SAR', 'CONSTANTINOPLE', 2, 1, 3, ()),
    0x20: ('KECCAK256', F, 2, 1, None, ()),      # 30 + 6/word + mem
    0x30: ('ADDRESS', F, 0, 1, 2, ()),
    0x31: ('BALANCE', F, 1, 1, None, ()),        # 20 / 400 (EIP-150) / 700 (EIP-1884) / warm-cold (EIP-2929)
    0x32: ('ORIGIN', F, 0, 1, 2, ()),
    0x33: ('CALLER', F, 0, 1, 2, ()),
    0x34: ('CALLVALUE', F, 0, 1, 2, ()),
    0x35: ('CALLDATALOAD', F, 1, 1, 3, ()),
    0x36: ('CALLDATASIZE', F, 0, 1, 2, ()),
    0x37: ('CALLDATACOPY', F, 3, 0, None, ()),
    0x38: ('CODESIZE', F, 0, 1, 2, ('legacy_only',)),
    0x39: ('CODECOPY', F, 3, 0, None, ('legacy_only',)),
    0x3A: ('GASPRICE', F, 0, 1, 2, ()),
    0x3B: ('EXTCODESIZE', F, 1, 1, None, ('legacy_only',)),
    0x3C: ('EXTCODECOPY', F, 4, 0, None, ('legacy_only',)),
    0x3D: ('RETURNDATASIZE', 'BYZANTIUM', 0, 1, 2, ()),   # EIP-211
    0x3E: ('RETURNDATACOPY', 'BYZANTIUM', 3, 0, None, ()),
    0x3F: ('EXTCODEHASH', 'CONSTANTINOPLE', 1, 1, None, ('legacy_only',)),   # EIP-1052
    0x40: ('BLOCKHASH', F, 1, 1, 20, ()),
    0x41: ('COINBASE', F, 0, 1, 2, ()),
    0x42: ('TIMESTAMP', F, 0, 1, 2, ()),
    0x43: ('NUMBER', F, 0, 1, 2, ()),
    0x44: ('DIFFICULTY', F, 0, 1, 2, ()),        # PREVRANDAO from the Merge (EIP-4399)
    0x45: ('GASLIMIT', F, 0, 1, 2, ()),
    0x46: ('CHAINID', 'ISTANBUL', 0, 1, 2, ()),           # EIP-1344
    0x47: ('SELFBALANCE', 'ISTANBUL', 0, 1, 5, ()),       # EIP-1884
    0x48: ('BASEFEE', 'LONDON', 0, 1, 2, ()),             # EIP-3198
    0x49: ('BLOBHASH', 'CANCUN', 1, 1, 3, ()),            # EIP-4844
    0x4A: ('BLOBBASEFEE', 'CANCUN', 0, 1, 2, ()),         # EIP-7516
    0x50: ('POP', F, 1, 0, 2, ()),
    0x51: ('MLOAD', F, 1, 1, 3, ()),
    0x52: ('MSTORE', F, 2, 0, 3, ()),
    0x53: ('MSTORE8', F, 2, 0, 3, ()),
    0x54: ('SLOAD', F, 1, 1, None, ()),
    0x55: ('SSTORE', F, 2, 0, None, ()),
    0x56: ('JUMP', F, 1, 0, 8, ('legacy_only',)),
    0x57: ('JUMPI', F, 2, 0, 10, ('legacy_only',)),
    0x58: ('PC', F, 0, 1, 2, ('legacy_only',)),
    0x59: ('MSIZE', F, 0, 1, 2, ()),
    0x5A: ('GAS', F, 0, 1, 2, ('legacy_only',)),
    0x5B: ('JUMPDEST', F, 0, 0, 1, ()),
    0x5C: ('TLOAD', 'CANCUN', 1, 1, 100, ()),             # EIP-1153
    0x5D: ('TSTORE', 'CANCUN', 2, 0, 100, ()),
    0x5E: ('MCOPY', 'CANCUN', 3, 0, None, ()),            # EIP-5656
    0x5F: ('PUSH0', 'SHANGHAI', 0, 1, 2, ()),             # EIP-3855
    0xA0: ('LOG0', F, 2, 0, None, ()),
    0xA1: ('LOG1', F, 3, 0, None, ()),
    0xA2: ('LOG2', F, 4, 0, None, ()),
    0xA3: ('LOG3', F, 5, 0, None, ()),
    0xA4: ('LOG4', F, 6, 0, None, ()),
    # EOF (EIP-7692 family; this tree activates them at OSAKA)
    0xD0: ('DATALOAD', 'OSAKA', 1, 1, 4, ('eof',)),
    0xD1: ('DATALOADN', 'OSAKA', 0, 1, 3, ('eof',)),
    0xD2: ('DATASIZE', 'OSAKA', 0, 1, 2, ('eof',)),
    0xD3: ('DATACOPY', 'OSAKA', 3, 0, None, ('eof',)),
    0xE0: ('RJUMP', 'OSAKA', 0, 0, 2, ('eof', 'halt')),
    0xE1: ('RJUMPI', 'OSAKA', 1, 0, 4, ('eof',)),
    0xE2: ('RJUMPV', 'OSAKA', 1, 0, 4, ('eof',)),
    0xE3: ('CALLF', 'OSAKA', 0, 0, 5, ('eof',)),
    0xE4: ('RETF', 'OSAKA', 0, 0, 3, ('eof', 'halt')),
    0xE5: ('JUMPF', 'OSAKA', 0, 0, 5, ('eof', 'halt')),
    0xE6: ('DUPN', 'OSAKA', 0, 1, 3, ('eof',)),
    0xE7: ('SWAPN', 'OSAKA', 0, 0, 3, ('eof',)),
    0xE8: ('EXCHANGE', 'OSAKA', 0, 0, 3, ('eof',)),
    0xEC: ('EOFCREATE', 'OSAKA', 4, 1, 32000, ('eof',)),
    0xEE: ('RETURNCONTRACT', 'OSAKA', 2, 0, 0, ('eof', 'halt')),
    0xF0: ('CREATE', F, 3, 1, 32000, ('legacy_only',)),
    0xF1: ('CALL', F, 7, 1, None, ('legacy_only',)),
    0xF2: ('CALLCODE', F, 7, 1, None, ('legacy_only',)),
    0xF3: ('RETURN', F, 2, 0, 0, ('halt',)),
    0xF4: ('DELEGATECALL', 'HOMESTEAD', 6, 1, None, ('legacy_only',)),   # EIP-7
    0xF5: ('CREATE2', 'CONSTANTINOPLE', 4, 1, 32000, ('legacy_only',)),  # EIP-1014 (revm gates on PETERSBURG; same through the spec map)
    0xF7: ('RETURNDATALOAD', 'OSAKA', 1, 1, 3, ('eof',)),
    0xF8: ('EXTCALL', 'OSAKA', 4, 1, None, ('eof',)),
    0xF9: ('EXTDELEGATECALL', 'OSAKA', 3, 1, None, ('eof',)),
    0xFA: ('STATICCALL', 'BYZANTIUM', 6, 1, None, ('legacy_only',)),     # EIP-214
    0xFB: ('EXTSTATICCALL', 'OSAKA', 3, 1, None, ('eof',)),
    0xFD: ('REVERT', 'BYZANTIUM', 2, 0, 0, ('halt',)),                 # EIP-140
    0xFE: ('INVALID', F, 0, 0, None, ('halt',)),
    0xFF: ('SELFDESTRUCT', F, 1, 0, None, ('halt', 'legacy_only')),
}
for _n in range(1, 33):
    OPCODES[0x5F + _n] = ('PUSH%d' % _n, F, 0, 1, 3, ())
for _n in range(1, 17):
    OPCODES[0x7F + _n] = ('DUP%d' % _n, F, _n, _n + 1, 3, ())
    OPCODES[0x8F + _n] = ('SWAP%d' % _n, F, _n + 1, _n + 1, 3, ())

# immediates (bytes following the opcode): PUSHn = n; EOF: per EIP-4200/4750/6206/663/7480/7620
IMMEDIATE = {0xD1: 2, 0xE0: 2, 0xE1: 2, 0xE2: 1, 0xE3: 2, 0xE5: 2, 0xE6: 1, 0xE7: 1, 0xE8: 1, 0xEC: 1, 0xEE: 1}
for _n in range(1, 33):
    IMMEDIATE[0x5F + _n] = _n

# precompile address -> (name, introducing fork, EIP)
PRECOMPILES = {
    0x01: ('ecrecover', F, None), 0x02: ('sha256', F, None), 0x03: ('ripemd160', F, None), 0x04: ('identity', F, None),
    0x05: ('modexp', 'BYZANTIUM', 198), 0x06: ('bn128_add', 'BYZANTIUM', 196), 0x07: ('bn128_mul', 'BYZANTIUM', 196),
    0x08: ('bn128_pairing', 'BYZANTIUM', 197), 0x09: ('blake2f', 'ISTANBUL', 152),
    0x0A: ('kzg_point_evaluation', 'CANCUN', 4844),
    # EIP-2537 (final, Pectra): seven precompiles 0x0b..0x11
    0x0B: ('bls12_g1add', 'PRAGUE', 2537), 0x0C: ('bls12_g1msm', 'PRAGUE', 2537), 0x0D: ('bls12_g2add', 'PRAGUE', 2537),
    0x0E: ('bls12_g2msm', 'PRAGUE', 2537), 0x0F: ('bls12_pairing_check', 'PRAGUE', 2537),
    0x10: ('bls12_map_fp_to_g1', 'PRAGUE', 2537), 0x11: ('bls12_map_fp2_to_g2', 'PRAGUE', 2537),
}
