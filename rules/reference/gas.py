"""Reference gas schedule, written from the Yellow Paper (appendix G) and the repricing EIPs:
EIP-150 (Tangerine), 160/161 (Spurious Dragon), 1108, 1283 (Constantinople only), 1884/2028/2200
(Istanbul), 2929/2930 (Berlin), 3529 (London), 3860 (Shanghai), 7623/7702 (Prague).
NOT transcribed from revm: names follow revm's constant names only so that values can be compared.
"""

CONSTANTS = {
    # Yellow Paper fee schedule
    'ZERO': 0, 'BASE': 2, 'VERYLOW': 3, 'LOW': 5, 'MID': 8, 'HIGH': 10, 'JUMPDEST': 1,
    'CREATE': 32000, 'CALLVALUE': 9000, 'NEWACCOUNT': 25000, 'EXP': 10, 'MEMORY': 3,
    'LOG': 375, 'LOGDATA': 8, 'LOGTOPIC': 375, 'KECCAK256': 30, 'KECCAK256WORD': 6, 'COPY': 3,
    'BLOCKHASH': 20, 'CODEDEPOSIT': 200, 'CALL_STIPEND': 2300, 'SELFDESTRUCT': 24000,
    'SSTORE_SET': 20000, 'SSTORE_RESET': 5000, 'REFUND_SSTORE_CLEARS': 15000,
    # EIP-1884 / 2200
    'INSTANBUL_SLOAD_GAS': 800,
    # calldata: 4 per zero byte, 68 -> 16 per non-zero byte (EIP-2028); token form of EIP-7623
    'STANDARD_TOKEN_COST': 4, 'NON_ZERO_BYTE_DATA_COST': 68, 'NON_ZERO_BYTE_MULTIPLIER': 17,
    'NON_ZERO_BYTE_DATA_COST_ISTANBUL': 16, 'NON_ZERO_BYTE_MULTIPLIER_ISTANBUL': 4,
    'TOTAL_COST_FLOOR_PER_TOKEN': 10,
    # EIP-2929 / 2930
    'ACCESS_LIST_ADDRESS': 2400, 'ACCESS_LIST_STORAGE_KEY': 1900, 'COLD_SLOAD_COST': 2100,
    'COLD_ACCOUNT_ACCESS_COST': 2600, 'WARM_STORAGE_READ_COST': 100, 'WARM_SSTORE_RESET': 2900,
    # EIP-3860
    'INITCODE_WORD_COST': 2,
    # EOF (EIP-7620 / 7069 / 663 / 4200 / 4750 / 7480)
    'EOF_CREATE_GAS': 32000, 'MIN_CALLEE_GAS': 2300, 'DATA_LOADN_GAS': 3, 'CONDITION_JUMP_GAS': 4,
    'RETF_GAS': 3, 'DATA_LOAD_GAS': 4,
}
EIP7702 = {'PER_AUTH_BASE_COST': 12500, 'PER_EMPTY_ACCOUNT_COST': 25000}

# fork order used only inside this reference
ORDER = ['FRONTIER', 'FRONTIER_THAWING', 'HOMESTEAD', 'DAO_FORK', 'TANGERINE', 'SPURIOUS_DRAGON', 'BYZANTIUM',
         'CONSTANTINOPLE', 'PETERSBURG', 'ISTANBUL', 'MUIR_GLACIER', 'BERLIN', 'LONDON', 'ARROW_GLACIER',
         'GRAY_GLACIER', 'MERGE', 'SHANGHAI', 'CANCUN', 'PRAGUE', 'OSAKA', 'LATEST']


def ge(spec, fork):
    return ORDER.index(spec) >= ORDER.index(fork)


def sload(spec, cold):
    if ge(spec, 'BERLIN'):
        return 2100 if cold else 100
    if ge(spec, 'ISTANBUL'):
        return 800
    if ge(spec, 'TANGERINE'):
        return 200
    return 50


def warm_cold(cold):
    return 2600 if cold else 100


def account_access(spec, cold, pre_tangerine, tangerine, istanbul=None):
    """BALANCE / EXTCODESIZE / EXTCODEHASH style schedule"""
    if ge(spec, 'BERLIN'):
        return warm_cold(cold)
    if istanbul is not None and ge(spec, 'ISTANBUL'):
        return istanbul
    if ge(spec, 'TANGERINE'):
        return tangerine
    return pre_tangerine


def net_metered(spec):
    """which SSTORE schedule applies: 'legacy' | 'eip1283' | 'eip2200' | 'eip2929' (| London refunds)"""
    if ge(spec, 'BERLIN'):
        return 'eip2929'
    if ge(spec, 'ISTANBUL'):
        return 'eip2200'
    if spec == 'CONSTANTINOPLE':
        return 'eip1283'
    return 'legacy'


def sstore_cost(spec, o, p, n, gas_le_stipend, cold):
    """returns cost or None (out of gas by the EIP-2200 stipend rule)"""
    kind = net_metered(spec)
    if kind in ('eip2200', 'eip2929') and gas_le_stipend:
        return None
    if kind == 'legacy':
        return 20000 if (p == 0 and n != 0) else 5000
    sload_gas = {'eip1283': 200, 'eip2200': 800, 'eip2929': 100}[kind]
    reset = 2900 if kind == 'eip2929' else 5000
    if n == p:
        c = sload_gas
    elif o == p:
        c = 20000 if o == 0 else reset
    else:
        c = sload_gas
    if kind == 'eip2929' and cold:
        c += 2100
    return c


def sstore_refund(spec, o, p, n):
    kind = net_metered(spec)
    if kind == 'legacy':
        return 15000 if (p != 0 and n == 0) else 0
    sload_gas = {'eip1283': 200, 'eip2200': 800, 'eip2929': 100}[kind]
    reset = 2900 if kind == 'eip2929' else 5000
    clears = 4800 if ge(spec, 'LONDON') else 15000      # EIP-3529
    if n == p:
        return 0
    if o == p:
        return clears if (o != 0 and n == 0) else 0
    r = 0
    if o != 0:
        if p == 0:
            r -= clears
        elif n == 0:
            r += clears
    if o == n:
        r += (20000 - sload_gas) if o == 0 else (reset - sload_gas)
    return r


def selfdestruct(spec, had_value, target_exists, cold):
    g = 0
    if ge(spec, 'TANGERINE'):
        g = 5000
        creates = (had_value and not target_exists) if ge(spec, 'SPURIOUS_DRAGON') else (not target_exists)
        if creates:
            g += 25000
    if ge(spec, 'BERLIN') and cold:
        g += 2600
    return g


def call(spec, transfers_value, is_empty, cold, delegate_cold):
    """delegate_cold: None (no delegation) | bool"""
    if ge(spec, 'BERLIN'):
        g = warm_cold(cold)
        if delegate_cold is not None:
            g += warm_cold(delegate_cold)       # EIP-7702
    elif ge(spec, 'TANGERINE'):
        g = 700
    else:
        g = 40
    if transfers_value:
        g += 9000
    if is_empty:
        if ge(spec, 'SPURIOUS_DRAGON'):
            if transfers_value:
                g += 25000
        else:
            g += 25000
    return g


def exp_byte(spec):
    return 50 if ge(spec, 'SPURIOUS_DRAGON') else 10


def extcodecopy_base(spec, cold):
    return account_access(spec, cold, 20, 700)


def intrinsic(spec, zero, nonzero, is_create, al_addrs, al_keys, auths, words):
    """21000 + calldata + create + access list + initcode + authorizations; floor (Prague)"""
    mult = 4 if ge(spec, 'ISTANBUL') else 17
    tokens = zero + nonzero * mult
    g = tokens * 4
    if ge(spec, 'BERLIN'):
        g += al_addrs * 2400 + al_keys * 1900
    g += 53000 if (is_create and ge(spec, 'HOMESTEAD')) else 21000
    if ge(spec, 'SHANGHAI') and is_create:
        g += 2 * words
    floor = 0
    if ge(spec, 'PRAGUE'):
        g += auths * 25000
        floor = tokens * 10 + 21000
    return g, floor
