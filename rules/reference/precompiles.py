"""Reference gas schedule of the precompiled contracts, written from the Yellow Paper (appendix E)
and EIP-152, EIP-196/197 + EIP-1108, EIP-198, EIP-2565, EIP-4844 (point evaluation), EIP-2537
(final, as scheduled for Prague).  `words(n)` = ceil(n / 32)."""


def words(n):
    return (n + 31) // 32


# name of the run function (without crate prefix) -> cost as a function of the input length
LINEAR = {
    'hash::sha256_run': lambda n: 60 + 12 * words(n),
    'hash::ripemd160_run': lambda n: 600 + 120 * words(n),
    'identity::identity_run': lambda n: 15 + 3 * words(n),
    'bls12_381::pairing::pairing': lambda n: 32600 * (n // 384) + 37700,
}
FIXED = {
    'secp256k1::ec_recover_run': 3000,
    'bls12_381::g1_add::g1_add': 375,
    'bls12_381::g2_add::g2_add': 600,
    'bls12_381::map_fp_to_g1::map_fp_to_g1': 5500,
    'bls12_381::map_fp2_to_g2::map_fp2_to_g2': 23800,
    'kzg_point_evaluation::run': 50000,
}
# named constants (crate path -> value)
CONSTANTS = {
    'bn128::add::BYZANTIUM_ADD_GAS_COST': 500, 'bn128::add::ISTANBUL_ADD_GAS_COST': 150,
    'bn128::mul::BYZANTIUM_MUL_GAS_COST': 40000, 'bn128::mul::ISTANBUL_MUL_GAS_COST': 6000,
    'bn128::pair::BYZANTIUM_PAIR_BASE': 100000, 'bn128::pair::BYZANTIUM_PAIR_PER_POINT': 80000,
    'bn128::pair::ISTANBUL_PAIR_BASE': 45000, 'bn128::pair::ISTANBUL_PAIR_PER_POINT': 34000,
    'bn128::PAIR_ELEMENT_LEN': 192, 'bn128::ADD_INPUT_LEN': 128, 'bn128::MUL_INPUT_LEN': 96,
    'blake2::F_ROUND': 1, 'blake2::INPUT_LENGTH': 213,
    'kzg_point_evaluation::GAS_COST': 50000,
    'identity::IDENTITY_BASE': 15, 'identity::IDENTITY_PER_WORD': 3,
    'bls12_381::g1_add::BASE_GAS_FEE': 375, 'bls12_381::g2_add::BASE_GAS_FEE': 600,
    'bls12_381::g1_msm::BASE_GAS_FEE': 12000, 'bls12_381::g2_msm::BASE_GAS_FEE': 22500,
    'bls12_381::map_fp_to_g1::MAP_FP_TO_G1_BASE': 5500, 'bls12_381::map_fp2_to_g2::BASE_GAS_FEE': 23800,
    'bls12_381::pairing::PAIRING_MULTIPLIER_BASE': 32600, 'bls12_381::pairing::PAIRING_OFFSET_BASE': 37700,
    'bls12_381::msm::MSM_MULTIPLIER': 1000,
    'bls12_381::g1_add::INPUT_LENGTH': 256, 'bls12_381::g2_add::INPUT_LENGTH': 512,
    'bls12_381::g1_msm::INPUT_LENGTH': 160, 'bls12_381::g2_msm::INPUT_LENGTH': 288,
    'bls12_381::pairing::INPUT_LENGTH': 384,
    'bls12_381::g1_add::ADDRESS': 0x0b, 'bls12_381::g1_msm::ADDRESS': 0x0c, 'bls12_381::g2_add::ADDRESS': 0x0d,
    'bls12_381::g2_msm::ADDRESS': 0x0e, 'bls12_381::pairing::ADDRESS': 0x0f,
    'bls12_381::map_fp_to_g1::ADDRESS': 0x10, 'bls12_381::map_fp2_to_g2::ADDRESS': 0x11,
}

G1_DISCOUNT = [
    1000, 949, 848, 797, 764, 750, 738, 728, 719, 712, 705, 698, 692, 687, 682, 677, 673, 669, 665, 661, 658, 654, 651, 648,
    645, 642, 640, 637, 635, 632, 630, 627, 625, 623, 621, 619, 617, 615, 613, 611, 609, 608, 606, 604, 603, 601, 599, 598,
    596, 595, 593, 592, 591, 589, 588, 586, 585, 584, 582, 581, 580, 579, 577, 576, 575, 574, 573, 572, 570, 569, 568, 567,
    566, 565, 564, 563, 562, 561, 560, 559, 558, 557, 556, 555, 554, 553, 552, 551, 550, 549, 548, 547, 547, 546, 545, 544,
    543, 542, 541, 540, 540, 539, 538, 537, 536, 536, 535, 534, 533, 532, 532, 531, 530, 529, 528, 528, 527, 526, 525, 525,
    524, 523, 522, 522, 521, 520, 520, 519,
]
G2_DISCOUNT = [
    1000, 1000, 923, 884, 855, 832, 812, 796, 782, 770, 759, 749, 740, 732, 724, 717, 711, 704, 699, 693, 688, 683, 679, 674,
    670, 666, 663, 659, 655, 652, 649, 646, 643, 640, 637, 634, 632, 629, 627, 624, 622, 620, 618, 615, 613, 611, 609, 607,
    606, 604, 602, 600, 598, 597, 595, 593, 592, 590, 589, 587, 586, 584, 583, 582, 580, 579, 578, 576, 575, 574, 573, 571,
    570, 569, 568, 567, 566, 565, 563, 562, 561, 560, 559, 558, 557, 556, 555, 554, 553, 552, 552, 551, 550, 549, 548, 547,
    546, 545, 545, 544, 543, 542, 541, 541, 540, 539, 538, 537, 537, 536, 535, 535, 534, 533, 532, 532, 531, 530, 530, 529,
    528, 528, 527, 526, 526, 525, 524, 524,
]


def msm_gas(k, table, mul_cost):
    if k == 0:
        return 0
    d = table[min(k - 1, len(table) - 1)]
    return k * d * mul_cost // 1000


# ---- MODEXP (EIP-198 for Byzantium, EIP-2565 from Berlin)

def iteration_count(exp_len, highp_bits):
    """highp_bits: bit length of the first min(32, exp_len) bytes of the exponent (0 if they are zero)"""
    if exp_len <= 32 and highp_bits == 0:
        it = 0
    elif exp_len <= 32:
        it = highp_bits - 1
    else:
        it = 8 * (exp_len - 32) + max(highp_bits - 1, 0)
    return max(it, 1)


def modexp_byzantium(base_len, exp_len, mod_len, highp_bits):
    x = max(base_len, mod_len)
    if x <= 64:
        mc = x * x
    elif x <= 1024:
        mc = x * x // 4 + 96 * x - 3072
    else:
        mc = x * x // 16 + 480 * x - 199680
    return min(mc * iteration_count(exp_len, highp_bits) // 20, 2 ** 64 - 1)


def modexp_berlin(base_len, exp_len, mod_len, highp_bits):
    w = (max(base_len, mod_len) + 7) // 8
    return max(200, min(w * w * iteration_count(exp_len, highp_bits) // 3, 2 ** 64 - 1))


# RFC 7693 (BLAKE2b): initialisation vector, message schedule, and the mixing function G
BLAKE2B_IV = [0x6a09e667f3bcc908, 0xbb67ae8584caa73b, 0x3c6ef372fe94f82b, 0xa54ff53a5f1d36f1,
              0x510e527fade682d1, 0x9b05688c2b3e6c1f, 0x1f83d9abfb41bd6b, 0x5be0cd19137e2179]
BLAKE2_SIGMA = [
    [0, 1, 2, 3, 4, 5, 6, 7, 8, 9, 10, 11, 12, 13, 14, 15],
    [14, 10, 4, 8, 9, 15, 13, 6, 1, 12, 0, 2, 11, 7, 5, 3],
    [11, 8, 12, 0, 5, 2, 15, 13, 10, 14, 3, 6, 7, 1, 9, 4],
    [7, 9, 3, 1, 13, 12, 11, 14, 2, 6, 5, 10, 4, 0, 15, 8],
    [9, 0, 5, 7, 2, 4, 10, 15, 14, 1, 11, 12, 6, 8, 3, 13],
    [2, 12, 6, 10, 0, 11, 8, 3, 4, 13, 7, 5, 15, 14, 1, 9],
    [12, 5, 1, 15, 14, 13, 4, 10, 0, 7, 6, 3, 9, 2, 8, 11],
    [13, 11, 7, 14, 12, 1, 3, 9, 5, 0, 15, 4, 8, 6, 2, 10],
    [6, 15, 14, 9, 11, 3, 0, 8, 12, 2, 13, 7, 1, 4, 10, 5],
    [10, 2, 8, 4, 7, 6, 1, 5, 15, 11, 9, 14, 3, 12, 13, 0],
]
BLAKE2_G_INDICES = [(0, 4, 8, 12), (1, 5, 9, 13), (2, 6, 10, 14), (3, 7, 11, 15),
                    (0, 5, 10, 15), (1, 6, 11, 12), (2, 7, 8, 13), (3, 4, 9, 14)]
M64 = (1 << 64) - 1


def _rotr(x, n):
    return ((x >> n) | (x << (64 - n))) & M64


def blake2_g(va, vb, vc, vd, x, y):
    va = (va + vb + x) & M64
    vd = _rotr(vd ^ va, 32)
    vc = (vc + vd) & M64
    vb = _rotr(vb ^ vc, 24)
    va = (va + vb + y) & M64
    vd = _rotr(vd ^ va, 16)
    vc = (vc + vd) & M64
    vb = _rotr(vb ^ vc, 63)
    return va, vb, vc, vd


# Byte layouts of the precompile inputs / outputs, written from the EIPs (not from the source):
# ('Range', a, b) = bytes a..b, ('RangeTo', b) = ..b, ('RangeFrom', a) = a.., ('at', i) = byte i read,
# ('at=', i) = byte i written, ('switch-at', i, values) = decision on byte i, ('pad', fn, n) = padded /
# cut to n bytes, ('offset', fn, n) = field starting at byte n, ('split_at', n).
LAYOUTS = {
    # Yellow Paper appendix E.1: h = d[0..32], v = d[32..64] (27 or 28 as a 256-bit number: bytes
    # 32..63 zero, byte 63 in {27, 28}), r||s = d[64..128]; input right-padded to 128 bytes
    'secp256k1::ec_recover_run': [('Range', 0, 32), ('Range', 32, 63), ('Range', 64, 128), ('at', 63), ('bin', 'Sub', 63, 27),
                                  ('pad', 'right_pad', 128), ('switch-at', 63, (27, 28))],
    # address = low 20 bytes of keccak(uncompressed key without its 0x04 tag), left-padded to 32
    'secp256k1::secp256k1::ecrecover': [('RangeFrom', 1), ('RangeTo', 12)],
    # RIPEMD-160 digest (20 bytes) left-padded to 32
    'hash::ripemd160_run': [('RangeFrom', 12)],
    # EIP-196: points are (x, y), 32 bytes each; ADD takes two points (input padded to 128), MUL a
    # point and a 32-byte scalar (padded to 96); the result point is written as x || y
    'bn128::read_fq': [('RangeTo', 32)],
    'bn128::read_point': [('Range', 0, 32), ('Range', 32, 64)],
    'bn128::run_add': [('RangeFrom', 32), ('RangeFrom', 64), ('RangeTo', 32), ('RangeTo', 64), ('pad', 'right_pad', 128)],
    'bn128::run_mul': [('Range', 64, 96), ('RangeFrom', 32), ('RangeTo', 32), ('RangeTo', 64), ('pad', 'right_pad', 96)],
    # EIP-4844: versioned_hash[0..32] z[32..64] y[64..96] commitment[96..144] proof[144..192];
    # versioned hash = sha256(commitment) with byte 0 replaced by the version
    'kzg_point_evaluation::run': [('Range', 32, 64), ('Range', 64, 96), ('Range', 96, 144), ('Range', 144, 192), ('RangeTo', 32)],
    'kzg_point_evaluation::kzg_to_versioned_hash': [('at=', 0)],
    'kzg_point_evaluation::as_bytes32': [('pad', 'as_array', 32)],
    'kzg_point_evaluation::as_bytes48': [('pad', 'as_array', 48)],
    # EIP-198: three 32-byte big-endian lengths at 0, 32, 64; operands from byte 96; the exponent
    # head is the first min(32, exp_len) bytes of the exponent, left-padded to 32
    'modexp::run_inner': [('RangeFrom', 96), ('offset', 'right_pad_with_offset', 0), ('offset', 'right_pad_with_offset', 32),
                          ('offset', 'right_pad_with_offset', 64), ('pad', 'left_pad', 32), ('pad', 'right_pad_with_offset', 32)],
    # EIP-152 (the words are decided in R6)
    'blake2::run': [('RangeFull',), ('RangeTo', 4), ('switch-at', 212, (0, 1))],
    # EIP-2537: an Fp element is 64 bytes (16 zero bytes + 48), a G1 point 2 x 64, a G2 point 4 x 64
    'bls12_381::g1::encode_g1_point': [('RangeFrom', 64), ('RangeTo', 64)],
    'bls12_381::g1::extract_g1_input': [('Range', 64, 128), ('RangeTo', 64)],
    'bls12_381::g1_add::g1_add': [('RangeFrom', 128), ('RangeTo', 128)],
    'bls12_381::g2::encode_g2_point': [('RangeTo', 64)],
    'bls12_381::g2::extract_g2_input': [('at', 0), ('at', 1), ('at', 2), ('at', 3)],
    'bls12_381::g2_add::g2_add': [('RangeFrom', 256), ('RangeTo', 256)],
    'bls12_381::map_fp2_to_g2::map_fp2_to_g2': [('Range', 64, 128), ('RangeTo', 64)],
    'bls12_381::utils::fp_to_bytes': [('split_at', 16)],
    'bls12_381::utils::remove_padding': [('split_at', 16)],
}
