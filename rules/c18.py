"""C18 — splitting and joining bundles does not change what they describe (decidable skeleton).

History equality is not decided.  Decided:
R1 AccountStatus::transition (status composition) for all 64 pairs against the reference and the
   invariant that a wipe is never lost and a later destroyed status is kept (shared with C15);
R2 extend_state: for an account present in both halves the later half wins - its info, its status
   composed by transition(), its storage replacing the earlier one if it was destroyed and
   otherwise merged slot by slot keeping the earlier original value; a new account is inserted;
R3 extend: for a later revert that wipes storage the earlier half's present slots are added to it
   with or_insert (never overriding what the later half recorded), the later wipe is cancelled
   only if the earlier half already destroyed the account; reverts are appended after the
   earlier ones;
R4 take_n_reverts returns the first n groups and keeps the rest (n clamped to the length),
   take_all_reverts returns everything and leaves none;
R5 prepend_state applies this (newer) bundle's state on top of the given (older) one, so older
   values never override newer ones.
"""
import c15
from c15 import AS, ST, WIPED
from symx import Symx, Budget, K, render, lit_truth

META = {
    'level': 'other',
    'decides': 'status composition for all pairs; which side wins in extend_state / extend / prepend_state and how wiped storage is moved into reverts; the split performed by take_n_reverts / take_all_reverts',
    'does_not_decide': 'equality of the joined bundle with a bundle built in one go over whole histories',
    'explanation': 'Complete table extraction for transition(); path enumeration of the loop bodies with symbolic records and event order.',
}

BS = 'revm::db::states::bundle_state::BundleState::'
WD = 'revm::db::states::bundle_account::BundleAccount::was_destroyed'


def run(ctx, rep):
    fx = ctx.facts('default')
    check_transition(fx, rep)
    check_extend_state(fx, rep)
    check_extend(fx, rep)
    check_take(fx, rep)
    check_prepend(fx, rep)
    # joining must not override what a revert already records (C17 R8, shared)
    import engine
    import c17
    c17.check_revert_slot_writers(fx, engine.SubReport(rep, 'C17'))


def check_transition(fx, rep):
    f = fx.fns.get(AS + '::transition')
    if f is None:
        rep.undecided('R1-status-composition', 'transition', 'not found')
        return
    rep.fn(f)
    t = c15.status_table(fx, f, tuple((o,) for o in ST), inline={AS + '::was_destroyed'}, out='store')
    n = 0
    for (s, o), got in sorted(t.items()):
        want = c15.ref_transition(s, o)
        n += 1
        if got != want:
            rep.violation('R1-status-composition', 'transition(%s, %s)' % (s, o), 'AccountStatus::transition turns %s followed by %s into %s; composing the two requires %s' % (s, o, got, want), f.where())
        elif (s in WIPED or o in WIPED) and got not in WIPED:
            rep.violation('R1-status-composition', 'transition(%s, %s):wipe-lost' % (s, o), 'composition %s then %s gives %s and loses the wipe' % (s, o, got), f.where())
        else:
            rep.ok('R1-status-composition', 'transition(%s, %s)' % (s, o), str(got))
    rep.floor('R1-cells', n, 64)


def body_paths(fx, f, pure=()):
    rs = Symx(fx, max_paths=6000, snapshot_refs=True, pure=set(pure)).run(f)
    return rs


def check_extend_state(fx, rep):
    f = fx.fns.get(BS + 'extend_state')
    if f is None:
        rep.undecided('R2-extend-state', 'extend_state', 'not found')
        return
    rep.fn(f)
    try:
        rs = body_paths(fx, f, {WD})
    except Budget:
        rep.undecided('R2-extend-state', 'extend_state', 'path budget', f.where())
        return
    seen = {'replace': False, 'merge': False, 'tail': 0, 'vacant': False}
    problems = []
    for r in rs:
        if not r.cut:
            continue
        ev = [e[0].split('::')[-1] for e in r.events]
        wd = None
        for (sv, lit, _f, _b) in r.lits:
            if render(sv).startswith('was_destroyed('):
                wd = lit_truth(lit)
                who = sv[2][0] if sv[0] == 'call' and sv[2] else None
                while isinstance(who, tuple) and who[0] in ('valref', 'ref') and len(who) > 1 and isinstance(who[1], tuple):
                    who = who[1]
                later = isinstance(who, tuple) and who[0] == 'proj' and isinstance(who[1], tuple) and who[1][0] == 'call' and who[1][1].endswith('::next')
                if not later:
                    problems.append('the storage replacement is decided on %s, not on the later account' % render(sv)[:60])
        stores = {''.join(path): v for (root, path), v in r.stores.items() if root[0] == 'deref'}
        if any(e[0].endswith('VacantEntry::insert') for e in r.events):
            seen['vacant'] = True
            continue
        if wd is True:
            sv = stores.get('.storage')
            if sv is None or not render(sv).endswith('.storage') or 'next(' not in render(sv):
                problems.append('a destroyed later account does not replace the earlier storage (%s)' % (render(sv)[:50] if sv else 'no store'))
            else:
                seen['replace'] = True
        if wd is False and 'or_insert' in ev:
            pv = [v for (root, path), v in r.stores.items() if path and path[-1] == '.present_value']
            if pv and all('present_value' in render(v) for v in pv):
                seen['merge'] = True
            else:
                problems.append('merged slots do not take the later present value')
        if 'transition' in ev:
            seen['tail'] += 1
            te = [e for e in r.events if e[0] == AS + '::transition'][0]
            if '.status' not in render(te[1][1]) or 'next(' not in render(te[1][1]):
                problems.append('status composed with %s, not the later account\'s status' % render(te[1][1])[:50])
            iv = stores.get('.info')
            if iv is None or not render(iv).endswith('.info') or 'next(' not in render(iv):
                problems.append('info is not taken from the later account')
    if not (seen['replace'] and seen['merge'] and seen['tail'] >= 2 and seen['vacant']):
        problems.append('paths not recognised: %s' % seen)
    if problems:
        rep.violation('R2-extend-state', 'later-wins', 'extend_state: ' + sorted(set(problems))[0], f.where())
    else:
        rep.ok('R2-extend-state', 'later-wins', 'info, composed status, replaced-or-merged storage from the later half; new accounts inserted')


def check_extend(fx, rep):
    f = fx.fns.get(BS + 'extend')
    if f is None:
        rep.undecided('R3-extend', 'extend', 'not found')
        return
    rep.fn(f)
    try:
        rs = body_paths(fx, f, {WD})
    except Budget:
        rep.undecided('R3-extend', 'extend', 'path budget', f.where())
        return
    problems = []
    seen_move = seen_cancel = seen_keep = False
    order_ok = False
    for r in rs:
        ev = [e[0].split('::')[-1] for e in r.events]
        names = [e[0] for e in r.events]
        if not r.cut:
            # tail: extend_state, then contracts.extend, then reverts.extend
            idx = [i for i, e in enumerate(r.events) if e[0] == BS + 'extend_state']
            ridx = [i for i, e in enumerate(r.events) if e[0].endswith('Reverts::extend')]
            if len(idx) == 1 and len(ridx) == 1:
                re_ = r.events[ridx[0]]
                if 'arg1' in render(re_[1][0]) or "('arg', 1)" in render(re_[1][0]):
                    order_ok = True
                else:
                    problems.append('reverts of the earlier half are appended to the later ones')
            else:
                problems.append('extend does not extend state and reverts exactly once')
            continue
        wipe = None
        wd = None
        for (sv, lit, _f, _b) in r.lits:
            txt = render(sv)
            if 'wipe_storage' in txt:
                wipe = lit_truth(lit)
            if txt.startswith('was_destroyed('):
                wd = lit_truth(lit)
        if 'or_insert' in ev:
            seen_move = True
            if 'drain' not in ev and not any('drain' in n_ for n_ in names):
                pass
        if any(e for e in ev if e == 'insert') and 'or_insert' not in ev and wipe:
            problems.append('earlier slots are inserted over the values the later half recorded')
        ws = [v for (root, path), v in r.stores.items() if path and path[-1] == '.wipe_storage']
        if ws:
            if wd is True and ws[0] == K(0):
                seen_cancel = True
            else:
                problems.append('the later wipe is cancelled without the earlier half having destroyed the account')
        elif wd is False:
            seen_keep = True
    if not (seen_move and seen_cancel and seen_keep and order_ok):
        problems.append('paths not recognised (move=%s cancel=%s keep=%s order=%s)' % (seen_move, seen_cancel, seen_keep, order_ok))
    if problems:
        rep.violation('R3-extend', 'wipe-handover', 'extend: ' + sorted(set(problems))[0], f.where())
    else:
        rep.ok('R3-extend', 'wipe-handover', 'earlier slots moved with or_insert; wipe cancelled iff already destroyed; reverts appended')


def check_take(fx, rep):
    f = fx.fns.get(BS + 'take_n_reverts')
    g = fx.fns.get(BS + 'take_all_reverts')
    if f is None or g is None:
        rep.undecided('R4-take-reverts', 'take_n_reverts', 'not found')
        return
    rep.fn(f)
    rep.fn(g)
    try:
        rs = body_paths(fx, f)
        rg = body_paths(fx, g)
    except Budget:
        rep.undecided('R4-take-reverts', 'take_n_reverts', 'path budget', f.where())
        return
    problems = []
    split = clamp = False
    for r in rs:
        guard = [(render(l[0]), lit_truth(l[1])) for l in r.lits if 'arg2' in render(l[0])]
        ret = render(r.ret)
        if 'take_all_reverts' in ret:
            # n >= len and n > len are both exact: splitting at len returns everything as well
            if guard and guard[0][0].startswith(('Gt(arg2, len(', 'Ge(arg2, len(')) and guard[0][1] is True:
                clamp = True
            else:
                problems.append('all reverts are taken under %s' % (guard or 'no guard'))
            continue
        kept = [v for (root, path), v in r.stores.items() if root == ('arg', 1) and path == ('.reverts',)]
        if 'split_at(' in ret and ', arg2).0' in ret and kept and ', arg2).1' in render(kept[0]):
            split = True
        else:
            problems.append('returns %s and keeps %s' % (ret[:60], render(kept[0])[:60] if kept else 'everything'))
    if not (split and clamp):
        problems.append('split=%s clamp=%s' % (split, clamp))
    ok_all = False
    for r in rg:
        ret = render(r.ret)
        if ret.startswith('take(') and 'reverts' in ret:
            ok_all = True
    if not ok_all:
        problems.append('take_all_reverts does not take the whole revert list')
    if problems:
        rep.violation('R4-take-reverts', 'split', 'take_n_reverts: ' + sorted(set(problems))[0], f.where())
    else:
        rep.ok('R4-take-reverts', 'split', 'first n returned, rest kept, n clamped by the length')


def check_prepend(fx, rep):
    f = fx.fns.get(BS + 'prepend_state')
    if f is None:
        rep.undecided('R5-prepend', 'prepend_state', 'not found')
        return
    rep.fn(f)
    try:
        rs = body_paths(fx, f)
    except Budget:
        rep.undecided('R5-prepend', 'prepend_state', 'path budget', f.where())
        return
    problems = []
    for r in rs:
        es = [e for e in r.events if e[0] == BS + 'extend_state']
        if len(es) != 1:
            problems.append('extend_state called %d times' % len(es))
            continue
        recv, arg = render(es[0][1][0]), render(es[0][1][1])
        # receiver must be the given (older) bundle = parameter 2, argument this bundle's state
        if not ("('local', 1, 2)" in recv or 'arg2' in recv) or 'take(' not in arg or not arg.endswith('.state'):
            problems.append('state applied as %s.extend_state(%s): the newer values must be applied on top of the older bundle' % (recv[:40], arg[:40]))
        if not any(e[0].endswith('mem::swap') for e in r.events):
            problems.append('the combined bundle is not installed')
    if problems:
        rep.violation('R5-prepend', 'newer-wins', 'prepend_state: ' + sorted(set(problems))[0], f.where())
    else:
        rep.ok('R5-prepend', 'newer-wins', 'older.extend_state(newer.state), then swapped in')
