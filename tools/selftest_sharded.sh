#!/bin/bash
# Run the whole selftest in N parallel shards, each on its own scratch worktree of /repo under
# /tmp/st (removed afterwards); /repo itself is not touched.  Usage: tools/selftest_sharded.sh [N]
N=${1:-4}
V=$(cd "$(dirname "$0")/.." && pwd)
mkdir -p /tmp/st "$V/.work"
for i in $(seq 0 $((N-1))); do
  git -C /repo worktree add --detach /tmp/st/$i HEAD >/dev/null 2>&1
  ( SELFTEST_REPO=/tmp/st/$i SELFTEST_SHARD=$i/$N python3 "$V/tools/selftest.py" > "$V/.work/selftest_shard_$i.log" 2>&1 ) &
done
wait
for i in $(seq 0 $((N-1))); do git -C /repo worktree remove --force /tmp/st/$i; rm -rf /tmp/st/$i.work; done
cat "$V"/.work/selftest_shard_*.log | grep -v "^caught\|^silent-ok" 
