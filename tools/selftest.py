#!/usr/bin/env python3
"""Checker self-test: apply each small mutant (textual replacement) to /repo, run the named
property checks, require a VIOLATION whose key contains the expected substring, then restore /repo
with `git checkout`.  Behaviour-preserving edits (expect == null) must stay silent.

  tools/selftest.py [name-substring ...]
"""
import json
import os
import subprocess
import sys

V = os.path.dirname(os.path.dirname(os.path.abspath(__file__)))
REPO = os.environ.get('SELFTEST_REPO', '/repo')      # a scratch worktree when sharded (see tools/selftest_sharded.sh)
SHARD = os.environ.get('SELFTEST_SHARD')               # "i/n": this process takes every n-th mutant


def sh(cmd, **kw):
    return subprocess.run(cmd, shell=True, capture_output=True, text=True, **kw)


os.environ['VERIF_EVIDENCE_DIR'] = os.path.join(os.path.dirname(os.path.dirname(os.path.abspath(__file__))), '.work', 'evidence-selftest' + (SHARD or '').replace('/', '-'))
if REPO != '/repo':
    os.environ['VERIF_REPO'] = REPO
    # own work directory (facts cache, cargo target dir, lock): shards must not evict each other's facts
    os.environ['VERIF_WORK'] = os.path.join(REPO + '.work')


def main():
    import glob
    specs = []
    for fp in sorted(glob.glob(os.path.join(V, 'selftest', 'mutants*.json'))):
        specs += json.load(open(fp))
    sel = sys.argv[1:]
    st = sh('git -C %s status --porcelain' % REPO).stdout.strip()
    if st:
        print('refusing: /repo has uncommitted changes:\n' + st)
        return 2
    bad = 0
    if SHARD:
        i, n = map(int, SHARD.split('/'))
        specs = [m for k, m in enumerate(specs) if k % n == i]
    for m in specs:
        if sel and not any(s in m['name'] for s in sel):
            continue
        try:
            for e in m['edits']:
                p = os.path.join(REPO, e['file'])
                s = open(p).read()
                if s.count(e['old']) < 1:
                    raise RuntimeError('anchor text not found in %s' % e['file'])
                s = s.replace(e['old'], e['new'], 1)
                open(p, 'w').write(s)
            for prop in m['props']:
                r = sh('cd %s && ./check %s --tier %s' % (V, prop, m.get('tier', 'quick')))
                out = r.stdout + r.stderr
                keys = [l.strip() for l in out.splitlines() if 'key=' in l]
                exp = m.get('expect')
                if 'cargo check failed' in out:
                    print('MUTANT-DOES-NOT-COMPILE %-40s %s' % (m['name'], prop))
                    bad += 1
                elif exp is None:
                    if r.returncode != 0:
                        print('FALSE-ALARM %-40s %s\n   %s' % (m['name'], prop, '\n   '.join(keys[:4])))
                        bad += 1
                    else:
                        print('silent-ok   %-40s %s' % (m['name'], prop))
                else:
                    hit = [k for k in keys if exp in k]
                    if r.returncode == 1 and hit:
                        print('caught      %-40s %s  %s' % (m['name'], prop, hit[0].split('key=')[1][:100]))
                    else:
                        print('MISSED      %-40s %s (rc=%d) %s' % (m['name'], prop, r.returncode, keys[:3]))
                        bad += 1
        except Exception as ex:
            print('ERROR       %-40s %s' % (m['name'], ex))
            bad += 1
        finally:
            sh('git -C %s checkout -- .' % REPO)
    print('selftest: %d problem(s)' % bad)
    return 1 if bad else 0


if __name__ == '__main__':
    sys.exit(main())
