#!/usr/bin/env python3
"""Run every claimed check on /repo's current tree (quick tier by default, `--tier thorough`),
a few at a time, print one line per check and the total; evidence/*.json is rewritten by the runs.
Refuses to run on a modified /repo (evidence must describe the committed tree)."""
import json
import os
import subprocess
import sys
import time
from concurrent.futures import ThreadPoolExecutor

V = os.path.dirname(os.path.dirname(os.path.abspath(__file__)))


def main():
    tier = 'quick'
    if '--tier' in sys.argv:
        tier = sys.argv[sys.argv.index('--tier') + 1]
    st = subprocess.run('git -C /repo status --porcelain', shell=True, capture_output=True, text=True).stdout.strip()
    if st and '--force' not in sys.argv:
        print('refusing: /repo has uncommitted changes')
        return 2
    man = json.load(open(os.path.join(V, 'MANIFEST.json')))
    ids = sorted(c.get('property_id') or c.get('id') for c in man['checks'])
    # first run builds the shared facts
    t0 = time.time()

    def one(pid):
        t = time.time()
        r = subprocess.run(['./check', pid, '--tier', tier], cwd=V, capture_output=True, text=True)
        last = (r.stdout.strip().splitlines() or ['(no output)'])[-1]
        return pid, r.returncode, round(time.time() - t, 1), last, r.stdout.count('VIOLATION property=')

    first = one(ids[0])
    results = [first]
    with ThreadPoolExecutor(max_workers=6) as ex:
        results += list(ex.map(one, ids[1:]))
    bad = 0
    for pid, rc, secs, last, nv in results:
        print('%-4s rc=%d %5.1fs  %s' % (pid, rc, secs, last))
        bad += rc != 0 or nv
    print('%d checks, %d not clean, %.0fs' % (len(results), bad, time.time() - t0))
    return 1 if bad else 0


if __name__ == '__main__':
    sys.exit(main())
