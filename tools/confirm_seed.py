#!/usr/bin/env python3
"""Confirm a seeded change delivered by a sub-agent, in its scratch worktree (never in /repo):
  1. the patch applies and the workspace test suite passes with it,
  2. the demonstration fails with the patch and passes without it.
Then copy patch.diff, demo.diff and an extended meta.json to /verif/seeded/<name>/.

  tools/confirm_seed.py <ID> <name> [checks,comma,separated]
"""
import json
import os
import re
import shutil
import subprocess
import sys

V = os.path.dirname(os.path.dirname(os.path.abspath(__file__)))


def sh(cmd, cwd=None, env=None):
    e = dict(os.environ)
    e.update(env or {})
    return subprocess.run(cmd, shell=True, capture_output=True, text=True, cwd=cwd, env=e)


def main():
    ident, name = sys.argv[1], sys.argv[2]
    checks = sys.argv[3].split(',') if len(sys.argv) > 3 else [ident]
    wt = '/tmp/seed/%s' % ident
    out = '/tmp/seed/out/%s' % ident
    env = {'CARGO_TARGET_DIR': '/tmp/seed/target-%s' % ident, 'CARGO_NET_OFFLINE': 'true'}
    meta = json.load(open(os.path.join(out, 'meta.json')))
    # clean state: only the patch applied
    sh('git checkout -- . && git clean -fdq', cwd=wt)
    r = sh('git apply %s/patch.diff' % out, cwd=wt)
    assert r.returncode == 0, 'patch does not apply: ' + r.stderr
    # 1. suite with the patch
    r = sh('cargo test --workspace --no-fail-fast --offline 2>&1 | grep -E "^test result|FAILED|failed" ', cwd=wt, env=env)
    suite = r.stdout.strip().splitlines()
    suite_ok = all('FAILED' not in l and ' 0 failed' in l for l in suite if l.startswith('test result')) and suite
    # 2. demo with / without
    r = sh('git apply %s/demo.diff' % out, cwd=wt)
    assert r.returncode == 0, 'demo does not apply: ' + r.stderr
    demo_cmd = meta['demo_cmd']
    m = re.search(r'cargo test.*', demo_cmd)
    cmd = m.group(0) if m else demo_cmd
    cmd = cmd.replace('CARGO_TARGET_DIR=/tmp/seed/target-%s ' % ident, '')
    rw = sh(cmd + ' 2>&1 | grep -E "^test |test result"', cwd=wt, env=env)
    sh('git apply -R %s/patch.diff' % out, cwd=wt)
    ro = sh(cmd + ' 2>&1 | grep -E "^test |test result"', cwd=wt, env=env)
    sh('git apply %s/patch.diff' % out, cwd=wt)
    sh('git apply -R %s/demo.diff' % out, cwd=wt)
    with_fail = 'FAILED' in rw.stdout
    without_ok = 'FAILED' not in ro.stdout and 'test result: ok' in ro.stdout
    print('suite with patch ok:', bool(suite_ok))
    print('demo with patch   :', 'FAILS' if with_fail else 'does not fail', '|', rw.stdout.strip().splitlines()[-1:] )
    print('demo without patch:', 'passes' if without_ok else 'DOES NOT PASS', '|', ro.stdout.strip().splitlines()[-1:])
    if not (suite_ok and with_fail and without_ok):
        print('NOT CONFIRMED')
        return 1
    dst = os.path.join(V, 'seeded', name)
    os.makedirs(dst, exist_ok=True)
    shutil.copy(os.path.join(out, 'patch.diff'), dst)
    shutil.copy(os.path.join(out, 'demo.diff'), dst)
    meta.update({
        'property': ident, 'checks': checks,
        'confirmed': {
            'where': 'scratch worktree %s (removed afterwards)' % wt,
            'suite_with_patch': suite,
            'demo_cmd': cmd,
            'demo_with_patch': rw.stdout.strip().splitlines()[-3:],
            'demo_without_patch': ro.stdout.strip().splitlines()[-3:],
        },
    })
    json.dump(meta, open(os.path.join(dst, 'meta.json'), 'w'), indent=1)
    print('CONFIRMED ->', dst)
    return 0


if __name__ == '__main__':
    sys.exit(main())
