#!/usr/bin/env python3
"""Run the checks against the seeded changes kept under /verif/seeded/<name>/ (patch.diff + meta.json).
Each patch is applied to /repo (git apply), the checks named in meta.json["checks"] are run, and /repo
is restored (git checkout -- .).  Prints which check caught which change.

  tools/seeded.py [name ...]
"""
import json
import os
import subprocess
import sys

V = os.path.dirname(os.path.dirname(os.path.abspath(__file__)))


def sh(cmd):
    return subprocess.run(cmd, shell=True, capture_output=True, text=True)


os.environ['VERIF_EVIDENCE_DIR'] = os.path.join(os.path.dirname(os.path.dirname(os.path.abspath(__file__))), '.work', 'evidence-selftest')


def main():
    st = sh('git -C /repo status --porcelain').stdout.strip()
    if st:
        print('refusing: /repo has uncommitted changes')
        return 2
    base = os.path.join(V, 'seeded')
    names = sorted(os.listdir(base))
    sel = sys.argv[1:]
    missed = 0
    for n in names:
        d = os.path.join(base, n)
        if not os.path.isdir(d) or (sel and n not in sel):
            continue
        meta = json.load(open(os.path.join(d, 'meta.json')))
        r = sh('git -C /repo apply %s' % os.path.join(d, 'patch.diff'))
        if r.returncode != 0:
            print('%-28s PATCH DOES NOT APPLY: %s' % (n, r.stderr.strip()[:200]))
            missed += 1
            continue
        try:
            caught = []
            for p in meta.get('checks', [meta['property']]):
                rr = sh('cd %s && ./check %s --tier %s' % (V, p, meta.get('tier', 'quick')))
                keys = [l.split('key=')[1].strip() for l in rr.stdout.splitlines() if 'key=' in l]
                if rr.returncode == 1 and keys:
                    caught.append((p, keys[0]))
            if caught:
                print('%-28s caught by %s' % (n, '; '.join('%s [%s]' % c for c in caught)))
            else:
                exp = meta.get('expected', 'caught')
                print('%-28s %s' % (n, 'NOT CAUGHT' + (' (recorded blind spot)' if exp == 'missed' else '')))
                if exp != 'missed':
                    missed += 1
        finally:
            sh('git -C /repo checkout -- .')
    print('seeded: %d unexpected miss(es)' % missed)
    return 1 if missed else 0


if __name__ == '__main__':
    sys.exit(main())
