#!/usr/bin/env python3
"""Print the private (non-pub) functions of the workspace crates on /repo's current tree, one per
line: the content of rules/reference/known_private.txt (private functions the rules already know;
a private function that is not listed is treated as a new helper and followed by symx)."""
import os
import sys
sys.path.insert(0, os.path.join(os.path.dirname(os.path.dirname(os.path.abspath(__file__))), 'rules'))
import engine   # noqa: E402

ctx = engine.Ctx('C01', 'quick')
names = set()
for cfg in ('default', 'optimism', 'serde-json'):
    fx = ctx.facts(cfg)
    for f in fx.fns_all:
        if f.kind in ('Fn', 'AssocFn') and str(f.d.get('vis', '')).startswith('Restricted'):
            names.add(f.nq)
print('# private functions of the pinned tree (tools/list_private.py)')
for n in sorted(names):
    print(n)
