#!/usr/bin/env python3
"""Regenerate MANIFEST.json from the rule modules' META blocks (keeps the manifest valid)."""
import importlib
import json
import os
import sys

V = os.path.dirname(os.path.dirname(os.path.abspath(__file__)))
sys.path.insert(0, os.path.join(V, 'rules'))

NOT_APPLICABLE = {
    'C24': 'agreement of two cryptographic backends is an equality of computed curve points for all inputs; no clause of it is visible in the shape of the code (the two ecrecover bodies share no structure), so static analysis has no necessary condition to decide',
}

props = [json.loads(l) for l in open(os.path.join(V, 'properties.jsonl'))]
checks = []
na = []
for p in props:
    pid = p['id']
    modp = os.path.join(V, 'rules', pid.lower() + '.py')
    if pid in NOT_APPLICABLE:
        na.append({'property_id': pid, 'reason': NOT_APPLICABLE[pid]})
        continue
    if not os.path.exists(modp):
        na.append({'property_id': pid, 'reason': 'static check for the structural clause described in DESIGN.md section 4 is not implemented yet; not claimed until it is'})
        continue
    m = importlib.import_module(pid.lower())
    meta = m.META
    checks.append({
        'property_id': pid,
        'quick_cmd': './check %s --tier quick' % pid,
        'thorough_cmd': './check %s --tier thorough' % pid,
        'evidence_file': '/verif/evidence/%s.json' % pid,
        'replay_cmd_template': './check %s --replay {path}' % pid,
        'engine': 'mirfacts+rules',
        'level_claimed': {
            'category': meta.get('level', 'other'),
            'text': 'Decides: ' + meta['decides'] + '. Does not decide: ' + meta['does_not_decide'] + '.',
            'design_ref': 'DESIGN.md section 4, ' + pid,
        },
        'level_note': meta.get('note', 'trusted base: rustc nightly MIR construction at mir-opt-level=0, the mirfacts extractor, the reference tables under rules/reference, the python rule engine; the claim covers the structural clause named, not the behavioural statement as a whole'),
        'technique': meta.get('technique', 'static analysis over type-checked MIR (rustc_private driver): ' + meta.get('explanation', '')),
    })

man = {
    'version': 1,
    'setup_cmd': 'cd /verif/driver && CARGO_NET_OFFLINE=true cargo build --release --offline',
    'hooks': {
        'guard': 'risechain_revm_verif',
        'enable': 'none - no source hooks are used; checks compile /repo unmodified with the nightly toolchain under the mirfacts RUSTC_WORKSPACE_WRAPPER',
        'baseline_off_cmd': 'cd /repo && cargo nextest run --workspace --no-fail-fast --tool-config-file pb:/w/lib/nextest.toml --profile pb --test-threads 8 --offline || cargo test --workspace --no-fail-fast --offline',
        'source_commits': [],
        'add_only': True,
    },
    'engines': [{
        'name': 'mirfacts+rules',
        'path': '/verif/driver, /verif/rules',
        'serves_properties': [c['property_id'] for c in checks],
        'kind_free_text': 'rustc_private MIR/HIR/const fact extractor + python static rules (typestate, dominance, value origin, decision-table extraction, table-vs-reference)',
    }],
    'checks': checks,
    'not_applicable': na,
    'notes': 'Static analysis only: nothing in /repo is executed by a check. See DESIGN.md.',
}
with open(os.path.join(V, 'MANIFEST.json'), 'w') as fh:
    json.dump(man, fh, indent=1)
print('checks:', len(checks), 'not_applicable:', len(na))
