#!/usr/bin/env python3
"""Print the layout-constant inventory of the precompile crate (what rules/c23.py check_layouts
extracts), to review a change against rules/reference/precompiles.py LAYOUTS."""
import sys, os
sys.path.insert(0, os.path.join(os.path.dirname(os.path.dirname(os.path.abspath(__file__))), 'rules'))
import engine
import c23
ctx = engine.Ctx('C23', 'quick')
fx = ctx.facts('default')
for g in sorted(fx.fns_all, key=lambda g: g.nq):
    if g.nq.startswith('revm_precompile::') and '::test' not in g.nq:
        e = c23.layout_inventory(fx, g)
        if e:
            print("    %r: %r," % (g.nq.replace('revm_precompile::', ''), e))
